//! group `glyf.model` — correspondence of the real hand-written functions of
//! glyf.rs / loca.rs (SimpleGlyph points, PointIter, resolve_coords_len, CompositeGlyph components / instructions, Anchor / Transform, Loca::get_raw / get_glyf / all_offsets_are_ascending)
//! with Model/HandGlyf.lean (`hg.*` driver commands), on generator-based inputs with truncations and
//! boundary fields; plus the group's own byte-level oracles.
//!
//! * `hg.points <glyph>`              `SimpleGlyph::read` + `num_points`, `has_overlapping_contours`, `points()`
//! * `hg.fast <glyph> pl fl p mask`   `read_points_fast::<i32>` (buffer lengths `pl` / `fl`, flag buffer preset to `p`)
//! * `hg.comp <glyph>`                `CompositeGlyph::read` + `components()`, `component_glyphs_and_flags()`,
//!                                    `count_and_instructions()`, `instructions()`
//! * `hg.loca l <loca> <glyf> | idx.. | gid..`   `Loca::read` + `len`, `is_empty`, `all_offsets_are_ascending`,
//!                                    `get_raw`, `get_glyf`
//! Oracles (model independent, the statements of Props/C01HandGlyf.lean on the real results):
//! `points-bound`, `fast-len`, `components-bound`, `count-bound`, `instructions-inside`,
//! `loca-slice-inside`, `loca-len`.
use super::*;
use font_types::{GlyphId, Point};
use read_fonts::tables::glyf::{Anchor, CompositeGlyph, Glyf, PointFlags, PointMarker, SimpleGlyph};
use read_fonts::tables::loca::Loca;
use read_fonts::{FontData, FontRead, ReadError};

fn fnv(xs: impl Iterator<Item = u64>) -> u64 {
    let mut h = 0xcbf2_9ce4_8422_2325u64;
    for x in xs {
        h = (h ^ x).wrapping_mul(0x0000_0100_0000_01b3);
    }
    h
}

/// `Drv.C01Iter.summary`: `<count> <hash> <first> <last>`
fn summary(rows: &[Vec<u64>]) -> String {
    let render = |r: &Vec<u64>| r.iter().map(|x| x.to_string()).collect::<Vec<_>>().join(":");
    let first = rows.first().map(render).unwrap_or("-".into());
    let last = rows.last().map(render).unwrap_or("-".into());
    format!("{} {} {} {}", rows.len(), fnv(rows.iter().flatten().copied()), first, last)
}

fn err_str(e: &ReadError) -> String {
    match e {
        ReadError::OutOfBounds => "eO".into(),
        ReadError::InvalidArrayLen => "eL".into(),
        ReadError::MalformedData(_) => "eM".into(),
        other => format!("e?{other:?}"),
    }
}

fn be16(b: &[u8], p: usize) -> Option<u16> {
    let s = b.get(p..p.checked_add(2)?)?;
    Some(u16::from_be_bytes([s[0], s[1]]))
}

fn inside(s: &[u8], whole: &[u8]) -> bool {
    let a = s.as_ptr() as usize;
    let w = whole.as_ptr() as usize;
    s.is_empty() || (a >= w && a + s.len() <= w + whole.len())
}

/// run `f` under catch_unwind; a panic is the `no-panic` failure, otherwise the response is recorded
fn ask<T>(ctx: &mut Ctx, req: String, bytes: &[u8], f: impl FnOnce() -> (String, T)) -> Option<T> {
    PROGRESS.fetch_add(1, Ordering::Relaxed);
    match catch(f) {
        Ok((resp, extra)) => {
            ctx.oracle("no-panic", true, String::new, String::new);
            ctx.case(req, resp);
            Some(extra)
        }
        Err(m) => {
            ctx.oracle("no-panic", false, || format!("{req} [{}]", hex(bytes)), || m.clone());
            None
        }
    }
}

// ------------------------------------------------------------------------------------------------
// simple glyphs

/// a `PointFlags` value with the given bits (0x40 is not constructible through the public API)
fn pf(p: u8) -> PointFlags {
    let mut f = PointFlags::from_bits(p & 0x81);
    for (bit, m) in [
        (0x02u8, PointMarker::WEAK_INTERPOLATION),
        (0x04, PointMarker::HAS_DELTA),
        (0x08, PointMarker::NEAR),
        (0x10, PointMarker::TOUCHED_X),
        (0x20, PointMarker::TOUCHED_Y),
    ] {
        if p & bit != 0 {
            f.set_marker(m);
        }
    }
    f
}

/// the flag mask `read_points_fast` applies (0x01, or 0x81 with feature `spec_next`)
fn probe_mask() -> u8 {
    let g = [0u8, 1, 0, 0, 0, 0, 0, 0, 0, 0, 0, 0, 0, 0, 0xB1];
    // (a failing probe must not take the group down: the cases then show what is wrong)
    catch(|| {
        let g = SimpleGlyph::read(FontData::new(&g)).ok()?;
        let mut p = [Point::<i32>::default(); 1];
        let mut f = [PointFlags::default(); 1];
        g.read_points_fast(&mut p, &mut f).ok()?;
        Some(f[0].to_bits())
    })
    .ok()
    .flatten()
    .unwrap_or(1)
}

/// reference scan of the flag bytes for `n` points: classification for the branch distribution only
fn classify_simple(ctx: &mut Ctx, ends_last: Option<u16>, gd: &[u8]) {
    let Some(last) = ends_last else {
        ctx.count("pi.no-ends");
        return;
    };
    if last == 0xFFFF {
        ctx.count("pi.checked_add-none");
        return;
    }
    let n = last as usize + 1;
    let (mut p, mut left, mut x, mut y) = (0usize, n, 0usize, 0usize);
    while left > 0 {
        let Some(&f) = gd.get(p) else {
            ctx.count("rcl.err-oob-flag");
            return;
        };
        p += 1;
        let mut rep = 1usize;
        if f & 8 != 0 {
            let Some(&r) = gd.get(p) else {
                ctx.count("rcl.err-oob-repeat");
                return;
            };
            p += 1;
            rep = r as usize + 1;
            ctx.count(match r {
                0 => "rcl.repeat0",
                1 => "rcl.repeat1",
                255 => "rcl.repeat255",
                _ => "rcl.repeat-other",
            });
        } else {
            ctx.count("rcl.norepeat");
        }
        if rep > left {
            ctx.count("rcl.err-malformed");
            return;
        }
        ctx.count(if f & 2 != 0 { if f & 0x10 != 0 { "delta.x-short-pos" } else { "delta.x-short-neg" } } else if f & 0x10 == 0 { "delta.x-long" } else { "delta.x-same" });
        ctx.count(if f & 4 != 0 { if f & 0x20 != 0 { "delta.y-short-pos" } else { "delta.y-short-neg" } } else if f & 0x20 == 0 { "delta.y-long" } else { "delta.y-same" });
        x += rep * if f & 2 != 0 { 1 } else if f & 0x10 == 0 { 2 } else { 0 };
        y += rep * if f & 4 != 0 { 1 } else if f & 0x20 == 0 { 2 } else { 0 };
        left -= rep;
    }
    if gd.len() < p + x + y {
        ctx.count("pi.data-too-short");
    } else {
        ctx.count("pi.some");
    }
}

/// classification of the flag loop of `read_points_fast`
fn classify_fast(ctx: &mut Ctx, n: usize, gd: &[u8]) {
    let avail = n.min(gd.len());
    let mut it = gd[..avail].iter();
    let mut i = 0usize;
    loop {
        let Some(&f) = it.next() else {
            ctx.count(if i < n { "ff.flags-exhausted" } else { "ff.empty" });
            return;
        };
        if f & 8 != 0 {
            let Some(&r) = it.next() else {
                ctx.count("ff.err-repeat-eof");
                return;
            };
            let c = (r as usize + 1).min(n - i);
            ctx.count(if c < r as usize + 1 { "ff.repeat-clamped" } else { "ff.repeat" });
            i += c;
        } else {
            ctx.count("ff.plain");
            i += 1;
        }
        if i == n {
            ctx.count("ff.break");
            return;
        }
    }
}

fn ask_points(ctx: &mut Ctx, bytes: &[u8]) -> Option<usize> {
    let r = ask(ctx, format!("hg.points {}", hex(bytes)), bytes, || match SimpleGlyph::read(FontData::new(bytes)) {
        Err(_) => ("err".to_string(), None),
        Ok(g) => {
            let n = g.num_points();
            let ov = g.has_overlapping_contours();
            let gd = g.glyph_data();
            let mut rows: Vec<Vec<u64>> = vec![];
            let mut cnt = 0usize;
            for p in g.points() {
                cnt += 1;
                if cnt > 70000 {
                    break;
                }
                rows.push(vec![p.x as u16 as u64, p.y as u16 as u64, p.on_curve as u64]);
            }
            let last = g.end_pts_of_contours().last().map(|e| e.get());
            (format!("{n} {} {}", ov as u8, summary(&rows)), Some((n, cnt, gd.to_vec(), last)))
        }
    })?;
    match r {
        None => {
            ctx.count("simple.read-err");
            None
        }
        Some((n, cnt, gd, last)) => {
            // Props: points_exact, numPoints_bounded
            ctx.oracle(
                "points-bound",
                n <= 65536 && (cnt == 0 || cnt == n) && cnt <= 65535 && cnt <= 256 * gd.len(),
                || format!("hg.points {}", hex(bytes)),
                || format!("num_points {n}, points() yielded {cnt}, glyph_data {} bytes", gd.len()),
            );
            ctx.count(if n == 0 { "np.zero" } else { "np.some" });
            ctx.count(match gd.first() {
                None => "ov.no-data",
                Some(f) if f & 0x40 != 0 => "ov.set",
                _ => "ov.clear",
            });
            ctx.count(if cnt == 0 { "points.empty" } else if cnt > 256 { "points.large" } else { "points.some" });
            classify_simple(ctx, last, &gd);
            Some(n)
        }
    }
}

fn ask_fast(ctx: &mut Ctx, bytes: &[u8], pl: usize, fl: usize, p: u8, mask: u8) {
    let req = format!("hg.fast {} {pl} {fl} {p} {mask}", hex(bytes));
    let r = ask(ctx, req.clone(), bytes, || match SimpleGlyph::read(FontData::new(bytes)) {
        Err(_) => ("err".to_string(), None),
        Ok(g) => {
            let mut pts: Vec<Point<i32>> = vec![Point::default(); pl];
            let mut fls: Vec<PointFlags> = vec![pf(p); fl];
            let n = g.num_points();
            let gd = g.glyph_data().to_vec();
            match g.read_points_fast(&mut pts, &mut fls) {
                Err(e) => (err_str(&e), Some((n, false, gd))),
                Ok(()) => {
                    let rows: Vec<Vec<u64>> = pts.iter().zip(&fls).map(|(q, f)| vec![q.x as u32 as u64, q.y as u32 as u64, f.to_bits() as u64]).collect();
                    (format!("ok {}", summary(&rows)), Some((n, true, gd)))
                }
            }
        }
    });
    if let Some(Some((n, ok, gd))) = r {
        // Props: readPointsFast_safe — Ok only for buffers of exactly num_points entries
        ctx.oracle("fast-len", !ok || (pl == n && fl == n), || req.clone(), || format!("Ok for buffers {pl}/{fl}, num_points {n}"));
        if pl != n || fl != n {
            ctx.count("fast.err-len");
        } else {
            ctx.count(if ok { "fast.ok" } else { "fast.err-oob" });
            classify_fast(ctx, n, &gd);
        }
    }
}

/// all cases of one simple-glyph byte string
fn simple_cases(ctx: &mut Ctx, bytes: &[u8], mask: u8, k: usize) {
    let Some(n) = ask_points(ctx, bytes) else {
        return;
    };
    // (the model's buffers are lists: keep the number of cases with tens of thousands of points small)
    if n > 2000 && k % 16 != 0 {
        return;
    }
    if n <= 200 || k % 2 == 0 {
        ask_fast(ctx, bytes, n, n, 0, mask);
    }
    if n > 200 && k % 2 == 0 {
        return;
    }
    match (k / 2) % 8 {
        0 => ask_fast(ctx, bytes, n, n, 0x36, mask),
        1 => ask_fast(ctx, bytes, n, n, 0x01, mask),
        2 => ask_fast(ctx, bytes, n.saturating_sub(1), n, 0, mask),
        3 => ask_fast(ctx, bytes, n, n + 1, 0, mask),
        4 => ask_fast(ctx, bytes, n, n, 0xB7 & !0x40, mask),
        5 => ask_fast(ctx, bytes, n + 1, n + 1, 0, mask),
        6 => ask_fast(ctx, bytes, n, n, 0x30, mask),
        _ => ask_fast(ctx, bytes, 0, 0, 0x06, mask),
    }
}

// ------------------------------------------------------------------------------------------------
// composite glyphs

fn ask_comp(ctx: &mut Ctx, bytes: &[u8]) {
    let req = format!("hg.comp {}", hex(bytes));
    let r = ask(ctx, req.clone(), bytes, || match CompositeGlyph::read(FontData::new(bytes)) {
        Err(_) => ("err".to_string(), None),
        Ok(g) => {
            let cd = g.component_data();
            let cap = cd.len() + 2;
            let mut rows: Vec<Vec<u64>> = vec![];
            for c in g.components().take(cap) {
                let mut r = vec![c.flags.bits() as u64, c.glyph.to_u16() as u64];
                match c.anchor {
                    Anchor::Offset { x, y } => r.extend([1, x as u16 as u64, y as u16 as u64]),
                    Anchor::Point { base, component } => r.extend([2, base as u64, component as u64]),
                }
                for v in [c.transform.xx, c.transform.yx, c.transform.xy, c.transform.yy] {
                    r.push(v.to_bits() as u16 as u64);
                }
                r.push(c.anchor.compute_flags().bits() as u64);
                r.push(c.transform.compute_flags().bits() as u64);
                rows.push(r);
            }
            let gf: Vec<Vec<u64>> = g.component_glyphs_and_flags().take(cap).map(|(gid, f)| vec![gid.to_u16() as u64, f.bits() as u64]).collect();
            let (count, instr) = g.count_and_instructions();
            let instr2 = g.instructions();
            let show = |i: Option<&[u8]>| match i {
                None => "n".to_string(),
                Some(s) => format!("{}:{}", s.len(), fnv(s.iter().map(|b| *b as u64))),
            };
            let ins_ok = instr.map(|s| inside(s, cd)).unwrap_or(true) && instr2.map(|s| inside(s, cd)).unwrap_or(true);
            (
                format!("{} | {} | {count} {} {}", summary(&rows), summary(&gf), show(instr), show(instr2)),
                Some((cd.to_vec(), rows, gf.len(), count, ins_ok, instr.is_some())),
            )
        }
    });
    match r {
        None => {}
        Some(None) => ctx.count("comp.read-err"),
        Some(Some((cd, rows, ngf, count, ins_ok, has_instr))) => {
            // Props: components_bounded, countAndInstructions_safe
            ctx.oracle("components-bound", rows.len() <= cd.len() / 6, || req.clone(), || format!("{} components from {} bytes", rows.len(), cd.len()));
            ctx.oracle("count-bound", ngf <= (cd.len() + 2) / 6 && count == ngf, || req.clone(), || format!("{ngf} items, count {count}, {} bytes", cd.len()));
            ctx.oracle("instructions-inside", ins_ok, || req.clone(), || "instruction slice outside component_data()".into());
            // branch distribution (reference walk over the records)
            let mut p = 0usize;
            let mut cur = 0u16;
            let mut yielded = 0usize;
            loop {
                let Some(f) = be16(&cd, p) else {
                    ctx.count("comp.flags-read-fails");
                    p += 2;
                    break;
                };
                let f = f & 0x1FEF;
                cur = f;
                if be16(&cd, p + 2).is_none() {
                    ctx.count("comp.gid-read-fails");
                    p += 4;
                    break;
                }
                ctx.count(match (f & 2 != 0, f & 1 != 0) {
                    (true, true) => "anchor.offset-words",
                    (true, false) => "anchor.offset-bytes",
                    (false, true) => "anchor.point-words",
                    (false, false) => "anchor.point-bytes",
                });
                let t = if f & 8 != 0 { 2 } else if f & 0x40 != 0 { 4 } else if f & 0x80 != 0 { 8 } else { 0 };
                ctx.count(match t {
                    2 => "transform.scale",
                    4 => "transform.xy-scale",
                    8 => "transform.2x2",
                    _ => "transform.none",
                });
                let end = p + 4 + if f & 1 != 0 { 4 } else { 2 } + t;
                if end > cd.len() {
                    ctx.count(if yielded == rows.len() { "comp.args-read-fail" } else { "comp.args-read-fail?" });
                } else {
                    yielded += 1;
                }
                p = end;
                if f & 0x20 == 0 {
                    ctx.count("comp.last-without-more");
                    break;
                }
            }
            ctx.count(if cur & 0x100 == 0 {
                "ci.no-instruction-flag"
            } else if has_instr {
                "ci.instructions"
            } else if be16(&cd, p).is_none() {
                "ci.length-read-fails"
            } else {
                "ci.array-read-fails"
            });
            ctx.count(match rows.len() {
                0 => "comp.items0",
                1 => "comp.items1",
                _ => "comp.items2+",
            });
        }
    }
}

// ------------------------------------------------------------------------------------------------
// loca

fn ask_loca(ctx: &mut Ctx, long: bool, loca_b: &[u8], glyf_b: &[u8], idxs: &[usize], gids: &[u32]) {
    let req = format!("hg.loca {} {} {} | {} | {}", long as u8, hex(loca_b), hex(glyf_b), join(idxs), join(gids));
    let all = [loca_b, glyf_b].concat();
    let r = ask(ctx, req.clone(), &all, || {
        let glyf = Glyf::read(FontData::new(glyf_b)).expect("Glyf::read");
        match Loca::read(FontData::new(loca_b), long) {
            Err(e) => (err_str(&e), None),
            Ok(loca) => {
                let raws: Vec<String> = idxs.iter().map(|i| loca.get_raw(*i).map(|v| v.to_string()).unwrap_or("-".into())).collect();
                let mut slice_ok = true;
                let mut kinds: Vec<&'static str> = vec![];
                let ggs: Vec<String> = gids
                    .iter()
                    .map(|g| match loca.get_glyf(GlyphId::new(*g), &glyf) {
                        Err(e) => {
                            kinds.push("gg.err");
                            err_str(&e)
                        }
                        Ok(None) => {
                            kinds.push("gg.none");
                            "n".into()
                        }
                        Ok(Some(gl)) => {
                            kinds.push("gg.glyph");
                            let d = gl.offset_data().as_bytes();
                            slice_ok &= !d.is_empty() && inside(d, glyf_b);
                            let a = d.as_ptr() as usize - glyf_b.as_ptr() as usize;
                            format!("s{}:{}", a, a + d.len())
                        }
                    })
                    .collect();
                let entries = loca_b.len() / if long { 4 } else { 2 };
                let len_ok = loca.len() == entries.saturating_sub(1) && loca.is_empty() == (loca.len() == 0);
                (
                    format!("{} {} {} | {} | {}", loca.len(), loca.is_empty() as u8, loca.all_offsets_are_ascending() as u8, join(&raws), join(&ggs)),
                    Some((slice_ok, len_ok, kinds, loca.all_offsets_are_ascending())),
                )
            }
        }
    });
    match r {
        None => {}
        Some(None) => ctx.count("loca.read-err"),
        Some(Some((slice_ok, len_ok, kinds, asc))) => {
            // Props: getGlyf_range, locaRead_total
            ctx.oracle("loca-slice-inside", slice_ok, || req.clone(), || "get_glyf handed out an empty slice or one outside the glyf table".into());
            ctx.oracle("loca-len", len_ok, || req.clone(), || "len() / is_empty() disagree with the entry count".into());
            ctx.count(if long { "loca.long" } else { "loca.short" });
            ctx.count(if asc { "loca.ascending" } else { "loca.not-ascending" });
            for k in kinds {
                ctx.count(k);
            }
        }
    }
}

// ------------------------------------------------------------------------------------------------
// generators (after hand/glyfx.rs)

fn coord(rng: &mut Rng, short_bit: u8, same_bit: u8) -> (u8, Vec<u8>) {
    match rng.below(6) {
        0 => (same_bit, vec![]),
        1 | 2 => {
            let v = *rng.pick(&[0u8, 1, 2, 100, 127, 128, 254, 255]);
            if rng.chance(1, 2) { (short_bit | same_bit, vec![v]) } else { (short_bit, vec![v]) }
        }
        _ => {
            let v: i16 = match rng.below(5) {
                0 => i16::MAX,
                1 => i16::MIN,
                2 => rng.next() as i16,
                _ => rng.range(-600, 600) as i16,
            };
            (0, v.to_be_bytes().to_vec())
        }
    }
}

/// a well formed simple glyph (count / length fields registered)
fn simple_glyph(rng: &mut Rng, n_points: usize, n_contours: usize, instr_len: usize) -> B {
    let mut b = B::new();
    b.f16(n_contours as u16);
    for _ in 0..4 {
        b.i16(rng.range(-2000, 2000) as i16);
    }
    let mut ends: Vec<u16> = vec![];
    if n_contours > 0 {
        let mut cuts: Vec<usize> = (0..n_contours - 1).map(|_| rng.below(n_points.max(1) as u64) as usize).collect();
        cuts.sort();
        for c in cuts {
            ends.push(c as u16);
        }
        ends.push(n_points.saturating_sub(1) as u16);
    }
    for e in &ends {
        b.f16(*e);
    }
    b.f16(instr_len as u16);
    b.bytes(&rng.bytes(instr_len));
    let n = if n_contours > 0 { n_points.max(1) } else { 0 };
    let mut flags: Vec<u8> = vec![];
    let mut xs: Vec<Vec<u8>> = vec![];
    let mut ys: Vec<Vec<u8>> = vec![];
    let mut i = 0;
    while i < n {
        let (fx, bx) = coord(rng, 2, 0x10);
        let (fy, by) = coord(rng, 4, 0x20);
        let mut f = fx | fy | (rng.below(2) as u8);
        if i == 0 && rng.chance(1, 3) {
            f |= 0x40;
        }
        if rng.chance(1, 8) {
            f |= 0x80;
        }
        let run = if rng.chance(1, 3) { 1 + rng.below(((n - i).min(300)) as u64) as usize } else { 1 };
        for _ in 0..run {
            flags.push(f);
            xs.push(bx.clone());
            ys.push(by.clone());
        }
        i += run;
    }
    let mut k = 0;
    while k < flags.len() {
        let mut run = 1;
        while k + run < flags.len() && flags[k + run] == flags[k] && run < 256 {
            run += 1;
        }
        if run > 1 && rng.chance(3, 4) {
            let run = if rng.chance(1, 4) { 1 + rng.below(run as u64) as usize } else { run };
            if run > 1 || rng.chance(1, 2) {
                // (a run of one written as `flag|REPEAT, 0` is legal too)
                b.u8(flags[k] | 8).f8((run - 1) as u8);
            } else {
                b.u8(flags[k]);
            }
            k += run;
        } else {
            b.u8(flags[k]);
            k += 1;
        }
    }
    for v in &xs {
        b.bytes(v);
    }
    for v in &ys {
        b.bytes(v);
    }
    b
}

fn component_record(rng: &mut Rng, flags: u16) -> Vec<u8> {
    let mut v = vec![];
    v.extend_from_slice(&flags.to_be_bytes());
    v.extend_from_slice(&(*rng.pick(&[0u16, 1, 5, 0xFFFE, 0xFFFF])).to_be_bytes());
    if flags & 1 != 0 {
        for _ in 0..2 {
            v.extend_from_slice(&(*rng.pick(&[0u16, 1, 127, 128, 255, 256, 0x7FFF, 0x8000, 0xFF80, 0xFF7F, 0xFFFF])).to_be_bytes());
        }
    } else {
        for _ in 0..2 {
            v.push(*rng.pick(&[0u8, 1, 127, 128, 255]));
        }
    }
    let n = if flags & 0x08 != 0 {
        1
    } else if flags & 0x40 != 0 {
        2
    } else if flags & 0x80 != 0 {
        4
    } else {
        0
    };
    for _ in 0..n {
        v.extend_from_slice(&(*rng.pick(&[0x4000u16, 0, 0x2000, 0xC000, 0x7FFF, 0x8000])).to_be_bytes());
    }
    v
}

const STRUCT_BITS: [u16; 6] = [0x0001, 0x0002, 0x0008, 0x0040, 0x0080, 0x0100];

fn composite_glyph(rng: &mut Rng, comp_flags: &[u16], instr: Option<usize>, dangling_more: bool) -> B {
    let mut b = B::new();
    b.f16(0xFFFF);
    for _ in 0..4 {
        b.i16(rng.range(-2000, 2000) as i16);
    }
    let n = comp_flags.len();
    for (i, f) in comp_flags.iter().enumerate() {
        let last = i + 1 == n;
        let mut flags = *f & !0x0020;
        if !last || dangling_more {
            flags |= 0x0020;
        }
        if last && instr.is_some() {
            flags |= 0x0100;
        }
        let c = component_record(rng, flags);
        let at = b.len();
        b.bytes(&c);
        b.mark(at, 2);
    }
    if let Some(n) = instr {
        b.f16(n as u16);
        b.bytes(&rng.bytes(n));
    }
    b
}

fn random_comp_flags(rng: &mut Rng) -> u16 {
    let mut f = 0u16;
    for bit in STRUCT_BITS {
        if rng.chance(1, 3) {
            f |= bit;
        }
    }
    if rng.chance(1, 3) {
        f |= (rng.next() as u16) & 0xFE14;
    }
    f
}

/// the variants of a generated input: itself, every prefix (a spread of prefixes for long inputs),
/// every registered field at boundary values, a few random flips
fn variants(rng: &mut Rng, b: &B, flips: usize) -> Vec<Vec<u8>> {
    let base = &b.v;
    let n = base.len();
    let mut out = vec![base.clone()];
    let mut cuts: Vec<usize> = vec![];
    if n <= 96 {
        cuts.extend(0..n);
    } else {
        cuts.extend(0..40);
        cuts.extend(n - 24..n);
        for (p, w) in &b.fields {
            cuts.push((*p).min(n - 1));
            cuts.push((*p + *w as usize).min(n - 1));
        }
        for _ in 0..16 {
            cuts.push(rng.below(n as u64) as usize);
        }
        cuts.sort();
        cuts.dedup();
    }
    for c in cuts {
        out.push(base[..c].to_vec());
    }
    for (p, w) in &b.fields {
        let (p, w) = (*p, *w as usize);
        if p + w > n {
            continue;
        }
        let max = (1u64 << (8 * w)) - 1;
        let mut cur = 0u64;
        for i in 0..w {
            cur = (cur << 8) | base[p + i] as u64;
        }
        let rest = (n - p) as u64;
        let mut vals = vec![0, 1, max - 1, max, max / 2, max / 2 + 1, n as u64, rest, rest + 1, rest / 2, cur.wrapping_add(1), cur.wrapping_sub(1), cur.wrapping_mul(2)];
        vals.sort();
        vals.dedup();
        for v in vals {
            let v = v & max;
            if v == cur {
                continue;
            }
            let mut m = base.clone();
            for i in 0..w {
                m[p + i] = (v >> (8 * (w - 1 - i))) as u8;
            }
            out.push(m);
        }
    }
    for _ in 0..flips {
        if n == 0 {
            break;
        }
        let mut m = base.clone();
        for _ in 0..1 + rng.below(3) {
            let p = rng.below(n as u64) as usize;
            m[p] = match rng.below(4) {
                0 => 0,
                1 => 0xFF,
                2 => m[p] ^ (1 << rng.below(8)),
                _ => rng.next() as u8,
            };
        }
        out.push(m);
    }
    out
}

pub fn run(ctx: &mut Ctx) {
    let t = ctx.thorough;
    let mask = probe_mask();
    ctx.count(&format!("fast.mask-{mask:#x}"));
    let mut k = 0usize;

    // --- simple glyphs: generated, with all variants
    let rounds = if t { 120 } else { 22 };
    for round in 0..rounds {
        let n_contours = match round % 7 {
            0 => 0,
            1 => 1,
            _ => 1 + ctx.rng.below(3) as usize,
        };
        let n_points = match round % 9 {
            0 => 1,
            8 => 257 + ctx.rng.below(300) as usize,
            5 => 30 + ctx.rng.below(40) as usize,
            _ => 1 + ctx.rng.below(9) as usize,
        };
        let instr_len = if round % 3 == 0 { ctx.rng.below(4) as usize } else { 0 };
        let mut b = simple_glyph(&mut ctx.rng, n_points, n_contours, instr_len);
        if round % 4 == 1 {
            b.bytes(&rbytes(&mut ctx.rng, 5));
        }
        let vs = variants(&mut ctx.rng, &b, if t { 24 } else { 8 });
        for v in &vs {
            simple_cases(ctx, v, mask, k);
            k += 1;
        }
        ctx.count("gen.simple");
    }
    // --- hostile end point arrays / repeat runs in a few bytes
    for last in [0u16, 1, 254, 255, 256, 257, 511, 0x7FFF, 0xFFFE, 0xFFFF] {
        for flag in [0x39u8, 0x38, 0x08, 0x3F, 0x0E, 0x1A, 0x2C] {
            for rep in [0u8, 1, 254, 255] {
                let mut v = vec![0, 1, 0, 0, 0, 0, 0, 0, 0, 0];
                v.extend_from_slice(&last.to_be_bytes());
                v.extend_from_slice(&[0, 0]);
                let runs = (last as usize + 1).div_ceil(rep as usize + 1);
                // (a few hundred bytes at most: the model's list cursors are linear in the position)
                for _ in 0..runs.min(if last > 600 && (flag & 0x36) != 0x30 { 40 } else { 300 }) {
                    v.push(flag);
                    v.push(rep);
                }
                if flag & 2 != 0 || flag & 4 != 0 {
                    let per = (flag & 2 != 0) as usize + (flag & 4 != 0) as usize;
                    v.resize(v.len() + per * (last as usize + 1).min(300), 1);
                }
                simple_cases(ctx, &v, mask, k);
                k += 1;
                for cut in [v.len().saturating_sub(1), 15, 14] {
                    if cut < v.len() {
                        simple_cases(ctx, &v[..cut], mask, k);
                        k += 1;
                    }
                }
            }
        }
    }
    ctx.count("gen.simple-hostile-runs");
    // non monotone / duplicated / maximal contour ends
    for ends in [[5u16, 2, 9], [9, 9, 9], [0xFFFF, 0, 3], [3, 0xFFFF, 0], [0, 0, 0], [3, 2, 0xFFFF], [0xFFFE, 0xFFFF, 0xFFFE]] {
        let mut v = vec![0, 3, 0, 0, 0, 0, 0, 0, 0, 0];
        for e in ends {
            v.extend_from_slice(&e.to_be_bytes());
        }
        v.extend_from_slice(&[0, 0]);
        v.extend_from_slice(&[0x37; 12]);
        for cut in (13..=v.len()).rev() {
            simple_cases(ctx, &v[..cut], mask, k);
            k += 1;
        }
    }
    ctx.count("gen.simple-hostile-ends");
    // every coordinate-decoding flag x a few repeat bytes on a 3 point glyph, whole and truncated
    for flag in (0..64u8).chain([0x77, 0xB7, 0xC8, 0xFF]) {
        for rep in [0u8, 1, 2, 255] {
            let mut v = vec![0, 1, 0, 0, 0, 0, 0, 0, 0, 0, 0, 2, 0, 0];
            v.push(flag);
            v.push(rep);
            v.extend_from_slice(&[0x31, 0x31, 1, 2, 3, 4, 5, 6, 7, 8, 9, 10, 11, 12]);
            simple_cases(ctx, &v, mask, k);
            simple_cases(ctx, &v[..v.len() - 9], mask, k + 3);
            k += 1;
        }
    }
    ctx.count("gen.simple-flag-sweep");

    // --- composite glyphs: every structural flag combination
    for combo in 0..64u16 {
        let mut f = 0u16;
        for (i, bit) in STRUCT_BITS.iter().enumerate() {
            if combo & (1 << i) != 0 {
                f |= bit;
            }
        }
        let shapes = if t { 3 } else { 1 + (combo % 2) as usize };
        for shape in 0..shapes {
            let b = match (shape + combo as usize) % 3 {
                0 => composite_glyph(&mut ctx.rng, &[f], (f & 0x100 != 0).then_some(3), false),
                1 => composite_glyph(&mut ctx.rng, &[f, f ^ 0x3], (f & 0x100 != 0).then_some(0), false),
                _ => composite_glyph(&mut ctx.rng, &[f], None, true),
            };
            for v in variants(&mut ctx.rng, &b, if t { 16 } else { 4 }) {
                ask_comp(ctx, &v);
            }
        }
        ctx.count("gen.composite-combo");
    }
    let rounds = if t { 240 } else { 36 };
    for round in 0..rounds {
        let n = 1 + ctx.rng.below(if round % 6 == 0 { 30 } else { 4 }) as usize;
        let flags: Vec<u16> = (0..n).map(|_| random_comp_flags(&mut ctx.rng)).collect();
        let instr = match round % 4 {
            0 => Some(ctx.rng.below(8) as usize),
            1 => Some(0),
            _ => None,
        };
        let b = composite_glyph(&mut ctx.rng, &flags, instr, round % 5 == 4);
        for v in variants(&mut ctx.rng, &b, if t { 16 } else { 6 }) {
            ask_comp(ctx, &v);
        }
        ctx.count("gen.composite-random");
    }
    // anchors: byte / word value classes, both interpretations
    for flags in [0x0000u16, 0x0002, 0x0001, 0x0003] {
        for a in (0..=255u8).step_by(if t { 1 } else { 5 }).chain([0x7F, 0x80, 0xFF]) {
            let mut v = vec![0xFF, 0xFF, 0, 0, 0, 0, 0, 0, 0, 0];
            v.extend_from_slice(&flags.to_be_bytes());
            v.extend_from_slice(&[0, 7]);
            if flags & 1 != 0 {
                v.extend_from_slice(&[a, 0x80, 0x7F ^ a, a]);
            } else {
                v.extend_from_slice(&[a, 255 - a]);
            }
            ask_comp(ctx, &v);
        }
    }
    ctx.count("gen.composite-anchors");

    // --- loca
    let rounds = if t { 400 } else { 56 };
    for round in 0..rounds {
        let n = ctx.rng.below(7) as usize;
        let long = round % 2 == 0;
        let mut glyf: Vec<u8> = vec![];
        let mut offs: Vec<u32> = vec![0];
        for _ in 0..n {
            let g = match ctx.rng.below(5) {
                0 => vec![],
                1 | 2 => {
                    let np = 1 + ctx.rng.below(6) as usize;
                    let nc = 1 + ctx.rng.below(2) as usize;
                    simple_glyph(&mut ctx.rng, np, nc, 0).v
                }
                3 => {
                    let f = random_comp_flags(&mut ctx.rng);
                    composite_glyph(&mut ctx.rng, &[f], None, false).v
                }
                _ => rbytes(&mut ctx.rng, 14),
            };
            glyf.extend_from_slice(&g);
            if !long && glyf.len() % 2 == 1 {
                glyf.push(0);
            }
            offs.push(glyf.len() as u32);
        }
        match (round / 2) % 8 {
            1 => offs.reverse(),
            2 => offs.push(glyf.len() as u32 + 2),
            3 if offs.len() > 2 => offs.swap(1, 2),
            4 => offs.push(if long { u32::MAX } else { 0x1FFFE }),
            _ => {}
        }
        let mut loca = B::new();
        for o in &offs {
            if long {
                loca.f32(*o);
            } else {
                loca.f16((*o / 2) as u16);
            }
        }
        if (round / 2) % 8 == 5 {
            loca.u8(ctx.rng.next() as u8);
        }
        let entries = offs.len();
        let mut idxs: Vec<usize> = (0..entries + 2).collect();
        idxs.extend([usize::MAX, usize::MAX / 2, u32::MAX as usize, u32::MAX as usize + 1]);
        let mut gids: Vec<u32> = (0..entries as u32 + 2).collect();
        gids.extend([u32::MAX, u32::MAX - 1, 0x7FFF_FFFF, 0xFFFF, 0x10000]);
        // the loca bytes' variants against the fixed glyf, and the glyf truncated against the fixed loca
        for (vi, v) in variants(&mut ctx.rng, &loca, if t { 8 } else { 3 }).iter().enumerate() {
            let flip = vi % 5 == 4;
            ask_loca(ctx, long ^ flip, v, &glyf, &idxs, &gids);
        }
        for cut in [glyf.len().saturating_sub(1), glyf.len() / 2, 0] {
            ask_loca(ctx, long, &loca.v, &glyf[..cut], &idxs, &gids);
        }
        ctx.count("gen.loca");
    }
    // exhaustive tiny locas: 0..=3 entries from a small value set around an 8 byte glyf
    for long in [false, true] {
        for n_entries in 0..=3usize {
            for pat in 0..4u32.pow(n_entries as u32) {
                for odd in [false, true] {
                    let mut loca = vec![];
                    for i in 0..n_entries {
                        let d = (pat >> (2 * i)) & 3;
                        if long {
                            loca.extend_from_slice(&[0u32, 2, 8, 9][d as usize].to_be_bytes());
                        } else {
                            loca.extend_from_slice(&[0u16, 1, 4, 5][d as usize].to_be_bytes());
                        }
                    }
                    if odd {
                        loca.push(1);
                    }
                    ask_loca(ctx, long, &loca, &[0, 0, 0, 0, 0, 0, 0, 0, 0, 0][..8], &[0, 1, 2, 3, 4], &[0, 1, 2, 3, u32::MAX]);
                }
            }
        }
    }
    ctx.count("gen.loca-tiny");
}
