//! group `glyf.model` — correspondence of the real hand-written functions of
//! glyf.rs / loca.rs (SimpleGlyph points, PointIter, resolve_coords_len, CompositeGlyph components / instructions, Anchor / Transform, Loca::get_raw / get_glyf / all_offsets_are_ascending)
//! with Model/HandGlyf.lean (`hg.*` driver commands), on generator-based inputs with truncations and
//! boundary fields; plus the group's own byte-level oracles.
use super::*;

pub fn run(_ctx: &mut Ctx) {}
