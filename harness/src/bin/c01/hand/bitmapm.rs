//! group `bitmap.model` — correspondence of the real hand-written functions of
//! bitmap.rs / cblc.rs / ebdt.rs / sbix.rs (BitmapSize::location, index subtable formats 1-5, bitmap_data, glyph_data)
//! with Model/HandBitmap.lean (`hb.*` driver commands), on generator-based inputs with truncations and
//! boundary fields; plus the group's own byte-level oracles.
//!
//!   hb.list  `BitmapSize::index_subtable_list` (+ `IndexSubtableList::index_subtable_records`)
//!   hb.sub   `IndexSubtable::read_with_args` + `index_format / image_format / image_data_offset /
//!            min_byte_range / offset_data`
//!   hb.loc   `BitmapSize::location` for boundary-dense glyph ids (+ `BitmapLocation::is_empty`)
//!   hb.data  `Cbdt::data` / `Ebdt::data` (`bitmap_data`, `read_small_metrics`, `read_big_metrics`)
//!   hb.sbix  `Strike::read` + `Strike::glyph_data`
//! The `BitmapSize` record is built from 48 bytes, so its fields take values no well-formed table holds;
//! the offset data is the index subtable list with `lead` bytes in front.  Every call is classified with the
//! real accessors (`ctx.count`), which shows that every branch of the modelled functions is reached.
use super::*;
use font_types::{GlyphId, GlyphId16};
use read_fonts::tables::bitmap::{BigGlyphMetrics, BitmapContent, BitmapData, BitmapDataFormat, BitmapLocation, BitmapMetrics, BitmapSize, IndexSubtable};
use read_fonts::tables::cbdt::Cbdt;
use read_fonts::tables::ebdt::Ebdt;
use read_fonts::tables::sbix::Strike;
use read_fonts::{FontData, FontRead, FontReadWithArgs, MinByteRange, ReadError};

fn err_str(e: &ReadError) -> String {
    match e {
        ReadError::OutOfBounds => "e:OutOfBounds".into(),
        ReadError::InvalidArrayLen => "e:InvalidArrayLen".into(),
        ReadError::NullOffset => "e:NullOffset".into(),
        ReadError::InvalidFormat(f) => format!("e:InvalidFormat({f})"),
        ReadError::InvalidCollectionIndex(g) => format!("e:InvalidCollectionIndex({g})"),
        ReadError::MalformedData("expected metrics from location table") => "e:Malformed:metrics".into(),
        ReadError::MalformedData("unexpected bitmap data format") => "e:Malformed:format".into(),
        other => format!("e:?{other:?}"),
    }
}

fn err_kind(e: &ReadError) -> &'static str {
    match e {
        ReadError::OutOfBounds => "OutOfBounds",
        ReadError::InvalidArrayLen => "InvalidArrayLen",
        ReadError::NullOffset => "NullOffset",
        ReadError::InvalidFormat(_) => "InvalidFormat",
        ReadError::InvalidCollectionIndex(_) => "InvalidCollectionIndex",
        ReadError::MalformedData(_) => "MalformedData",
        _ => "other",
    }
}

fn big_metrics(m: &[u8; 8]) -> BigGlyphMetrics {
    FontData::new(m).read_array::<BigGlyphMetrics>(0..8).unwrap()[0]
}

fn big_bytes(m: &BigGlyphMetrics) -> [u8; 8] {
    [m.height(), m.width(), m.hori_bearing_x() as u8, m.hori_bearing_y() as u8, m.hori_advance(), m.vert_bearing_x() as u8, m.vert_bearing_y() as u8, m.vert_advance()]
}

/// the 48 bytes of a `BitmapSize` record
fn size_rec(p: &SizeP) -> BitmapSize {
    let mut v = [0u8; 48];
    v[0..4].copy_from_slice(&p.off.to_be_bytes());
    v[4..8].copy_from_slice(&p.size.to_be_bytes());
    v[8..12].copy_from_slice(&p.n.to_be_bytes());
    v[40..42].copy_from_slice(&p.start.to_be_bytes());
    v[42..44].copy_from_slice(&p.end.to_be_bytes());
    v[44] = 12;
    v[45] = 12;
    v[46] = p.bd;
    v[47] = 1;
    FontData::new(&v).read_array::<BitmapSize>(0..48).unwrap()[0]
}

#[derive(Clone, Copy, Debug, PartialEq)]
struct SizeP {
    off: u32,
    size: u32,
    n: u32,
    start: u16,
    end: u16,
    bd: u8,
}

/// one guarded call: progress for the watchdog, no-panic oracle, correspondence case
fn ask(ctx: &mut Ctx, req: String, f: impl FnOnce() -> String) {
    PROGRESS.fetch_add(1, Ordering::Relaxed);
    match catch(f) {
        Ok(s) => {
            ctx.oracle("no-panic", true, String::new, String::new);
            ctx.case(req, s)
        }
        Err(m) => ctx.oracle("no-panic", false, || req.clone(), || m.clone()),
    }
}

/// byte variants of a generated input: itself, every prefix, every registered field at boundary values,
/// random flips
fn variants(rng: &mut Rng, b: &B, flips: usize) -> Vec<Vec<u8>> {
    let base = &b.v;
    let n = base.len();
    let mut out = vec![base.clone()];
    for c in 0..n {
        out.push(base[..c].to_vec());
    }
    for (p, w) in &b.fields {
        let (p, w) = (*p, *w as usize);
        if p + w > n {
            continue;
        }
        let max = (1u64 << (8 * w as u32)) - 1;
        let mut cur = 0u64;
        for i in 0..w {
            cur = (cur << 8) | base[p + i] as u64;
        }
        let rest = (n - p) as u64;
        let mut vals = vec![0, 1, 2, max - 1, max, max / 2 + 1, n as u64, n as u64 + 1, rest, rest / 2, cur.wrapping_add(1), cur.wrapping_sub(1), cur.wrapping_mul(2), cur.wrapping_add(2)];
        vals.iter_mut().for_each(|v| *v &= max);
        vals.sort();
        vals.dedup();
        for v in vals {
            if v == cur {
                continue;
            }
            let mut m = base.clone();
            for i in 0..w {
                m[p + i] = (v >> (8 * (w - 1 - i))) as u8;
            }
            out.push(m);
        }
    }
    for _ in 0..flips {
        if n == 0 {
            break;
        }
        let mut m = base.clone();
        for _ in 0..1 + rng.below(3) {
            let p = rng.below(n as u64) as usize;
            m[p] = match rng.below(4) {
                0 => 0,
                1 => 0xFF,
                2 => m[p] ^ (1 << rng.below(8)),
                _ => rng.next() as u8,
            };
        }
        out.push(m);
    }
    out
}

fn gid_edges(vals: &[u32]) -> Vec<u32> {
    let mut v: Vec<u64> = vec![0, 1, 0xFFFE, 0xFFFF, 0x10000, 0xFFFF_FFFF];
    for x in vals {
        for d in [-1i64, 0, 1] {
            let y = *x as i64 + d;
            if (0..=0xFFFF_FFFFi64).contains(&y) {
                v.push(y as u64);
            }
        }
    }
    v.sort();
    v.dedup();
    v.into_iter().map(|x| x as u32).collect()
}

// ------------------------------------------------------------------------------------------------
// hb.loc / hb.list

struct LocCase {
    od: B,
    p: SizeP,
    gids: Vec<u32>,
}

/// an index subtable list (`lead` bytes in front) with 1..3 records; `style` picks the index formats and the
/// hostile shape
fn loc_case(rng: &mut Rng, style: usize) -> LocCase {
    let lead = rng.below(5) as usize;
    let n_sub = 1 + (style / 5 + rng.below(2) as usize) % 3;
    let hostile = style / 5 % 8;
    let mut list = B::new();
    list.zeros(8 * n_sub);
    let mut cur = rng.below(12) as u16;
    let mut gids: Vec<u32> = vec![];
    let mut range = (u16::MAX, 0u16);
    for k in 0..n_sub {
        let first = cur + rng.below(2) as u16;
        let count = 1 + rng.below(4) as u16;
        let last = first + count - 1;
        cur = last + 1;
        range = (range.0.min(first), range.1.max(last));
        gids.extend([first as u32, last as u32]);
        let fmt = 1 + ((style + k * 2) % 5) as u16;
        let at = list.len();
        list.set16(8 * k, first);
        list.set16(8 * k + 2, last);
        list.set32(8 * k + 4, at as u32);
        list.mark(8 * k, 2);
        list.mark(8 * k + 2, 2);
        list.mark(8 * k + 4, 4);
        let imgf = *rng.pick(&[1u16, 2, 5, 6, 7, 8, 9, 17, 18, 19]);
        let ido = *rng.pick(&[0u32, 4, 100, 0xFFFF_FFFF, 0x8000_0000]);
        let mut st = B::new();
        st.f16(fmt).f16(imgf).f32(ido);
        match fmt {
            1 | 3 => {
                let mut off = rng.below(5) as u32;
                // `count + 1` offsets; hostile 1: one offset fewer (the next subtable's bytes are read instead),
                // hostile 2: a decreasing pair
                let entries = if hostile == 1 { count } else { count + 1 };
                for i in 0..entries {
                    if fmt == 1 {
                        st.f32(if hostile == 3 && i == 1 { 0xFFFF_FFFF } else { off });
                    } else {
                        st.f16(if hostile == 3 && i == 1 { 0xFFFF } else { off as u16 });
                    }
                    if hostile == 2 && i == 0 {
                        off = off.saturating_sub(1 + rng.below(3) as u32);
                    } else {
                        off += rng.below(9) as u32;
                    }
                }
            }
            2 => {
                st.f32(*rng.pick(&[0u32, 1, 9, 300, 0xFFFF_FFFF])).bytes(&rng.bytes(8));
            }
            4 => {
                let mut glyphs: Vec<u16> = (first..=last).filter(|g| *g == first || rng.chance(2, 3)).collect();
                if hostile == 4 {
                    glyphs.reverse();
                }
                if hostile == 5 && glyphs.len() > 1 {
                    glyphs[1] = glyphs[0];
                }
                if hostile == 6 {
                    glyphs.clear();
                }
                st.f32(glyphs.len() as u32);
                let mut off = rng.below(5) as u16;
                for g in &glyphs {
                    st.f16(*g).f16(off);
                    gids.push(*g as u32);
                    if hostile == 2 {
                        off = off.saturating_sub(1);
                    } else {
                        off += rng.below(9) as u16;
                    }
                }
                // the extra pair that carries the end offset; its glyph id takes part in the search
                let sentinel = *rng.pick(&[0u16, 0xFFFF, last, last + 1]);
                if hostile != 1 {
                    st.f16(sentinel).f16(off);
                }
            }
            _ => {
                st.f32(*rng.pick(&[0u32, 1, 9, 300, 0xFFFF_FFFF])).bytes(&rng.bytes(8));
                let mut glyphs: Vec<u16> = (first..=last).filter(|g| *g == first || rng.chance(2, 3)).collect();
                if hostile == 4 {
                    glyphs.reverse();
                }
                if hostile == 5 && glyphs.len() > 1 {
                    glyphs[1] = glyphs[0];
                }
                if hostile == 6 {
                    glyphs.clear();
                }
                st.f32(glyphs.len() as u32);
                for g in &glyphs {
                    st.f16(*g);
                    gids.push(*g as u32);
                }
            }
        }
        list.append(&st);
    }
    // a few bytes behind the last subtable (arrays one entry short read into them)
    list.bytes(&rbytes(rng, 6));
    if hostile == 7 && n_sub >= 2 {
        // the second record repeats the range of the first (never reached), the first is a null offset now and then
        let (f, l) = (u16::from_be_bytes([list.v[0], list.v[1]]), u16::from_be_bytes([list.v[2], list.v[3]]));
        list.set16(8, f);
        list.set16(10, l);
        if rng.chance(1, 2) {
            list.set32(4, 0);
        }
    }
    let mut od = B::new();
    od.bytes(&rng.bytes(lead));
    od.append(&list);
    let p = SizeP { off: lead as u32, size: list.len() as u32, n: n_sub as u32, start: range.0, end: range.1, bd: *rng.pick(&[1u8, 2, 4, 8, 32, 0, 255]) };
    gids.extend([p.start as u32, p.end as u32]);
    LocCase { od, p, gids }
}

fn loc_str(l: &BitmapLocation) -> String {
    let m = match &l.metrics {
        Some(m) => hex(&big_bytes(m)),
        None => "none".into(),
    };
    format!("ok:{}:{}:{}:{}:{}:{}", l.format, l.data_offset, l.data_size, l.bit_depth, m, l.is_empty() as u8)
}

/// which branch of `location` a call takes, found with the real accessors (a classifier for the branch
/// distribution; its Ok / Err verdict is compared with the real result by `loc.classifier-agrees`)
fn classify_loc(size: &BitmapSize, od: FontData, gid: u32) -> (String, bool) {
    let g = GlyphId::new(gid);
    if !(size.start_glyph_index()..=size.end_glyph_index()).contains(&g) {
        return ("size-range".into(), false);
    }
    let list = match size.index_subtable_list(od) {
        Ok(l) => l,
        Err(e) => return (format!("list-err.{}", err_kind(&e)), false),
    };
    for (k, rec) in list.index_subtable_records().iter().enumerate() {
        let k = k.min(2);
        let st = match rec.index_subtable(list.offset_data()) {
            Ok(s) => s,
            Err(e) => return (format!("sub-err.{}", err_kind(&e)), false),
        };
        if !(rec.first_glyph_index()..=rec.last_glyph_index()).contains(&g) {
            continue;
        }
        let ix = (gid - rec.first_glyph_index().to_u32()) as usize;
        let two = |a: Option<u64>, b: Option<u64>, f: u16| -> (String, bool) {
            match (a, b) {
                (None, _) => (format!("f{f}.get0-none"), false),
                (_, None) => (format!("f{f}.get1-none"), false),
                (Some(a), Some(b)) if b < a => (format!("f{f}.inverted"), false),
                (Some(a), Some(b)) if b == a => (format!("f{f}.ok-empty.rec{k}"), true),
                _ => (format!("f{f}.ok.rec{k}"), true),
            }
        };
        return match &st {
            IndexSubtable::Format1(t) => two(t.sbit_offsets().get(ix).map(|x| x.get() as u64), t.sbit_offsets().get(ix + 1).map(|x| x.get() as u64), 1),
            IndexSubtable::Format3(t) => two(t.sbit_offsets().get(ix).map(|x| x.get() as u64), t.sbit_offsets().get(ix + 1).map(|x| x.get() as u64), 3),
            IndexSubtable::Format2(_) => (format!("f2.ok.rec{k}"), true),
            IndexSubtable::Format4(t) => {
                let a = t.glyph_array();
                // the same std search as the real code (classification only)
                match a.binary_search_by(|x| x.glyph_id().to_u32().cmp(&gid)) {
                    Err(_) if a.iter().any(|x| x.glyph_id().to_u32() == gid) => ("f4.miss-present".into(), false),
                    Err(_) => ("f4.miss".into(), false),
                    Ok(i) => two(Some(a[i].sbit_offset() as u64), a.get(i + 1).map(|x| x.sbit_offset() as u64), 4),
                }
            }
            IndexSubtable::Format5(t) => {
                let a = t.glyph_array();
                match a.binary_search_by(|x| x.get().to_u32().cmp(&gid)) {
                    Err(_) if a.iter().any(|x| x.get().to_u32() == gid) => ("f5.miss-present".into(), false),
                    Err(_) => ("f5.miss".into(), false),
                    Ok(_) => (format!("f5.ok.rec{k}"), true),
                }
            }
        };
    }
    ("exhausted".into(), false)
}

fn run_loc(ctx: &mut Ctx, od: &[u8], p: &SizeP, gids: &[u32]) {
    let size = size_rec(p);
    let req = format!("hb.loc {} {} {} {} {} {} {} {}", p.off, p.size, p.n, p.start, p.end, p.bd, hex(od), join(gids));
    let mut tags: Vec<String> = vec![];
    let mut bad: Vec<String> = vec![];
    ask(ctx, req.clone(), || {
        let fd = FontData::new(od);
        let mut out = vec![];
        for gid in gids {
            let r = size.location(fd, GlyphId::new(*gid));
            let (tag, ok) = classify_loc(&size, fd, *gid);
            match &r {
                Ok(l) => {
                    let g = *gid;
                    // model independent facts about an Ok location
                    if !(p.start as u32 <= g && g <= p.end as u32) {
                        bad.push(format!("location({g}) Ok outside the size's range"));
                    }
                    if l.bit_depth != p.bd || l.is_empty() != (l.data_size == 0) {
                        bad.push(format!("location({g}): bit depth / is_empty"));
                    }
                    // every offset / size a font can produce stays far below usize::MAX
                    if l.data_offset as u128 + l.data_size as u128 >= 1u128 << 49 {
                        bad.push(format!("location({g}): offset {} + size {} beyond 2^49", l.data_offset, l.data_size));
                    }
                    if !ok {
                        bad.push(format!("location({g}) Ok, classifier {tag}"));
                    }
                    tags.push(tag);
                    out.push(loc_str(l));
                }
                Err(e) => {
                    if ok {
                        bad.push(format!("location({gid}) {e:?}, classifier {tag}"));
                    }
                    tags.push(tag);
                    out.push(err_str(e));
                }
            }
        }
        join(&out)
    });
    for t in tags {
        ctx.count(&format!("loc.{t}"));
    }
    ctx.oracle("loc.classifier-agrees", bad.is_empty(), || req.clone(), || bad.join("; "));
}

fn run_list(ctx: &mut Ctx, od: &[u8], p: &SizeP) {
    let size = size_rec(p);
    let req = format!("hb.list {} {} {} {}", p.off, p.size, p.n, hex(od));
    let mut tag = String::new();
    let mut inside = true;
    ask(ctx, req.clone(), || match size.index_subtable_list(FontData::new(od)) {
        Err(e) => {
            tag = format!("list.{}", err_kind(&e));
            err_str(&e)
        }
        Ok(l) => {
            tag = "list.ok".into();
            let recs = l.index_subtable_records();
            // the list is the slice [off, off + size) of the data and holds its n records
            inside = p.off as usize + p.size as usize <= od.len() && l.offset_data().len() == p.size as usize && recs.len() == p.n as usize && 8 * recs.len() <= p.size as usize;
            let rs: Vec<String> = recs.iter().map(|r| format!("{},{},{}", r.first_glyph_index().to_u32(), r.last_glyph_index().to_u32(), r.index_subtable_offset().to_u32())).collect();
            format!("ok:{}:{}", l.offset_data().len(), if rs.is_empty() { "-".to_string() } else { rs.join(" ") })
        }
    });
    ctx.count(&tag);
    ctx.oracle("list.inside-data", inside, || req.clone(), || "index_subtable_list Ok but the list / its records are not inside the data".into());
}

fn size_variants(p: &SizeP, len: usize) -> Vec<SizeP> {
    let mut v = vec![];
    let len = len as u32;
    for off in [0, p.off.wrapping_sub(1), p.off + 1, len.saturating_sub(p.size), len.saturating_sub(p.size) + 1, len, len + 1, u32::MAX, u32::MAX - p.size, u32::MAX - p.size + 1] {
        v.push(SizeP { off, ..*p });
    }
    for size in [0, 1, 8 * p.n - 1, 8 * p.n, 8 * p.n + 1, p.size - 1, p.size + 1, len - p.off, len - p.off + 1, u32::MAX, u32::MAX - p.off] {
        v.push(SizeP { size, ..*p });
    }
    for n in [0, 1, p.n - 1, p.n + 1, p.size / 8, p.size / 8 + 1, 0x2000_0000, 0x2000_0001, u32::MAX] {
        v.push(SizeP { n, ..*p });
    }
    for (start, end) in [(0, 0xFFFF), (p.end, p.start), (p.start + 1, p.end), (p.start, p.end.wrapping_sub(1)), (p.start, p.start), (p.end, p.end), (0, 0), (0xFFFF, 0xFFFF)] {
        v.push(SizeP { start, end, ..*p });
    }
    v.retain(|q| q != p);
    v.dedup();
    v
}

// ------------------------------------------------------------------------------------------------
// hb.sub

/// [subtable]; returns (bytes, last, first)
fn sub_case(rng: &mut Rng, fmt: u16) -> (B, u16, u16) {
    let first = *rng.pick(&[0u16, 3, 7, 0xFFF0]);
    let n = rng.below(5) as u16;
    let last = first + n;
    let mut b = B::new();
    b.f16(fmt).f16(*rng.pick(&[1u16, 5, 17, 19])).f32(rng.below(64) as u32);
    match fmt {
        1 => {
            for i in 0..n as u32 + 2 {
                b.f32(i * 7);
            }
        }
        3 => {
            for i in 0..n + 2 {
                b.f16(i * 7);
            }
        }
        2 => {
            b.f32(9).bytes(&rng.bytes(8));
        }
        4 => {
            b.f32(n as u32);
            for i in 0..=n {
                b.f16(first + i).f16(i * 5);
            }
        }
        5 => {
            b.f32(9).bytes(&rng.bytes(8)).f32(n as u32);
            for i in 0..n {
                b.f16(first + i);
            }
        }
        _ => {
            b.bytes(&rng.bytes(12));
        }
    }
    b.bytes(&rbytes(rng, 3));
    (b, last, first)
}

fn run_sub(ctx: &mut Ctx, sd: &[u8], last: u16, first: u16) {
    let req = format!("hb.sub {} {} {}", last, first, hex(sd));
    let mut tag = String::new();
    let mut sized = true;
    ask(ctx, req.clone(), || {
        let r = IndexSubtable::read_with_args(FontData::new(sd), &(GlyphId16::new(last), GlyphId16::new(first)));
        let f = if sd.len() >= 2 { u16::from_be_bytes([sd[0], sd[1]]) } else { 0 };
        match &r {
            Err(e) => {
                let why = match (e, f) {
                    (ReadError::OutOfBounds, _) if sd.len() < 2 => "no-format",
                    (ReadError::OutOfBounds, 4) if sd.len() < 12 => "no-count",
                    (ReadError::OutOfBounds, 5) if sd.len() < 24 => "no-count",
                    (ReadError::OutOfBounds, _) => "array-beyond",
                    _ => err_kind(e),
                };
                tag = format!("sub.f{}.{}", if (1..=5).contains(&f) { f } else { 0 }, why);
                err_str(e)
            }
            Ok(st) => {
                tag = format!("sub.f{f}.ok");
                let (v, count, need) = match st {
                    IndexSubtable::Format1(t) => (1, t.sbit_offsets().len(), 8 + 4 * t.sbit_offsets().len()),
                    IndexSubtable::Format2(t) => (2, t.big_metrics().len(), 20),
                    IndexSubtable::Format3(t) => (3, t.sbit_offsets().len(), 8 + 2 * t.sbit_offsets().len()),
                    IndexSubtable::Format4(t) => (4, t.glyph_array().len(), 12 + 4 * t.glyph_array().len()),
                    IndexSubtable::Format5(t) => (5, t.glyph_array().len(), 24 + 2 * t.glyph_array().len()),
                };
                // the arrays the reader sized lie inside the data
                sized = need <= sd.len() && st.min_byte_range().end == need && v == f;
                format!("ok:{}:{}:{}:{}:{}:{}:{}", v, count, st.index_format(), st.image_format(), st.image_data_offset(), st.min_byte_range().end, st.offset_data().len())
            }
        }
    });
    ctx.count(&tag);
    ctx.oracle("sub.arrays-inside-data", sized, || req.clone(), || "IndexSubtable read Ok but its array is not inside the data".into());
}

// ------------------------------------------------------------------------------------------------
// hb.data

fn dims(rng: &mut Rng) -> (u8, u8) {
    match rng.below(8) {
        0 => (0, rng.below(4) as u8),
        1 => (rng.below(4) as u8, 0),
        2 => (1, 1),
        _ => (1 + rng.below(7) as u8, 1 + rng.below(9) as u8),
    }
}

/// image data in EBDT / CBDT format `fmt` (for formats 5 and 19 the metrics come from `big`)
fn image(rng: &mut Rng, fmt: u16, bd: u8, big: (u8, u8), payload: usize) -> B {
    let mut b = B::new();
    let (h, w) = if fmt == 5 || fmt == 19 { big } else { dims(rng) };
    let bits = (w as usize * bd as usize * h as usize).div_ceil(8);
    let rows = (w as usize * bd as usize).div_ceil(8) * h as usize;
    let small = |b: &mut B, rng: &mut Rng| {
        b.f8(h).f8(w).bytes(&rng.bytes(3));
    };
    let bigm = |b: &mut B, rng: &mut Rng| {
        b.f8(h).f8(w).bytes(&rng.bytes(6));
    };
    match fmt {
        1 => {
            small(&mut b, rng);
            b.bytes(&rng.bytes(rows));
        }
        2 => {
            small(&mut b, rng);
            b.bytes(&rng.bytes(bits));
        }
        5 => {
            b.bytes(&rng.bytes(bits));
        }
        6 => {
            bigm(&mut b, rng);
            b.bytes(&rng.bytes(rows));
        }
        7 => {
            bigm(&mut b, rng);
            b.bytes(&rng.bytes(bits));
        }
        8 => {
            small(&mut b, rng);
            let n = rng.below(4) as usize;
            b.u8(0).f16(n as u16).bytes(&rng.bytes(4 * n));
        }
        9 => {
            bigm(&mut b, rng);
            let n = rng.below(4) as usize;
            b.f16(n as u16).bytes(&rng.bytes(4 * n));
        }
        17 => {
            small(&mut b, rng);
            b.f32(payload as u32).bytes(&rng.bytes(payload));
        }
        18 => {
            bigm(&mut b, rng);
            b.f32(payload as u32).bytes(&rng.bytes(payload));
        }
        19 => {
            b.f32(payload as u32).bytes(&rng.bytes(payload));
        }
        _ => {
            b.bytes(&rng.bytes(12));
        }
    }
    b
}

#[derive(Clone)]
struct LocP {
    color: bool,
    fmt: u16,
    off: usize,
    size: usize,
    bd: u8,
    metrics: Option<[u8; 8]>,
}

fn header_len(fmt: u16) -> usize {
    match fmt {
        1 | 2 => 5,
        6 | 7 => 8,
        8 => 8,
        9 => 10,
        17 => 9,
        18 => 12,
        19 => 4,
        _ => 0,
    }
}

fn run_data(ctx: &mut Ctx, dat: &[u8], l: &LocP) {
    let mh = match &l.metrics {
        Some(m) => hex(m),
        None => "-".into(),
    };
    let req = format!("hb.data {} {} {} {} {} {} {}", l.color as u8, l.fmt, l.off, l.size, l.bd, mh, hex(dat));
    let loc = BitmapLocation { format: l.fmt, data_offset: l.off, data_size: l.size, bit_depth: l.bd, metrics: l.metrics.as_ref().map(big_metrics) };
    // the table itself must read (4 bytes of version), otherwise `data` is not reachable
    let readable = if l.color { Cbdt::read(FontData::new(dat)).is_ok() } else { Ebdt::read(FontData::new(dat)).is_ok() };
    if !readable {
        ctx.count("data.table-unreadable");
        return;
    }
    let mut tag = String::new();
    let mut inside: Option<String> = None;
    ask(ctx, req.clone(), || {
        let r: Result<BitmapData, ReadError> = if l.color { Cbdt::read(FontData::new(dat)).unwrap().data(&loc) } else { Ebdt::read(FontData::new(dat)).unwrap().data(&loc) };
        let known = matches!(l.fmt, 1 | 2 | 5 | 6 | 7 | 8 | 9) || (matches!(l.fmt, 17 | 18 | 19) && l.color);
        let fk = if known { format!("f{}", l.fmt) } else if matches!(l.fmt, 17 | 18 | 19) { "mono-png".to_string() } else { "other".to_string() };
        match &r {
            Err(e) => {
                let why = match e {
                    ReadError::OutOfBounds => match l.off.checked_add(l.size) {
                        None => "add-overflow",
                        Some(end) if end > dat.len() => "slice",
                        _ if l.size < header_len(l.fmt) => "header",
                        _ => "content",
                    },
                    _ => err_kind(e),
                };
                tag = format!("data.{fk}.{why}");
                err_str(e)
            }
            Ok(d) => {
                tag = format!("data.{fk}.ok");
                let (s, mb) = match &d.metrics {
                    BitmapMetrics::Small(m) => ("S", vec![m.height(), m.width(), m.bearing_x() as u8, m.bearing_y() as u8, m.advance()]),
                    BitmapMetrics::Big(m) => ("B", big_bytes(m).to_vec()),
                };
                let base = dat.as_ptr() as usize;
                let (kind, count, start, elem) = match &d.content {
                    BitmapContent::Data(f, bytes) => (
                        match f {
                            BitmapDataFormat::BitAligned => "bit",
                            BitmapDataFormat::ByteAligned => "byte",
                            BitmapDataFormat::Png => "png",
                        },
                        bytes.len(),
                        (bytes.as_ptr() as usize).wrapping_sub(base),
                        1,
                    ),
                    BitmapContent::Composite(c) => ("comp", c.len(), (c.as_ptr() as usize).wrapping_sub(base), 4),
                };
                if count > 0 {
                    // the content is inside the located image, which is inside the table
                    let ok = l.off <= start && start + count * elem <= l.off + l.size && l.off + l.size <= dat.len();
                    if !ok {
                        inside = Some(format!("content {start}..{} outside image {}..{} / data {}", start + count * elem, l.off, l.off + l.size, dat.len()));
                    }
                } else {
                    tag.push_str("-empty");
                }
                format!("ok:{}:{}:{}:{}:{}", s, hex(&mb), kind, count, if count == 0 { "-".to_string() } else { start.to_string() })
            }
        }
    });
    ctx.count(&tag);
    ctx.oracle("data.content-inside-image", inside.is_none(), || req.clone(), || inside.clone().unwrap_or_default());
}

fn data_round(ctx: &mut Ctx, fmt: u16, color: bool) {
    let bd = *ctx.rng.pick(&[1u8, 1, 2, 4, 8, 32, 3]);
    let big = dims(&mut ctx.rng);
    let lead = ctx.rng.below(4) as usize;
    let payload = ctx.rng.below(7) as usize;
    let img = image(&mut ctx.rng, fmt, bd, big, payload);
    let mut b = B::new();
    b.u16(if color { 3 } else { 2 }).u16(0).bytes(&ctx.rng.bytes(lead));
    let off = b.len();
    b.append(&img);
    let size = img.len();
    b.bytes(&rbytes(&mut ctx.rng, 4));
    let mut mb = [0u8; 8];
    mb.copy_from_slice(&ctx.rng.bytes(8));
    mb[0] = big.0;
    mb[1] = big.1;
    let l = LocP { color, fmt, off, size, bd, metrics: Some(mb) };
    let flips = if ctx.thorough { 24 } else { 6 };
    for v in variants(&mut ctx.rng, &b, flips) {
        run_data(ctx, &v, &l);
        if v.len() < b.len() && v.len() >= off {
            // truncated: the image is what is left
            run_data(ctx, &v, &LocP { size: v.len() - off, ..l.clone() });
        }
    }
    // the location's own fields
    let n = b.len();
    let dat = &b.v;
    let mut sizes = vec![0, 1, size.saturating_sub(1), size + 1, n - off, n - off + 1, header_len(fmt), header_len(fmt).saturating_sub(1), header_len(fmt) + 1, u32::MAX as usize, usize::MAX, usize::MAX - off, usize::MAX - off + 1];
    sizes.sort();
    sizes.dedup();
    for s in sizes {
        run_data(ctx, dat, &LocP { size: s, ..l.clone() });
    }
    for o in [0, off - 1, off + 1, n - size, n - size + 1, n, n + 1, u32::MAX as usize, usize::MAX, usize::MAX - size, (usize::MAX - size).wrapping_add(1)] {
        run_data(ctx, dat, &LocP { off: o, ..l.clone() });
    }
    for d in [0u8, 1, 2, 3, 4, 7, 8, 9, 16, 32, 255] {
        run_data(ctx, dat, &LocP { bd: d, ..l.clone() });
    }
    run_data(ctx, dat, &LocP { metrics: None, ..l.clone() });
    run_data(ctx, dat, &LocP { color: !color, ..l.clone() });
    for f in [0u16, 1, 2, 3, 4, 5, 6, 7, 8, 9, 10, 16, 17, 18, 19, 20, 0xFFFF] {
        run_data(ctx, dat, &LocP { fmt: f, ..l.clone() });
        run_data(ctx, dat, &LocP { fmt: f, metrics: None, ..l.clone() });
    }
}

/// u8 maxima of width / height / bit depth: exactly enough data, one byte less, one more
fn data_maxima(ctx: &mut Ctx) {
    for fmt in [1u16, 2, 5, 6, 7] {
        for (h, w, bd) in [(255u8, 255u8, 1u8), (255, 255, 255), (255, 1, 255), (1, 255, 255), (255, 255, 0), (0, 255, 255), (3, 3, 3), (1, 1, 1), (1, 9, 1), (7, 3, 1), (2, 5, 3), (255, 3, 3)] {
            let bits = (w as usize * bd as usize * h as usize).div_ceil(8);
            let rows = (w as usize * bd as usize).div_ceil(8) * h as usize;
            let need = if matches!(fmt, 1 | 6) { rows } else { bits };
            let head = header_len(fmt);
            for avail in [need, need.saturating_sub(1), need + 1] {
                // the full 255 x 255 x 255 image (2 MB) is only asked for with too little data
                let avail = if avail > 9000 { 64 } else { avail };
                let mut v = vec![0u8, 3, 0, 0];
                v.extend_from_slice(&[h, w, 0, 0, 0, 0, 0, 0][..head]);
                v.resize(v.len() + avail, 0x55);
                let l = LocP { color: true, fmt, off: 4, size: head + avail, bd, metrics: Some([h, w, 0, 0, 0, 0, 0, 0]) };
                run_data(ctx, &v, &l);
            }
        }
    }
    ctx.count("data.maxima");
}

// ------------------------------------------------------------------------------------------------
// hb.sbix

/// one strike with `ng` glyphs
fn strike_case(rng: &mut Rng, style: u64) -> (B, u16) {
    let ng = match style % 4 {
        0 => 0,
        1 => 1,
        _ => 1 + rng.below(6) as u16,
    };
    let mut st = B::new();
    st.u16(20).u16(72);
    let table = st.len();
    for _ in 0..=ng {
        st.f32(0);
    }
    for g in 0..ng as usize {
        let start = st.len();
        st.set32(table + 4 * g, start as u32);
        match rng.below(6) {
            0 => {}
            1 => {
                // shorter than the 8 byte header
                st.bytes(&rbytes(rng, 8));
            }
            _ => {
                st.i16(rng.range(-9, 9) as i16).i16(rng.range(-9, 9) as i16).tag(b"png ").bytes(&rbytes(rng, 6));
            }
        }
    }
    let end = st.len();
    st.set32(table + 4 * ng as usize, end as u32);
    (st, ng)
}

fn run_sbix(ctx: &mut Ctx, sd: &[u8], ng: u16, gids: &[u32]) {
    let req = format!("hb.sbix {} {} {}", ng, hex(sd), join(gids));
    let mut tags: Vec<String> = vec![];
    let mut bad: Vec<String> = vec![];
    ask(ctx, req.clone(), || match Strike::read(FontData::new(sd), ng) {
        Err(e) => {
            tags.push("sbix.strike-err".into());
            err_str(&e)
        }
        Ok(st) => {
            let offs = st.glyph_data_offsets();
            if offs.len() != ng as usize + 1 || 4 + 4 * offs.len() > sd.len() {
                bad.push(format!("{} offsets for {ng} glyphs in {} bytes", offs.len(), sd.len()));
            }
            let mut out = vec![];
            for gid in gids {
                let r = st.glyph_data(GlyphId::new(*gid));
                let (a, b) = (offs.get(*gid as usize).map(|x| x.get() as usize), offs.get(*gid as usize + 1).map(|x| x.get() as usize));
                tags.push(
                    match (&r, a, b) {
                        (Ok(None), _, _) => "sbix.empty",
                        (Ok(Some(_)), _, _) => "sbix.ok",
                        (Err(_), None, _) => "sbix.get0-none",
                        (Err(_), _, None) => "sbix.get1-none",
                        (Err(_), Some(a), Some(b)) if a > b => "sbix.inverted",
                        (Err(_), Some(_), Some(b)) if b > sd.len() => "sbix.beyond",
                        _ => "sbix.short-header",
                    }
                    .into(),
                );
                out.push(match &r {
                    Err(e) => err_str(e),
                    Ok(None) => "none".into(),
                    Ok(Some(g)) => {
                        let s = (g.offset_data().as_bytes().as_ptr() as usize).wrapping_sub(sd.as_ptr() as usize);
                        let e = s + g.offset_data().len();
                        // start < end <= len, a whole header
                        if !(s < e && e <= sd.len() && e - s >= 8 && Some(s) == a && Some(e) == b) {
                            bad.push(format!("glyph_data({gid}) = {s}..{e} of {} (offsets {a:?} {b:?})", sd.len()));
                        }
                        format!("ok:{}:{}:{}:{}:{}:{}", s, e, g.origin_offset_x() as u16, g.origin_offset_y() as u16, u32::from_be_bytes(g.graphic_type().to_be_bytes()), g.data().len())
                    }
                });
            }
            join(&out)
        }
    });
    for t in tags {
        ctx.count(&t);
    }
    ctx.oracle("sbix.range-inside-strike", bad.is_empty(), || req.clone(), || bad.join("; "));
}

pub fn run(ctx: &mut Ctx) {
    let t = ctx.thorough;
    let flips = if t { 40 } else { 8 };
    // --- BitmapSize::location / index_subtable_list
    let rounds = if t { 120 } else { 20 };
    for round in 0..rounds {
        let c = loc_case(&mut ctx.rng, round);
        let gids = gid_edges(&c.gids);
        let p = c.p;
        ctx.count(&format!("loc.bases.records{}", p.n));
        for v in variants(&mut ctx.rng, &c.od, flips) {
            run_loc(ctx, &v, &p, &gids);
            if v.len() < c.od.len() && v.len() >= p.off as usize {
                // truncated data with a list size that still fits: the inner readers meet the end of the data
                let q = SizeP { size: (v.len() - p.off as usize) as u32, ..p };
                run_loc(ctx, &v, &q, &gids);
                if round % 4 == 0 {
                    run_list(ctx, &v, &q);
                }
            }
            if round % 4 == 0 {
                run_list(ctx, &v, &p);
            }
        }
        for q in size_variants(&p, c.od.len()) {
            let mut g2 = gids.clone();
            g2.extend([q.start as u32, q.end as u32, q.start as u32 + 1, q.end as u32 + 1]);
            g2.sort();
            g2.dedup();
            run_loc(ctx, &c.od.v, &q, &g2);
            run_list(ctx, &c.od.v, &q);
        }
    }
    // --- IndexSubtable::read_with_args
    let rounds = if t { 18 } else { 3 };
    for _ in 0..rounds {
        for fmt in [1u16, 2, 3, 4, 5, 0, 6] {
            let (b, last, first) = sub_case(&mut ctx.rng, fmt);
            for v in variants(&mut ctx.rng, &b, flips) {
                run_sub(ctx, &v, last, first);
            }
            for (l, f) in [(first, last), (0xFFFF, 0), (0, 0xFFFF), (0, 0), (last + 1, first), (last.wrapping_sub(1), first), (last, first + 1)] {
                run_sub(ctx, &b.v, l, f);
            }
        }
    }
    // --- bitmap_data
    let rounds = if t { 6 } else { 1 };
    for _ in 0..rounds {
        for fmt in [1u16, 2, 5, 6, 7, 8, 9, 17, 18, 19, 3] {
            for color in [true, false] {
                data_round(ctx, fmt, color);
            }
        }
    }
    data_maxima(ctx);
    // --- sbix
    let rounds = if t { 48 } else { 8 };
    for round in 0..rounds {
        let (b, ng) = strike_case(&mut ctx.rng, round as u64);
        let gids = gid_edges(&[ng as u32, ng as u32 + 1, 3]);
        for v in variants(&mut ctx.rng, &b, flips) {
            run_sbix(ctx, &v, ng, &gids);
        }
        for n2 in [0u16, 1, ng.wrapping_sub(1), ng + 1, 0x3FFF, 0xFFFF] {
            run_sbix(ctx, &b.v, n2, &gids);
        }
    }
}
