//! group `bitmap.model` — correspondence of the real hand-written functions of
//! bitmap.rs / cblc.rs / ebdt.rs / sbix.rs (BitmapSize::location, index subtable formats 1-5, bitmap_data, glyph_data)
//! with Model/HandBitmap.lean (`hb.*` driver commands), on generator-based inputs with truncations and
//! boundary fields; plus the group's own byte-level oracles.
use super::*;

pub fn run(_ctx: &mut Ctx) {}
