//! group `layout.model` — correspondence of the real hand-written functions of
//! layout.rs / gsub.rs / gpos.rs / gdef.rs and the closure modules (Coverage / ClassDef lookups and iterators, Device / VariationIndex decoding, lookup-list walking, context rule walking, FeatureVariations conditions)
//! with Model/HandLayout.lean (`hl.*` driver commands), on generator-based inputs with truncations and
//! boundary fields; plus the group's own byte-level oracles.
use super::*;

pub fn run(_ctx: &mut Ctx) {}
