//! group `layout.model` — correspondence of the real hand-written functions of
//! layout.rs / gsub.rs / gpos.rs / gdef.rs and the closure modules (Coverage / ClassDef lookups and iterators, Device / VariationIndex decoding, lookup-list walking, context rule walking, FeatureVariations conditions)
//! with Model/HandLayout.lean (`hl.*` driver commands), on generator-based inputs with truncations and
//! boundary fields; plus the group's own byte-level oracles.
//!
//! Commands (Drv/C01HandLayout.lean):
//!   hl.cov  <hex> <gid…>            CoverageTable::read + population + iter digest + get per gid
//!   hl.covx <hex> <set> | <set> …   CoverageTable::intersects per set; RangeRecord::{population, iter, intersects}
//!   hl.cls  <hex> <gid…>            ClassDef::read + population + iter digest + record populations + get per gid
//!   hl.dev  <hex>                   Device::read + iter | DeviceOrVariationIndex::read (+ DeltaSetIndex::from)
//!   hl.slist / hl.script <hex> …    ScriptList::{index_for_tag, select}, Script::lang_sys_index_for_tag
//!   hl.stags <tag…>                 ScriptTags::from_unicode
//!   hl.lookup <hex>                 SubstitutionLookup::read + subtables() + Subtables::{len, iter, get}
//!   hl.closure <hex> <set> | …      Gsub::read + closure_glyphs per glyph set (result digest / error)
//!   hl.collect <hex> s | l | f      Gsub / Gpos::collect_features (tag sets: `<inverted> <tag…>`)
//! Closures that reach more than 2500 glyphs are left to the oracles (the list-based model is quadratic;
//! see /tmp/c01b-layout-defect-1.txt for the real code's own quadratic cost on such tables).
use super::*;
use font_types::{GlyphId, GlyphId16};
use read_fonts::collections::IntSet;
use read_fonts::tables::layout::{ClassDef, CoverageTable, Device, DeviceOrVariationIndex};
use read_fonts::tables::variations::DeltaSetIndex;
use read_fonts::{FontData, FontRead, ReadError};

// ------------------------------------------------------------------------------------------------
// plumbing

fn err_str(e: &ReadError) -> String {
    match e {
        ReadError::OutOfBounds => "e:O".into(),
        ReadError::InvalidFormat(n) => format!("e:F{n}"),
        ReadError::NullOffset => "e:N".into(),
        ReadError::InvalidArrayLen => "e:L".into(),
        ReadError::InvalidCollectionIndex(n) => format!("e:C{n}"),
        other => format!("e:?{other:?}"),
    }
}

/// `digest` of Drv/C01HandLayout.lean: `<count> <Drv.C01Iter.fnv>`; for more than 2100 items the hash
/// covers the first 2000 and the last 100
struct Fnv {
    n: usize,
    head: Vec<u64>,
    tail: std::collections::VecDeque<u64>,
}

impl Fnv {
    fn new() -> Fnv {
        Fnv { n: 0, head: vec![], tail: Default::default() }
    }
    fn add(&mut self, x: u64) {
        self.n += 1;
        if self.head.len() < 2100 {
            self.head.push(x);
        }
        self.tail.push_back(x);
        if self.tail.len() > 100 {
            self.tail.pop_front();
        }
    }
    fn digest(&self) -> String {
        let mut h = 14695981039346656037u64;
        let mut eat = |x: u64| h = (h ^ x).wrapping_mul(1099511628211);
        if self.n > 2100 {
            self.head[..2000].iter().for_each(|x| eat(*x));
            self.tail.iter().for_each(|x| eat(*x));
        } else {
            self.head.iter().for_each(|x| eat(*x));
        }
        format!("{} {}", self.n, h)
    }
}

/// drain an iterator into an FNV digest, at most `cap` items (`cap` exceeded = oracle failure)
fn drain_fnv<I: Iterator>(ctx: &mut Ctx, name: &str, cap: usize, what: &str, bytes: &[u8], it: I, f: impl Fn(I::Item) -> u64) -> String {
    let mut d = Fnv::new();
    let mut over = false;
    for x in it {
        if d.n >= cap {
            over = true;
            break;
        }
        d.add(f(x));
    }
    ctx.oracle(name, !over, || format!("{what} {}", hex(bytes)), || format!("more than {cap} items"));
    d.digest()
}

/// one correspondence case: `f` computes the implementation's response (inside `catch`)
fn ask(ctx: &mut Ctx, req: String, bytes: &[u8], f: impl FnOnce(&mut Ctx) -> String) {
    PROGRESS.fetch_add(1, Ordering::Relaxed);
    {
        // what the watchdog reports when the call does not return
        let mut cur = CURRENT.lock().unwrap();
        cur.0.clear();
        cur.0.push_str(req.split(' ').next().unwrap_or(""));
        cur.1.clear();
        cur.1.extend_from_slice(bytes);
    }
    // `ctx` is only used for oracles / counters inside `f`; a panic leaves it consistent
    let r = catch(std::panic::AssertUnwindSafe(|| f(ctx)));
    match r {
        Ok(s) => {
            ctx.oracle("no-panic", true, String::new, String::new);
            // an empty response = no correspondence case (oracles only)
            if !s.is_empty() {
                ctx.case(req, s);
            }
        }
        Err(m) => ctx.oracle("no-panic", false, || format!("{req} [{}]", hex(bytes)), || format!("panicked: {m}")),
    }
}

fn r16(b: &[u8], at: usize) -> Option<u16> {
    b.get(at..at + 2).map(|s| u16::from_be_bytes([s[0], s[1]]))
}

fn put_be(v: &mut [u8], pos: usize, w: u8, x: u64) {
    for i in 0..w as usize {
        v[pos + i] = (x >> (8 * (w as usize - 1 - i))) as u8;
    }
}

fn get_be(v: &[u8], pos: usize, w: u8) -> u64 {
    let mut x = 0u64;
    for i in 0..w as usize {
        x = (x << 8) | v[pos + i] as u64;
    }
    x
}

/// the base, every prefix truncation, every registered field at boundary values, a few flips
fn variants(rng: &mut Rng, b: &B, flips: usize) -> Vec<Vec<u8>> {
    variants_opt(rng, b, flips, true, 1)
}

/// `prefixes`: with every prefix truncation; `thin`: every `thin`-th registered field only
fn variants_opt(rng: &mut Rng, b: &B, flips: usize, prefixes: bool, thin: usize) -> Vec<Vec<u8>> {
    let n = b.v.len();
    let mut out = vec![b.v.clone()];
    if prefixes {
        for c in 0..n {
            out.push(b.v[..c].to_vec());
        }
    }
    for (k, (p, w)) in b.fields.iter().enumerate() {
        if k % thin != 0 {
            continue;
        }
        if *p + *w as usize > n {
            continue;
        }
        let max = (1u64 << (8 * *w as u32)) - 1;
        let cur = get_be(&b.v, *p, *w);
        let rest = (n - *p) as u64;
        let mut vals = vec![0, 1, 2, max - 1, max, max / 2, max / 2 + 1, n as u64, rest / 2, rest / 6, rest / 6 + 1, cur.wrapping_add(1), cur.wrapping_sub(1)];
        vals.sort();
        vals.dedup();
        for v in vals {
            let v = v & max;
            if v == cur {
                continue;
            }
            let mut m = b.v.clone();
            put_be(&mut m, *p, *w, v);
            out.push(m);
        }
    }
    for _ in 0..flips {
        if n == 0 {
            break;
        }
        let mut m = b.v.clone();
        for _ in 0..1 + rng.below(2) {
            let p = rng.below(n as u64) as usize;
            m[p] = match rng.below(4) {
                0 => 0,
                1 => 0xFF,
                2 => m[p] ^ (1 << rng.below(8)),
                _ => rng.next() as u8,
            };
        }
        out.push(m);
    }
    out
}

// ------------------------------------------------------------------------------------------------
// generators (after hand/layout.rs)

fn cov1(gl: &[u16], reg: bool) -> B {
    let mut b = B::new();
    b.u16(1).f16(gl.len() as u16);
    for g in gl {
        if reg {
            b.f16(*g);
        } else {
            b.u16(*g);
        }
    }
    b
}

fn cov2(r: &[(u16, u16, u16)], reg: bool) -> B {
    let mut b = B::new();
    b.u16(2).f16(r.len() as u16);
    for (s, e, i) in r {
        if reg {
            b.f16(*s).f16(*e).f16(*i);
        } else {
            b.u16(*s).u16(*e).u16(*i);
        }
    }
    b
}

fn sorted_glyphs(rng: &mut Rng, uni: u32, n: usize) -> Vec<u16> {
    let mut v: Vec<u16> = (0..n).map(|_| rng.below(uni as u64) as u16).collect();
    v.sort();
    v.dedup();
    v
}

fn sorted_ranges(rng: &mut Rng, uni: u32, n: usize) -> Vec<(u16, u16)> {
    let mut out = vec![];
    let mut at = rng.below(4) as u32;
    for _ in 0..n {
        let len = if rng.chance(1, 12) { rng.below(300) as u32 } else { rng.below(5) as u32 };
        let end = at + len;
        if end >= uni {
            break;
        }
        out.push((at as u16, end as u16));
        at = end + 1 + rng.below(4) as u32;
    }
    out
}

fn cov_good(rng: &mut Rng, uni: u32, reg: bool) -> B {
    if rng.chance(1, 2) {
        let n = rng.below(9) as usize;
        let g = sorted_glyphs(rng, uni, n);
        cov1(&g, reg)
    } else {
        let n = rng.below(6) as usize;
        let r = sorted_ranges(rng, uni, n);
        let mut recs = vec![];
        let mut ix = 0u32;
        for (s, e) in &r {
            recs.push((*s, *e, ix as u16));
            ix += (*e - *s) as u32 + 1;
        }
        cov2(&recs, reg)
    }
}

/// coverage in every hostile-but-parsable shape
fn cov_any(rng: &mut Rng, uni: u32, reg: bool) -> B {
    match rng.below(13) {
        0 | 1 | 2 => cov_good(rng, uni, reg),
        3 => {
            // unsorted / duplicated glyph array
            let n = 1 + rng.below(8) as usize;
            let g: Vec<u16> = (0..n).map(|_| rng.below(uni as u64) as u16).collect();
            cov1(&g, reg)
        }
        4 => {
            // overlapping, unsorted ranges
            let n = 1 + rng.below(5) as usize;
            let r: Vec<(u16, u16, u16)> = (0..n)
                .map(|_| {
                    let s = rng.below(uni as u64) as u16;
                    (s, s.saturating_add(rng.below(6) as u16), rng.below(20) as u16)
                })
                .collect();
            cov2(&r, reg)
        }
        5 => {
            // reversed ranges (start > end)
            let n = 1 + rng.below(4) as usize;
            let r: Vec<(u16, u16, u16)> = (0..n)
                .map(|k| {
                    let s = rng.below(uni as u64) as u16;
                    if k % 2 == 0 {
                        (s.saturating_add(1 + rng.below(5) as u16), s, k as u16)
                    } else {
                        (s, s.saturating_add(2), k as u16)
                    }
                })
                .collect();
            cov2(&r, reg)
        }
        6 => {
            // start_coverage_index + (gid - start) around 0xFFFF
            let s = rng.below(uni as u64) as u16;
            let len = 1 + rng.below(6) as u16;
            let ix = 0xFFFFu16 - rng.below(len as u64 + 2) as u16;
            cov2(&[(s, s.saturating_add(len), ix)], reg)
        }
        7 => {
            // ranges / glyphs at the top of the glyph space
            if rng.chance(1, 2) {
                let s = 0xFFFF - rng.below(6) as u16;
                cov2(&[(0, 2, 0), (s, 0xFFFF, 3)], reg)
            } else {
                cov1(&[0, 1, 0xFFFE, 0xFFFF], reg)
            }
        }
        8 => {
            if rng.chance(1, 2) {
                cov1(&[], reg)
            } else {
                cov2(&[], reg)
            }
        }
        9 => {
            // one large range (the iterator's item bound)
            let e = if rng.chance(1, 4) { 0xFFFF } else { 200 + rng.below(3000) as u16 };
            cov2(&[(rng.below(3) as u16, e, rng.below(3) as u16)], reg)
        }
        10 => {
            // adjacent / touching ranges with equal bounds
            let s = rng.below(uni as u64) as u16;
            cov2(&[(s, s, 0), (s, s, 1), (s.saturating_add(1), s.saturating_add(1), 2)], reg)
        }
        11 => {
            // many entries: the `glyph_count > len * num_bits / 2` branch of `intersects`
            if rng.chance(1, 2) {
                let n = 12 + rng.below(30) as usize;
                let mut g = sorted_glyphs(rng, uni.max(64), n);
                if rng.chance(1, 3) {
                    rng.shuffle(&mut g);
                }
                cov1(&g, false)
            } else {
                let n = 8 + rng.below(12) as usize;
                let mut r: Vec<(u16, u16, u16)> = sorted_ranges(rng, uni.max(200), n).into_iter().enumerate().map(|(k, (s, e))| (s, e, 3 * k as u16)).collect();
                if rng.chance(1, 3) {
                    rng.shuffle(&mut r);
                }
                cov2(&r, false)
            }
        }
        _ => {
            // invalid format
            let mut b = B::new();
            b.u16(*rng.pick(&[0u16, 3, 0x100, 0xFFFF])).f16(1).u16(5).u16(6).u16(7);
            b
        }
    }
}

fn class1(start: u16, vals: &[u16], reg: bool) -> B {
    let mut b = B::new();
    b.u16(1);
    if reg {
        b.f16(start);
    } else {
        b.u16(start);
    }
    b.f16(vals.len() as u16);
    for v in vals {
        b.u16(*v);
    }
    b
}

fn class2(r: &[(u16, u16, u16)], reg: bool) -> B {
    let mut b = B::new();
    b.u16(2).f16(r.len() as u16);
    for (s, e, c) in r {
        if reg {
            b.f16(*s).f16(*e).u16(*c);
        } else {
            b.u16(*s).u16(*e).u16(*c);
        }
    }
    b
}

fn class_good(rng: &mut Rng, uni: u32, n_classes: u16, reg: bool) -> B {
    if rng.chance(1, 2) {
        let start = rng.below(uni as u64 / 2 + 1) as u16;
        let n = rng.below(10) as usize;
        let vals: Vec<u16> = (0..n).map(|_| rng.below(n_classes as u64 + 1) as u16).collect();
        class1(start, &vals, reg)
    } else {
        let n = rng.below(6) as usize;
        let r = sorted_ranges(rng, uni, n);
        let recs: Vec<(u16, u16, u16)> = r.into_iter().map(|(s, e)| (s, e, rng.below(n_classes as u64 + 1) as u16)).collect();
        class2(&recs, reg)
    }
}

fn class_any(rng: &mut Rng, uni: u32, n_classes: u16, reg: bool) -> B {
    match rng.below(10) {
        0 | 1 | 2 => class_good(rng, uni, n_classes, reg),
        3 => {
            // start_glyph_id + glyph_count beyond 0xFFFF (the iterator's saturating add)
            let n = 1 + rng.below(8) as u16;
            let start = 0xFFFFu16 - rng.below(n as u64 + 1) as u16;
            let vals: Vec<u16> = (0..n).map(|k| k % (n_classes + 1)).collect();
            class1(start, &vals, reg)
        }
        4 => {
            // reversed + overlapping + unsorted ranges
            let n = 1 + rng.below(5) as usize;
            let r: Vec<(u16, u16, u16)> = (0..n)
                .map(|k| {
                    let s = rng.below(uni as u64) as u16;
                    let e = if k % 2 == 0 { s.saturating_sub(rng.below(4) as u16) } else { s.saturating_add(rng.below(6) as u16) };
                    (s, e, rng.below(n_classes as u64 + 2) as u16)
                })
                .collect();
            class2(&r, reg)
        }
        5 => class2(&[(0, 1, 1), (0xFFFF - rng.below(4) as u16, 0xFFFF, 2)], reg),
        6 => {
            if rng.chance(1, 2) {
                class1(rng.below(uni as u64) as u16, &[], reg)
            } else {
                class2(&[], reg)
            }
        }
        7 => class2(&[(rng.below(3) as u16, if rng.chance(1, 4) { 0xFFFF } else { 500 + rng.below(2000) as u16 }, 1)], reg),
        8 => {
            // many sorted ranges: deeper binary searches
            let n = 6 + rng.below(10) as usize;
            let r: Vec<(u16, u16, u16)> = sorted_ranges(rng, uni.max(200), n).into_iter().map(|(s, e)| (s, e, 1 + rng.below(3) as u16)).collect();
            class2(&r, false)
        }
        _ => {
            let mut b = B::new();
            b.u16(*rng.pick(&[0u16, 3, 0x200, 0xFFFF])).f16(1).f16(1).u16(1).u16(2);
            b
        }
    }
}

/// pack deltas MSB first, `bits` per value
fn pack_deltas(vals: &[i8], bits: u32) -> Vec<u16> {
    let per = (16 / bits) as usize;
    let mask = (1u32 << bits) - 1;
    vals.chunks(per)
        .map(|c| {
            let mut w = 0u32;
            for (i, v) in c.iter().enumerate() {
                w |= ((*v as i32 as u32) & mask) << (16 - bits * (i as u32 + 1));
            }
            w as u16
        })
        .collect()
}

fn device(start: u16, end: u16, fmt: u16, words: &[u16]) -> B {
    let mut b = B::new();
    b.f16(start).f16(end).f16(fmt);
    for w in words {
        b.u16(*w);
    }
    b
}

/// Device (formats 1..3, possibly hostile) or VariationIndex
fn device_any(rng: &mut Rng) -> B {
    let fmt = *rng.pick(&[1u16, 1, 2, 2, 3, 3, 0x8000, 0, 4, 0x7FFF, 0xFFFF]);
    if fmt == 0x8000 && rng.chance(2, 3) {
        let mut b = B::new();
        b.u16(rng.next() as u16).u16(rng.next() as u16).f16(0x8000);
        return b;
    }
    let (start, end) = match rng.below(8) {
        0 => {
            // start_size > end_size
            let e = rng.below(40) as u16;
            (e + 1 + rng.below(5) as u16, e)
        }
        1 => (0xFFFF, 0xFFFF),
        2 => {
            let s = 0xFFFF - rng.below(20) as u16;
            (s, 0xFFFF)
        }
        _ => {
            let s = rng.below(30) as u16;
            (s, s + rng.below(20) as u16)
        }
    };
    let n = (end as usize + 1).saturating_sub(start as usize);
    let bits = match fmt {
        1 => 2,
        2 => 4,
        3 => 8,
        _ => 0,
    };
    let words: Vec<u16> = if bits == 0 {
        (0..rng.below(5)).map(|_| rng.next() as u16).collect()
    } else {
        let vals: Vec<i8> = (0..n).map(|_| rng.next() as i8 >> (8 - bits)).collect();
        let mut w = pack_deltas(&vals, bits);
        if rng.chance(1, 6) {
            w.pop(); // delta_value array one word short
        }
        if rng.chance(1, 6) {
            w.push(rng.next() as u16); // trailing bytes
        }
        w
    };
    device(start, end, fmt, &words)
}

// ------------------------------------------------------------------------------------------------
// Coverage

/// (format, ranges (start, end, start index) as the bytes spell them — format 1 glyphs as one-glyph
/// ranges —, Σ max(0, end − start + 1)) of the records that are wholly inside the data
fn cov_raw(bytes: &[u8]) -> (u16, Vec<(u32, u32, u32)>, usize) {
    let fmt = r16(bytes, 0).unwrap_or(0);
    let n = r16(bytes, 2).unwrap_or(0) as usize;
    let mut recs = vec![];
    let mut pop = 0usize;
    match fmt {
        1 => {
            for k in 0..n {
                let Some(g) = r16(bytes, 4 + 2 * k) else { break };
                recs.push((g as u32, g as u32, k as u32));
                pop += 1;
            }
        }
        2 => {
            for k in 0..n {
                let (Some(s), Some(e), Some(i)) = (r16(bytes, 4 + 6 * k), r16(bytes, 6 + 6 * k), r16(bytes, 8 + 6 * k)) else { break };
                if e >= s {
                    pop += (e - s) as usize + 1;
                }
                recs.push((s as u32, e as u32, i as u32));
            }
        }
        _ => {}
    }
    (fmt, recs, pop)
}

fn cov_gids(rng: &mut Rng, bytes: &[u8]) -> Vec<u32> {
    let (_, recs, _) = cov_raw(bytes);
    let mut vals: Vec<u32> = vec![];
    for (s, e, _) in recs.iter().take(8) {
        vals.push(*s);
        vals.push(*e);
        vals.push((*s + *e) / 2);
    }
    let mut gids: Vec<u32> = edge16(&vals).into_iter().map(|g| g as u32).collect();
    gids.extend([0x1_0000, 0x1_0001, 0x7FFF_FFFF, u32::MAX]);
    if let Some((s, _, _)) = recs.first() {
        gids.push(0x1_0000 + *s);
    }
    for _ in 0..3 {
        gids.push(rng.below(0x1_0000) as u32);
    }
    gids
}

fn cov_case(ctx: &mut Ctx, bytes: &[u8]) {
    let gids = cov_gids(&mut ctx.rng, bytes);
    let req = format!("hl.cov {} {}", hex(bytes), join(&gids));
    ask(ctx, req, bytes, |ctx| {
        let cov = match CoverageTable::read(FontData::new(bytes)) {
            Err(e) => {
                ctx.count(&format!("cov.read.{}", &err_str(&e)[..3]));
                return err_str(&e);
            }
            Ok(c) => c,
        };
        let (fmt, recs, raw_pop) = cov_raw(bytes);
        ctx.count(&format!("cov.read.ok.f{fmt}"));
        let (f, pop) = match &cov {
            CoverageTable::Format1(t) => ("f1", t.population()),
            CoverageTable::Format2(t) => ("f2", t.population()),
        };
        ctx.oracle("cov.population", pop == raw_pop, || format!("population {}", hex(bytes)), || format!("{pop} vs byte-level {raw_pop}"));
        // the iterator yields at most Σ range lengths ≤ 65536 · ranges items, each inside a range
        let it = drain_fnv(ctx, "cov.iter-bounded", raw_pop, "coverage.iter", bytes, cov.iter(), |g| g.to_u16() as u64);
        let in_range = cov.iter().take(4096).all(|g| recs.iter().any(|(s, e, _)| *s <= g.to_u16() as u32 && g.to_u16() as u32 <= *e));
        ctx.oracle("cov.iter-in-range", in_range, || format!("coverage.iter {}", hex(bytes)), || "a glyph outside every range".into());
        let mut gets = vec![];
        for g in &gids {
            let r = cov.get(GlyphId::new(*g));
            // an index is returned only for a glyph some record covers, and it is that record's index
            let ok = match r {
                None => true,
                Some(i) => *g <= 0xFFFF && recs.iter().any(|(s, e, ix)| *s <= *g && *g <= *e && *ix + (*g - *s) == i as u32),
            };
            ctx.oracle("cov.get-covered", ok, || format!("get({g}) {}", hex(bytes)), || format!("{r:?} for a glyph no record covers with that index"));
            match r {
                Some(_) => ctx.count(&format!("cov.get.{f}.some")),
                None if *g > 0xFFFF => ctx.count(&format!("cov.get.{f}.gid>u16")),
                None => {
                    // covered by a record but no index: unsorted data or `checked_add` overflow
                    let covered = recs.iter().find(|(s, e, _)| *s <= *g && *g <= *e);
                    match covered {
                        Some((s, _, ix)) if fmt == 2 && *ix + (*g - *s) > 0xFFFF => ctx.count("cov.get.f2.index-overflow"),
                        Some(_) => ctx.count(&format!("cov.get.{f}.missed-unsorted")),
                        None => ctx.count(&format!("cov.get.{f}.none")),
                    }
                }
            }
            gets.push(r.map(|i| i.to_string()).unwrap_or("n".into()));
        }
        format!("{f} {pop} {it} | {}", join(&gets))
    });
}

fn gset(gids: &[u32]) -> IntSet<GlyphId> {
    gids.iter().map(|g| GlyphId::new(*g)).collect()
}

/// glyph sets (ascending member lists) around the values a table mentions
fn cov_sets(rng: &mut Rng, bytes: &[u8]) -> Vec<Vec<u32>> {
    let (_, recs, _) = cov_raw(bytes);
    let mut sets: Vec<Vec<u32>> = vec![vec![]];
    let firsts: Vec<u32> = recs.iter().take(3).map(|r| r.0).collect();
    sets.push(firsts);
    if let Some((s, e, _)) = recs.first() {
        sets.push(vec![s.wrapping_sub(1) & 0xFFFF_FFFF, 0x1_0000, u32::MAX]);
        sets.push(vec![e + 1]);
        sets.push(vec![*e]);
    }
    if let Some((s, e, _)) = recs.last() {
        sets.push(vec![(*s + *e) / 2]);
        sets.push(vec![*e, 0x2_0000]);
    }
    // a single member no record starts with (only found by a table whose data is sorted)
    if let Some((_, e, _)) = recs.get(recs.len() / 2) {
        sets.push(vec![*e]);
    }
    // many members, none / one of them in the table: the other branch of the cost comparison
    let many: Vec<u32> = (0x1_0000..0x1_0040).collect();
    sets.push(many.clone());
    let mut many1 = vec![recs.get(1).map(|r| r.1).unwrap_or(7)];
    many1.extend(many);
    sets.push(many1);
    let n = 1 + rng.below(5);
    sets.push((0..n).map(|_| rng.below(400) as u32).collect());
    for s in sets.iter_mut() {
        s.sort();
        s.dedup();
    }
    sets
}

fn covx_case(ctx: &mut Ctx, bytes: &[u8]) {
    let sets = cov_sets(&mut ctx.rng, bytes);
    let req = format!("hl.covx {} {}", hex(bytes), sets.iter().map(|s| join(s)).collect::<Vec<_>>().join(" | "));
    ask(ctx, req, bytes, |ctx| {
        let cov = match CoverageTable::read(FontData::new(bytes)) {
            Err(e) => return err_str(&e),
            Ok(c) => c,
        };
        let (fmt, recs, _) = cov_raw(bytes);
        let isets: Vec<IntSet<GlyphId>> = sets.iter().map(|s| gset(s)).collect();
        let mut whole = String::new();
        for (s, is) in sets.iter().zip(&isets) {
            let r = cov.intersects(is);
            // branch taken by the cost comparison (recomputed) and the specification on sorted data
            let count = r16(bytes, 2).unwrap_or(0) as u64;
            let bits = 64 - count.leading_zeros() as u64;
            let lookup_branch = count > (s.len() as u64).saturating_mul(bits) / 2;
            ctx.count(&format!("covx.f{fmt}.{}.{}", if lookup_branch { "lookup-members" } else { "scan-records" }, r as u8));
            let spec = s.iter().any(|g| recs.iter().any(|(a, b, _)| a <= g && g <= b));
            // never a false positive; on scan-records the answer is exact
            let ok = if lookup_branch { !r || spec } else { r == spec };
            ctx.oracle("cov.intersects-spec", ok, || format!("intersects({s:?}) {}", hex(bytes)), || format!("{r} but specification {spec}"));
            whole.push(if r { '1' } else { '0' });
        }
        let mut per = vec![];
        if let CoverageTable::Format2(t) = &cov {
            for rec in t.range_records().iter().take(4) {
                let (s, e) = (rec.start_glyph_id().to_u16() as usize, rec.end_glyph_id().to_u16() as usize);
                let p = if e >= s { e - s + 1 } else { 0 };
                ctx.count(if e >= s { "range.population.forward" } else { "range.population.inverted" });
                let it = drain_fnv(ctx, "range.iter-bounded", p, "range_record.iter", bytes, rec.iter(), |g| g.to_u16() as u64);
                let ints: String = isets.iter().map(|is| if rec.intersects(is) { '1' } else { '0' }).collect();
                per.push(format!("{}:{}:{}", rec.population(), it, ints));
            }
        }
        format!("{whole} {}", join(&per))
    });
}

// ------------------------------------------------------------------------------------------------
// ClassDef

fn class_raw(bytes: &[u8]) -> (u16, Vec<(u32, u32, u32)>, usize) {
    let fmt = r16(bytes, 0).unwrap_or(0);
    let mut recs = vec![];
    let mut pop = 0usize;
    match fmt {
        1 => {
            let s = r16(bytes, 2).unwrap_or(0) as u32;
            let n = r16(bytes, 4).unwrap_or(0) as usize;
            pop = n;
            for k in 0..n {
                let Some(c) = r16(bytes, 6 + 2 * k) else { break };
                recs.push((s + k as u32, s + k as u32, c as u32));
            }
        }
        2 => {
            let n = r16(bytes, 2).unwrap_or(0) as usize;
            for k in 0..n {
                let (Some(s), Some(e), Some(c)) = (r16(bytes, 4 + 6 * k), r16(bytes, 6 + 6 * k), r16(bytes, 8 + 6 * k)) else { break };
                if e >= s {
                    pop += (e - s) as usize + 1;
                }
                recs.push((s as u32, e as u32, c as u32));
            }
        }
        _ => {}
    }
    (fmt, recs, pop)
}

fn cls_case(ctx: &mut Ctx, bytes: &[u8]) {
    let (fmt, recs, raw_pop) = class_raw(bytes);
    let mut vals: Vec<u32> = vec![];
    if fmt == 1 {
        let s = r16(bytes, 2).unwrap_or(0) as u32;
        let n = r16(bytes, 4).unwrap_or(0) as u32;
        vals.extend([s, s + n, s + n / 2]);
    } else {
        for (s, e, _) in recs.iter().take(8) {
            vals.extend([*s, *e, (*s + *e) / 2]);
        }
    }
    let mut gids = edge16(&vals);
    for _ in 0..3 {
        gids.push(ctx.rng.below(0x1_0000) as u16);
    }
    let req = format!("hl.cls {} {}", hex(bytes), join(&gids));
    ask(ctx, req, bytes, |ctx| {
        let cd = match ClassDef::read(FontData::new(bytes)) {
            Err(e) => {
                ctx.count(&format!("cls.read.{}", &err_str(&e)[..3]));
                return err_str(&e);
            }
            Ok(c) => c,
        };
        ctx.count(&format!("cls.read.ok.f{fmt}"));
        let pop = cd.population();
        ctx.oracle("cls.population", pop == raw_pop, || format!("population {}", hex(bytes)), || format!("{pop} vs byte-level {raw_pop}"));
        let it = {
            let mut d = Fnv::new();
            let mut over = false;
            let mut saturated = false;
            for (g, c) in cd.iter() {
                if d.n >= 2 * raw_pop {
                    over = true;
                    break;
                }
                saturated |= fmt == 1 && g.to_u16() == 0xFFFF;
                d.add(g.to_u16() as u64);
                d.add(c as u64);
            }
            if saturated {
                ctx.count("cls.iter.f1.reached-ffff");
            }
            ctx.oracle("cls.iter-bounded", !over, || format!("classdef.iter {}", hex(bytes)), || format!("more than {raw_pop} items"));
            d.digest()
        };
        let mut per = vec![];
        let f = match &cd {
            ClassDef::Format1(_) => "f1",
            ClassDef::Format2(t) => {
                for rec in t.class_range_records().iter().take(4) {
                    per.push(rec.population().to_string());
                }
                "f2"
            }
        };
        let mut gets = vec![];
        for g in &gids {
            let c = cd.get(GlyphId16::new(*g));
            // a non-zero class only for a glyph some record assigns it to
            let ok = c == 0 || recs.iter().any(|(s, e, cls)| *s <= *g as u32 && *g as u32 <= *e && *cls == c as u32);
            ctx.oracle("cls.get-assigned", ok, || format!("get({g}) {}", hex(bytes)), || format!("class {c} that no record assigns"));
            let assigned = recs.iter().any(|(s, e, cls)| *s <= *g as u32 && *g as u32 <= *e && *cls != 0);
            ctx.count(&format!("cls.get.{f}.{}", if c != 0 { "class" } else if assigned { "zero-but-assigned" } else { "zero" }));
            if fmt == 1 {
                let s = r16(bytes, 2).unwrap_or(0);
                ctx.count(if *g < s { "cls.get.f1.below-start" } else if ((*g - s) as usize) < raw_pop { "cls.get.f1.inside" } else { "cls.get.f1.beyond" });
            }
            gets.push(c.to_string());
        }
        format!("{f} {pop} {it} {} | {}", join(&per), join(&gets))
    });
}

// ------------------------------------------------------------------------------------------------
// Device

fn dev_str(d: &Device, ctx: &mut Ctx, bytes: &[u8]) -> String {
    let (s, e) = (d.start_size(), d.end_size());
    let raw_fmt = r16(bytes, 4).unwrap_or(0);
    // exactly end − start + 1 values for the three delta formats, none otherwise
    let want = if (1..=3).contains(&raw_fmt) && s <= e { (e - s) as usize + 1 } else { 0 };
    let mut fv = Fnv::new();
    let mut first = vec![];
    let mut over = false;
    let (mut neg, mut pos) = (false, false);
    for v in d.iter() {
        if fv.n > want {
            over = true;
            break;
        }
        neg |= v < 0;
        pos |= v >= 0;
        fv.add(v as u8 as u64);
        if first.len() < 12 {
            first.push(v.to_string());
        }
    }
    ctx.oracle("dev.iter-count", !over && fv.n == want, || format!("device.iter {}", hex(bytes)), || format!("{} values, expected {want}", fv.n));
    // every value lies in the range of its bit width
    let bits = [0u32, 2, 4, 8][(raw_fmt.min(4) % 4) as usize];
    if bits > 0 {
        let lim = 1i32 << (bits - 1);
        let ok = d.iter().take(64).all(|v| -lim <= v as i32 && (v as i32) < lim);
        ctx.oracle("dev.value-range", ok, || format!("device.iter {}", hex(bytes)), || format!("a value outside {bits} bits"));
    }
    if neg {
        ctx.count("dev.iter.negative-delta");
    }
    if pos {
        ctx.count("dev.iter.positive-delta");
    }
    let per = match raw_fmt {
        1 => 8,
        2 => 4,
        3 => 2,
        _ => 1,
    };
    if want > 0 {
        ctx.count(if want % per == 0 { "dev.iter.last-word-full" } else { "dev.iter.last-word-partial" });
    }
    format!("{} {}", fv.digest(), join(&first))
}

fn dev_case(ctx: &mut Ctx, bytes: &[u8]) {
    let req = format!("hl.dev {}", hex(bytes));
    ask(ctx, req, bytes, |ctx| {
        let fd = FontData::new(bytes);
        let raw_fmt = r16(bytes, 4).unwrap_or(0);
        let a = match Device::read(fd) {
            Err(e) => {
                ctx.count("dev.read.err");
                err_str(&e)
            }
            Ok(d) => {
                ctx.count(&format!("dev.read.ok.fmt{}", if raw_fmt <= 3 || raw_fmt == 0x8000 { format!("{raw_fmt:x}") } else { "other".into() }));
                if d.start_size() > d.end_size() {
                    ctx.count("dev.read.ok.start>end");
                }
                format!("{} {} {} {}", d.start_size(), d.end_size(), d.delta_value().len(), dev_str(&d, ctx, bytes))
            }
        };
        let b = match DeviceOrVariationIndex::read(fd) {
            Err(e) => err_str(&e),
            Ok(DeviceOrVariationIndex::Device(d)) => {
                ctx.count("devorvar.device");
                format!("D {}", dev_str(&d, ctx, bytes))
            }
            Ok(DeviceOrVariationIndex::VariationIndex(v)) => {
                ctx.count("devorvar.variation-index");
                let ix: DeltaSetIndex = v.into();
                format!("V {} {}", ix.outer, ix.inner)
            }
        };
        format!("{a} | {b}")
    });
}


// ------------------------------------------------------------------------------------------------
// ScriptList::{index_for_tag, select}, ScriptTags::from_unicode

const SCRIPT_TAGS: [&[u8; 4]; 12] = [b"DFLT", b"arab", b"cyrl", b"dflt", b"grek", b"latn", b"zzzz", b"    ", b"AAAA", b"thai", b"\xff\xff\xff\xff", b"\0\0\0\0"];

fn tag32(t: &[u8; 4]) -> u32 {
    u32::from_be_bytes(*t)
}

/// script list: `n` records (tag, offset); sorted or not; the offsets point behind the records
fn script_list(rng: &mut Rng) -> B {
    let n = rng.below(8) as usize;
    let mut tags: Vec<u32> = (0..n).map(|_| tag32(*rng.pick(&SCRIPT_TAGS))).collect();
    match rng.below(4) {
        0 => {}
        1 => {
            tags.sort();
        }
        _ => {
            tags.sort();
            tags.dedup();
        }
    }
    let mut b = B::new();
    b.f16(tags.len() as u16);
    for t in &tags {
        b.u32(*t).f16(2 + 6 * tags.len() as u16);
    }
    // one empty Script table all records share
    b.u16(0).u16(0);
    b
}

fn slist_case(ctx: &mut Ctx, bytes: &[u8]) {
    let mut ask_tags: Vec<u32> = SCRIPT_TAGS.iter().map(|t| tag32(t)).collect();
    let n = r16(bytes, 0).unwrap_or(0) as usize;
    for k in 0..n.min(4) {
        if let Some(s) = bytes.get(2 + 6 * k..6 + 6 * k) {
            let t = u32::from_be_bytes([s[0], s[1], s[2], s[3]]);
            ask_tags.extend([t, t.wrapping_add(1), t.wrapping_sub(1)]);
        }
    }
    let sel: Vec<u32> = match ctx.rng.below(5) {
        0 => vec![],
        1 => vec![tag32(b"qqqq"), tag32(b"thai"), tag32(b"arab")],
        2 => vec![tag32(b"latn")],
        3 => vec![tag32(b"zzzz"), tag32(b"AAAA")],
        _ => (0..1 + ctx.rng.below(3)).map(|_| tag32(*ctx.rng.pick(&SCRIPT_TAGS))).collect(),
    };
    let req = format!("hl.slist {} {} | {}", hex(bytes), join(&ask_tags), join(&sel));
    ask(ctx, req, bytes, |ctx| {
        use read_fonts::tables::layout::ScriptList;
        let sl = match ScriptList::read(FontData::new(bytes)) {
            Err(e) => return err_str(&e),
            Ok(s) => s,
        };
        let recs: Vec<u32> = sl.script_records().iter().map(|r| u32::from_be_bytes(r.script_tag().to_be_bytes())).collect();
        let mut ix = vec![];
        for t in &ask_tags {
            let r = sl.index_for_tag(font_types::Tag::from_u32(*t));
            // an index is only returned for a record with that tag
            let ok = r.map(|i| recs.get(i as usize) == Some(t)).unwrap_or(true);
            ctx.oracle("slist.index-has-tag", ok, || format!("index_for_tag({t:#x}) {}", hex(bytes)), || format!("{r:?}"));
            ctx.count(match r {
                Some(_) => "slist.index_for_tag.some",
                None if recs.contains(t) => "slist.index_for_tag.missed-unsorted",
                None => "slist.index_for_tag.none",
            });
            ix.push(r.map(|i| i.to_string()).unwrap_or("n".into()));
        }
        let tags: Vec<font_types::Tag> = sel.iter().map(|t| font_types::Tag::from_u32(*t)).collect();
        let s = match sl.select(&tags) {
            Some(s) => {
                let t = u32::from_be_bytes(s.tag.to_be_bytes());
                let ok = recs.get(s.index as usize) == Some(&t) && (s.is_fallback || sel.contains(&t));
                ctx.oracle("slist.select-has-tag", ok, || format!("select({sel:x?}) {}", hex(bytes)), || format!("{s:?}"));
                ctx.count(if s.is_fallback { "slist.select.fallback" } else { "slist.select.requested" });
                format!("{} {} {}", t, s.index, s.is_fallback as u8)
            }
            None => {
                ctx.count("slist.select.none");
                "n".into()
            }
        };
        format!("{} | {} | {}", recs.len(), join(&ix), s)
    });
}

const LANG_TAGS: [&[u8; 4]; 7] = [b"DEU ", b"ENG ", b"TRK ", b"dflt", b"ZZZZ", b"AAA ", b"\xff\xff\xff\xff"];

/// Script: default LangSys offset, `n` lang sys records (sorted or not) sharing one empty LangSys
fn script_table(rng: &mut Rng) -> B {
    let n = rng.below(7) as usize;
    let mut tags: Vec<u32> = (0..n).map(|_| tag32(*rng.pick(&LANG_TAGS))).collect();
    if rng.chance(3, 4) {
        tags.sort();
        if rng.chance(2, 3) {
            tags.dedup();
        }
    }
    let mut b = B::new();
    let at = 4 + 6 * tags.len() as u16;
    b.f16(if rng.chance(1, 2) { at } else { 0 }).f16(tags.len() as u16);
    for t in &tags {
        b.u32(*t).f16(at);
    }
    b.u16(0).u16(0xFFFF).u16(0);
    b
}

fn script_case(ctx: &mut Ctx, bytes: &[u8]) {
    let mut ask_tags: Vec<u32> = LANG_TAGS.iter().map(|t| tag32(t)).collect();
    let n = r16(bytes, 2).unwrap_or(0) as usize;
    for k in 0..n.min(4) {
        if let Some(s) = bytes.get(4 + 6 * k..8 + 6 * k) {
            let t = u32::from_be_bytes([s[0], s[1], s[2], s[3]]);
            ask_tags.extend([t, t.wrapping_add(1), t.wrapping_sub(1)]);
        }
    }
    let req = format!("hl.script {} {}", hex(bytes), join(&ask_tags));
    ask(ctx, req, bytes, |ctx| {
        use read_fonts::tables::layout::Script;
        let sc = match Script::read(FontData::new(bytes)) {
            Err(e) => return err_str(&e),
            Ok(s) => s,
        };
        let recs: Vec<u32> = sc.lang_sys_records().iter().map(|r| u32::from_be_bytes(r.lang_sys_tag().to_be_bytes())).collect();
        let mut ix = vec![];
        for t in &ask_tags {
            let r = sc.lang_sys_index_for_tag(font_types::Tag::from_u32(*t));
            let ok = r.map(|i| recs.get(i as usize) == Some(t)).unwrap_or(true);
            ctx.oracle("script.index-has-tag", ok, || format!("lang_sys_index_for_tag({t:#x}) {}", hex(bytes)), || format!("{r:?}"));
            ctx.count(match r {
                Some(_) => "script.lang_sys_index_for_tag.some",
                None if recs.contains(t) => "script.lang_sys_index_for_tag.missed-unsorted",
                None => "script.lang_sys_index_for_tag.none",
            });
            ix.push(r.map(|i| i.to_string()).unwrap_or("n".into()));
        }
        format!("{} | {}", recs.len(), join(&ix))
    });
}

fn stags_cases(ctx: &mut Ctx) {
    use read_fonts::tables::layout::{ScriptTags, UNICODE_TO_NEW_OPENTYPE_SCRIPT_TAGS};
    let mut tags: Vec<[u8; 4]> = UNICODE_TO_NEW_OPENTYPE_SCRIPT_TAGS.iter().map(|e| *e.0).collect();
    tags.extend([*b"Zmth", *b"Hira", *b"Kana", *b"Laoo", *b"Yiii", *b"Nkoo", *b"Vaii", *b"Latn", *b"    ", *b"~~~~", *b"Mymr", *b"Mymq", *b"Benf", *b"Bene", *b"\0\0\0\0", *b"\xff\xff\xff\xff", *b"@bcd", *b"[bcd", *b"zmth", *b"ZMTH"]);
    // neighbours of the table keys (the binary search boundaries)
    for e in UNICODE_TO_NEW_OPENTYPE_SCRIPT_TAGS.iter() {
        let v = tag32(e.0);
        tags.push(v.wrapping_add(1).to_be_bytes());
        tags.push(v.wrapping_sub(1).to_be_bytes());
    }
    let k = if ctx.thorough { 1500 } else { 300 };
    for _ in 0..k {
        let mut t = [0u8; 4];
        for x in t.iter_mut() {
            *x = if ctx.rng.chance(1, 8) { ctx.rng.next() as u8 } else { 0x20 + ctx.rng.below(0x5F) as u8 };
        }
        tags.push(t);
    }
    for chunk in tags.chunks(8) {
        let vals: Vec<u32> = chunk.iter().map(tag32).collect();
        let req = format!("hl.stags {}", join(&vals));
        ask(ctx, req, &[], |ctx| {
            let mut out = vec![];
            for t in chunk {
                let st = ScriptTags::from_unicode(font_types::Tag::new(t));
                let s = st.as_slice();
                ctx.oracle("stags.len", (1..=3).contains(&s.len()) && &*st == s, || format!("from_unicode({t:?})"), || format!("{} tags", s.len()));
                ctx.count(&format!("stags.len{}", s.len()));
                out.push(s.iter().map(|t| u32::from_be_bytes(t.to_be_bytes()).to_string()).collect::<Vec<_>>().join(","));
            }
            join(&out)
        });
    }
}

// ------------------------------------------------------------------------------------------------
// GSUB closure: tables with child tables behind offsets (after hand/layout.rs)

/// a table with child tables behind offsets; `flat` lays the children out behind the parent and
/// patches the offsets (which stay registered as fields)
#[derive(Clone, Default)]
struct T {
    b: B,
    kids: Vec<(usize, u8, T)>,
}

impl T {
    fn new() -> T {
        T::default()
    }
    fn of(b: B) -> T {
        T { b, kids: vec![] }
    }
    fn off(&mut self, w: u8, kid: T) -> &mut Self {
        let p = self.b.len();
        match w {
            2 => self.b.f16(0),
            _ => self.b.f32(0),
        };
        self.kids.push((p, w, kid));
        self
    }
    fn off16(&mut self, kid: T) -> &mut Self {
        self.off(2, kid)
    }
    fn off32(&mut self, kid: T) -> &mut Self {
        self.off(4, kid)
    }
    fn flat(&self) -> B {
        let mut out = self.b.clone();
        for (pos, w, kid) in &self.kids {
            let kb = kid.flat();
            let at = out.append(&kb);
            put_be(&mut out.v, *pos, *w, at as u64);
        }
        out
    }
}

/// shape counters of the GSUB generator (flushed into the distribution by `run`)
static SHAPES: Mutex<BTreeMap<String, u64>> = Mutex::new(BTreeMap::new());

fn shape(key: &str) {
    *SHAPES.lock().unwrap().entry(key.to_string()).or_insert(0) += 1;
}

struct Lk {
    uni: u32,
    n_lookups: u16,
    n_classes: u16,
    /// one in `den / 3` sequence / lookup indices lies beyond the input sequence / lookup list
    den: u64,
    hostile: bool,
}

fn lookup_table(rng: &mut Rng, ty: u16, subs: Vec<T>) -> T {
    let mut t = T::new();
    t.b.f16(ty);
    let mut flag = (rng.below(16) as u16) | ((rng.below(3) as u16) << 8);
    let with_set = rng.chance(1, 3);
    if with_set {
        flag |= 0x10;
    }
    t.b.f16(flag);
    t.b.f16(subs.len() as u16);
    for s in subs {
        t.off16(s);
    }
    if with_set {
        t.b.u16(rng.below(4) as u16);
    }
    t
}

fn seq_lookup_body(rng: &mut Rng, b: &mut B, n: u16, input_len: u16, k: &Lk) {
    let mut seen = vec![];
    for _ in 0..n {
        let si = match rng.below(k.den) {
            0 => input_len + 1,
            1 => input_len + 2 + rng.below(3) as u16,
            2 => 0xFFFF,
            _ => rng.below(input_len as u64 + 1) as u16,
        };
        let li = match rng.below(k.den) {
            0 => k.n_lookups,
            1 => 0xFFFF,
            _ => rng.below(k.n_lookups.max(1) as u64) as u16,
        };
        shape(if seen.contains(&si) {
            "closure.gen.seq-index.seen-before"
        } else if si == 0 {
            "closure.gen.seq-index.zero"
        } else if si <= input_len {
            "closure.gen.seq-index.in-input"
        } else {
            "closure.gen.seq-index.beyond-input"
        });
        shape(if li < k.n_lookups { "closure.gen.lookup-index.valid" } else { "closure.gen.lookup-index.beyond-list" });
        seen.push(si);
        b.f16(si).f16(li);
    }
}

fn glyph_seq(rng: &mut Rng, uni: u32, b: &mut B, n: u16) {
    for _ in 0..n {
        b.u16(rng.below(uni as u64) as u16);
    }
}

fn cov_hit(rng: &mut Rng, k: &Lk) -> B {
    if k.hostile && rng.chance(1, 4) {
        // hostile shapes, but no huge ranges (every closure pass iterates the whole coverage)
        let b = cov_any(rng, k.uni, false);
        if cov_raw(&b.v).2 > 600 {
            cov_good(rng, k.uni, false)
        } else {
            b
        }
    } else if rng.chance(1, 3) {
        // dense: every glyph of the universe
        cov2(&[(0, k.uni as u16 - 1, 0)], false)
    } else {
        cov_good(rng, k.uni, false)
    }
}

/// contextual subtable with lookup records that point at any lookup (itself included), with
/// sequence indices around the input length
fn closure_context(rng: &mut Rng, k: &Lk, chained: bool) -> T {
    let fmt = 1 + rng.below(3);
    let mut t = T::new();
    t.b.f16(fmt as u16);
    shape(&format!("closure.gen.context.format{fmt}.{}", if chained { "chained" } else { "plain" }));
    if fmt == 3 {
        if chained {
            let nb = rng.below(2) as u16;
            t.b.f16(nb);
            for _ in 0..nb {
                t.off16(T::of(cov_hit(rng, k)));
            }
        }
        let ni = 1 + rng.below(3) as u16;
        if chained {
            t.b.f16(ni);
        } else {
            let nl = 1 + rng.below(3) as u16;
            t.b.f16(ni).f16(nl);
            for _ in 0..ni {
                t.off16(T::of(cov_hit(rng, k)));
            }
            seq_lookup_body(rng, &mut t.b, nl, ni - 1, k);
            return t;
        }
        for _ in 0..ni {
            t.off16(T::of(cov_hit(rng, k)));
        }
        let na = rng.below(2) as u16;
        t.b.f16(na);
        for _ in 0..na {
            t.off16(T::of(cov_hit(rng, k)));
        }
        let nl = 1 + rng.below(3) as u16;
        t.b.f16(nl);
        seq_lookup_body(rng, &mut t.b, nl, ni - 1, k);
        return t;
    }
    let classes = fmt == 2;
    t.off16(T::of(cov_hit(rng, k)));
    if classes {
        for _ in 0..(if chained { 3 } else { 1 }) {
            let cd = if k.hostile && rng.chance(1, 4) { class_any(rng, k.uni, k.n_classes, false) } else { class_good(rng, k.uni, k.n_classes, false) };
            t.off16(T::of(cd));
        }
    }
    let seq_uni = if classes { k.n_classes as u32 + 1 } else { k.uni };
    let n_sets = if classes { k.n_classes + 1 } else { 1 + rng.below(4) as u16 };
    t.b.f16(n_sets);
    for _ in 0..n_sets {
        if rng.chance(1, 6) {
            shape("closure.gen.context.null-rule-set");
            t.b.f16(0);
            continue;
        }
        let mut set = T::new();
        let m = 1 + rng.below(2) as u16;
        set.b.f16(m);
        for _ in 0..m {
            let mut rule = T::new();
            let gc = 1 + rng.below(3) as u16;
            let nl = 1 + rng.below(3) as u16;
            if chained {
                let nb = rng.below(2) as u16;
                rule.b.f16(nb);
                glyph_seq(rng, seq_uni, &mut rule.b, nb);
                rule.b.f16(gc);
                glyph_seq(rng, seq_uni, &mut rule.b, gc - 1);
                let na = rng.below(2) as u16;
                rule.b.f16(na);
                glyph_seq(rng, seq_uni, &mut rule.b, na);
                rule.b.f16(nl);
            } else {
                rule.b.f16(gc).f16(nl);
                glyph_seq(rng, seq_uni, &mut rule.b, gc - 1);
            }
            seq_lookup_body(rng, &mut rule.b, nl, gc - 1, k);
            set.off16(rule);
        }
        t.off16(set);
    }
    t
}

fn closure_subtable(rng: &mut Rng, ty: u16, k: &Lk) -> T {
    let mut t = T::new();
    shape(&format!("closure.gen.subtable.type{ty}"));
    match ty {
        1 => {
            if rng.chance(1, 2) {
                t.b.f16(1);
                t.off16(T::of(cov_hit(rng, k)));
                t.b.i16(*rng.pick(&[1i16, -1, 3, 30, -30, i16::MAX, i16::MIN]));
            } else {
                t.b.f16(2);
                t.off16(T::of(cov_hit(rng, k)));
                let n = rng.below(k.uni as u64 + 2) as u16;
                t.b.f16(n);
                glyph_seq(rng, k.uni + 6, &mut t.b, n);
            }
        }
        2 | 3 => {
            t.b.u16(1);
            t.off16(T::of(cov_hit(rng, k)));
            let n = rng.below(6) as u16;
            t.b.f16(n);
            for _ in 0..n {
                let mut s = T::new();
                let m = rng.below(4) as u16;
                s.b.f16(m);
                glyph_seq(rng, k.uni + 10, &mut s.b, m);
                t.off16(s);
            }
        }
        4 => {
            t.b.u16(1);
            t.off16(T::of(cov_hit(rng, k)));
            let n = rng.below(5) as u16;
            t.b.f16(n);
            for _ in 0..n {
                let mut set = T::new();
                let m = rng.below(3) as u16;
                set.b.f16(m);
                for _ in 0..m {
                    let mut lig = T::new();
                    lig.b.u16(rng.below(k.uni as u64 + 20) as u16);
                    let cc = rng.below(4) as u16;
                    lig.b.f16(cc);
                    glyph_seq(rng, k.uni, &mut lig.b, cc.saturating_sub(1));
                    set.off16(lig);
                }
                t.off16(set);
            }
        }
        5 => return closure_context(rng, k, false),
        6 => return closure_context(rng, k, true),
        _ => {
            t.b.u16(1);
            t.off16(T::of(cov_hit(rng, k)));
            for _ in 0..2 {
                let n = rng.below(2) as u16;
                t.b.f16(n);
                for _ in 0..n {
                    t.off16(T::of(cov_hit(rng, k)));
                }
            }
            let n = rng.below(k.uni as u64) as u16;
            t.b.f16(n);
            glyph_seq(rng, k.uni + 8, &mut t.b, n);
        }
    }
    t
}

fn closure_lookup(rng: &mut Rng, k: &Lk) -> T {
    let ty = if k.hostile { *rng.pick(&[1u16, 1, 2, 3, 4, 5, 5, 5, 6, 6, 6, 8, 7, 7, 0, 9]) } else { *rng.pick(&[1u16, 1, 2, 3, 4, 5, 5, 5, 6, 6, 6, 8, 7, 7]) };
    let ext_ty = if k.hostile { *rng.pick(&[1u16, 2, 4, 5, 5, 6, 6, 8, 7, 0]) } else { *rng.pick(&[1u16, 2, 3, 4, 5, 5, 6, 6, 8]) };
    closure_lookup_of(rng, k, ty, ext_ty)
}

/// lookup of type `ty` (7: extension subtables of type `ext_ty`)
fn closure_lookup_of(rng: &mut Rng, k: &Lk, ty: u16, ext_ty: u16) -> T {
    let n = if k.hostile && rng.chance(1, 8) { 0 } else { 1 + rng.below(2) as usize };
    shape(&format!("closure.gen.lookup.type{ty}{}", if n == 0 { ".no-subtables" } else { "" }));
    if ty == 7 {
        shape(&format!("closure.gen.lookup.extension-of-type{ext_ty}"));
        let subs: Vec<T> = (0..n)
            .map(|i| {
                let inner = closure_subtable(rng, ext_ty.clamp(1, 8), k);
                let mut e = T::new();
                // only the first extension subtable's type counts
                e.b.u16(1).f16(if i == 0 || rng.chance(2, 3) { ext_ty } else { 1 + rng.below(8) as u16 });
                e.off32(inner);
                e
            })
            .collect();
        lookup_table(rng, 7, subs)
    } else {
        let subs: Vec<T> = (0..n).map(|_| closure_subtable(rng, ty.clamp(1, 8), k)).collect();
        lookup_table(rng, ty, subs)
    }
}

/// GSUB whose features reach every lookup (and, hostile, one index beyond the list)
fn closure_gsub(rng: &mut Rng, k: &Lk) -> B {
    let mut t = T::new();
    let v11 = rng.chance(1, 3);
    shape(if v11 { "closure.gen.gsub.v1.1-feature-variations" } else { "closure.gen.gsub.v1.0" });
    t.b.u16(1).f16(if v11 { 1 } else { 0 });
    // empty script list
    let mut sl = T::new();
    sl.b.u16(0);
    t.off16(sl);
    let mut fl = T::new();
    fl.b.f16(2);
    for (i, tg) in [b"calt", b"liga"].iter().enumerate() {
        fl.b.u32(tag32(tg));
        let mut f = T::new();
        f.b.u16(0);
        let ids: Vec<u16> = if i == 0 {
            (0..k.n_lookups).collect()
        } else if k.hostile && rng.chance(1, 2) {
            vec![k.n_lookups]
        } else {
            vec![rng.below(k.n_lookups as u64) as u16]
        };
        f.b.f16(ids.len() as u16);
        for ix in ids {
            f.b.f16(ix);
        }
        fl.off16(f);
    }
    t.off16(fl);
    let mut ll = T::new();
    ll.b.f16(k.n_lookups);
    for _ in 0..k.n_lookups {
        let l = closure_lookup(rng, k);
        ll.off16(l);
    }
    t.off16(ll);
    if v11 {
        // feature variations: records (condition set offset, substitution offset); alternates with
        // lookup indices inside / beyond the list
        let mut fv = T::new();
        let n = 1 + rng.below(2) as u32;
        fv.b.u16(1).u16(0).f32(n);
        for _ in 0..n {
            fv.b.f32(0);
            if rng.chance(3, 4) {
                let mut fs = T::new();
                let ns = rng.below(3) as u16;
                fs.b.u16(1).u16(0).f16(ns);
                for _ in 0..ns {
                    fs.b.u16(rng.below(3) as u16);
                    let mut f = T::new();
                    let m = rng.below(3) as u16;
                    f.b.u16(0).f16(m);
                    for _ in 0..m {
                        f.b.f16(if k.hostile && rng.chance(1, 6) { k.n_lookups } else { rng.below(k.n_lookups as u64) as u16 });
                    }
                    fs.off32(f);
                }
                fv.off32(fs);
            } else {
                fv.b.f32(0);
            }
        }
        t.off32(fv);
    }
    t.flat()
}

/// `SubstitutionLookup::read` + `subtables()` + `Subtables::{len, iter, get}`: per subtable the variant /
/// format or the error
fn lookup_case(ctx: &mut Ctx, bytes: &[u8]) {
    use read_fonts::tables::gsub::{SingleSubst, SubstitutionLookup, SubstitutionSubtables};
    use read_fonts::tables::layout::{ChainedSequenceContext, SequenceContext};
    let req = format!("hl.lookup {}", hex(bytes));
    ask(ctx, req, bytes, |ctx| {
        let lk = match SubstitutionLookup::read(FontData::new(bytes)) {
            Err(e) => {
                ctx.count("lookup.read-err");
                return err_str(&e);
            }
            Ok(l) => l,
        };
        let subs = match lk.subtables() {
            Err(e) => {
                ctx.count(&format!("lookup.subtables-err.{}", &err_str(&e)[..3]));
                return format!("S:{}", err_str(&e));
            }
            Ok(s) => s,
        };
        let ext = lk.lookup_type() == 7;
        ctx.count(if ext { "lookup.extension" } else { "lookup.plain" });
        fn tags<T>(len: usize, it: impl Iterator<Item = Result<T, ReadError>>, get: impl Fn(usize) -> Result<T, ReadError>, f: impl Fn(&T) -> &'static str) -> (usize, Vec<String>, String) {
            let v: Vec<String> = it.take(len + 2).map(|r| r.as_ref().map(|t| f(t).to_string()).unwrap_or_else(err_str)).collect();
            // `get(i)` answers like the i-th item of `iter`
            for i in 0..len.min(6) {
                let g = get(i).as_ref().map(|t| f(t).to_string()).unwrap_or_else(err_str);
                assert!(g == v[i], "Subtables::get({i}) = {g}, iter gives {}", v[i]);
            }
            (len, v, get(len).map(|_| "o".to_string()).unwrap_or_else(|e| err_str(&e)))
        }
        let (len, v, beyond) = match &subs {
            SubstitutionSubtables::Single(t) => tags(t.len(), t.iter(), |i| t.get(i), |s| match s {
                SingleSubst::Format1(_) => "s1",
                SingleSubst::Format2(_) => "s2",
            }),
            SubstitutionSubtables::Multiple(t) => tags(t.len(), t.iter(), |i| t.get(i), |_| "m"),
            SubstitutionSubtables::Alternate(t) => tags(t.len(), t.iter(), |i| t.get(i), |_| "m"),
            SubstitutionSubtables::Ligature(t) => tags(t.len(), t.iter(), |i| t.get(i), |_| "l"),
            SubstitutionSubtables::Reverse(t) => tags(t.len(), t.iter(), |i| t.get(i), |_| "r"),
            SubstitutionSubtables::Contextual(t) => tags(t.len(), t.iter(), |i| t.get(i), |s| match s {
                SequenceContext::Format1(_) => "c1",
                SequenceContext::Format2(_) => "c2",
                SequenceContext::Format3(_) => "c3",
            }),
            SubstitutionSubtables::ChainContextual(t) => tags(t.len(), t.iter(), |i| t.get(i), |s| match s {
                ChainedSequenceContext::Format1(_) => "c1",
                ChainedSequenceContext::Format2(_) => "c2",
                ChainedSequenceContext::Format3(_) => "c3",
            }),
        };
        // the iterator yields exactly `sub_table_count` items
        ctx.oracle("lookup.iter-count", v.len() == len && len == r16(bytes, 4).unwrap_or(0) as usize, || format!("subtables {}", hex(bytes)), || format!("{} items, count {len}", v.len()));
        for t in &v {
            ctx.count(&format!("lookup.subtable.{}", if t.starts_with("e:") { &t[..3] } else { t }));
        }
        format!("{len} {} | {beyond}", join(&v))
    });
}

// ------------------------------------------------------------------------------------------------
// collect_features

/// a tag set argument: inverted (`IntSet::all()` minus the tags) or plain
#[derive(Clone)]
struct TagSetArg {
    inv: bool,
    tags: Vec<u32>,
}

impl TagSetArg {
    fn set(&self) -> IntSet<font_types::Tag> {
        if self.inv {
            let mut s: IntSet<font_types::Tag> = IntSet::all();
            for t in &self.tags {
                s.remove(font_types::Tag::from_u32(*t));
            }
            s
        } else {
            self.tags.iter().map(|t| font_types::Tag::from_u32(*t)).collect()
        }
    }
    fn req(&self) -> String {
        let mut t = self.tags.clone();
        t.sort();
        t.dedup();
        format!("{} {}", self.inv as u8, if t.is_empty() { String::new() } else { join(&t) }).trim_end().to_string()
    }
}

const FEATURE_TAGS: [&[u8; 4]; 6] = [b"calt", b"kern", b"liga", b"ss01", b"aalt", b"size"];

fn lang_sys_table(rng: &mut Rng, n_features: u16) -> T {
    let mut t = T::new();
    t.b.u16(0);
    let req = match rng.below(4) {
        0 => 0xFFFF,
        1 => n_features.wrapping_add(rng.below(2) as u16),
        _ => rng.below(n_features as u64 + 1) as u16,
    };
    t.b.f16(req);
    let n = rng.below(5) as u16;
    t.b.f16(n);
    for _ in 0..n {
        // feature indices, some beyond the list, some repeated
        let ix = if rng.chance(1, 6) { n_features + rng.below(3) as u16 } else { rng.below(n_features as u64 + 1) as u16 };
        t.b.f16(ix);
    }
    t
}

fn script_full(rng: &mut Rng, n_features: u16, sorted: bool) -> T {
    let mut t = T::new();
    if rng.chance(2, 3) {
        let ls = lang_sys_table(rng, n_features);
        t.off16(ls);
    } else {
        t.b.f16(0);
    }
    let mut tags: Vec<u32> = (0..rng.below(4)).map(|_| tag32(*rng.pick(&LANG_TAGS))).collect();
    if sorted {
        tags.sort();
        tags.dedup();
    }
    t.b.f16(tags.len() as u16);
    for tg in tags {
        t.b.u32(tg);
        let ls = lang_sys_table(rng, n_features);
        t.off16(ls);
    }
    t
}

/// GSUB / GPOS header + script list + feature list (no lookups)
fn collect_table(rng: &mut Rng, shared: bool) -> B {
    let n_features = rng.below(6) as u16;
    let sorted = rng.chance(2, 3);
    let mut t = T::new();
    t.b.u16(1).u16(0);
    let mut sl = T::new();
    if shared {
        // several script records sharing one script table: the visited set
        let n = 3 + rng.below(4) as u16;
        sl.b.f16(n);
        let sh = script_full(rng, n_features, true).flat();
        for i in 0..n {
            sl.b.u32(tag32(SCRIPT_TAGS[i as usize % 6]) + (i as u32 / 6)).f16(2 + 6 * n);
        }
        sl.b.append(&sh);
    } else {
        let mut tags: Vec<u32> = (0..rng.below(5)).map(|_| tag32(*rng.pick(&SCRIPT_TAGS[..8]))).collect();
        if sorted {
            tags.sort();
            tags.dedup();
        }
        sl.b.f16(tags.len() as u16);
        for tg in &tags {
            sl.b.u32(*tg);
            let s = script_full(rng, n_features, sorted);
            sl.off16(s);
        }
    }
    t.off16(sl);
    let mut fl = T::new();
    fl.b.f16(n_features);
    for _ in 0..n_features {
        fl.b.u32(tag32(*rng.pick(&FEATURE_TAGS)));
        let mut f = T::new();
        f.b.u16(0).u16(0);
        fl.off16(f);
    }
    t.off16(fl);
    let mut ll = T::new();
    ll.b.u16(0);
    t.off16(ll);
    t.flat()
}

/// more scripts / language systems / feature indices than MAX_SCRIPTS (500), MAX_LANGSYS (2000),
/// MAX_FEATURE_INDICES (1500); the second language system pushes the u16 feature index counter over
/// 0xFFFF (after hand/layout.rs)
fn collect_limits_table() -> Vec<u8> {
    let mut b = B::new();
    b.u16(1).u16(0).u16(0).u16(10).u16(0);
    b.u16(3);
    for (i, t) in [b"calt", b"kern", b"liga"].iter().enumerate() {
        b.tag(t).u16(20 + 4 * i as u16);
    }
    for _ in 0..3 {
        b.u16(0).u16(0);
    }
    let sl_at = b.len();
    b.set16(4, sl_at as u16);
    let n_scripts = 600u16;
    let n_langs = 2100u16;
    let s0 = 2 + 6 * n_scripts as usize;
    let s0_len = 4 + 6 * n_langs as usize;
    let l0_len = 6 + 2 * 1000;
    let s1 = s0 + s0_len + l0_len;
    b.u16(n_scripts);
    for i in 0..n_scripts {
        b.u32(0x6161_0000 + i as u32).u16(if i == 1 { s1 as u16 } else { s0 as u16 });
    }
    b.u16(s0_len as u16).u16(n_langs);
    for i in 0..n_langs {
        b.u32(0x4100_0000 + i as u32).u16(s0_len as u16);
    }
    b.u16(0).u16(0xFFFF).u16(1000);
    for _ in 0..1000u16 {
        b.u16(3);
    }
    b.u16(4).u16(0);
    b.u16(0).u16(1).u16(65000);
    for i in 0..65000u16 {
        b.u16(i % 3);
    }
    b.v
}

fn collect_case(ctx: &mut Ctx, bytes: &[u8], gpos: bool, s: &TagSetArg, l: &TagSetArg, f: &TagSetArg) {
    use read_fonts::tables::gpos::Gpos;
    use read_fonts::tables::gsub::Gsub;
    let req = format!("hl.collect {} {} | {} | {}", hex(bytes), s.req(), l.req(), f.req());
    ask(ctx, req, bytes, |ctx| {
        let n_features;
        let r = if gpos {
            let t = match Gpos::read(FontData::new(bytes)) {
                Err(e) => return err_str(&e),
                Ok(t) => t,
            };
            n_features = t.feature_list().map(|f| f.feature_count()).unwrap_or(0);
            t.collect_features(&s.set(), &l.set(), &f.set())
        } else {
            let t = match Gsub::read(FontData::new(bytes)) {
                Err(e) => return err_str(&e),
                Ok(t) => t,
            };
            n_features = t.feature_list().map(|f| f.feature_count()).unwrap_or(0);
            t.collect_features(&s.set(), &l.set(), &f.set())
        };
        match r {
            Err(e) => {
                ctx.count(&format!("collect.err.{}", &err_str(&e)[..3]));
                err_str(&e)
            }
            Ok(out) => {
                // only indices of the feature list are returned
                let ok = out.iter().all(|i| i < n_features);
                ctx.oracle("collect.index-in-list", ok, || format!("collect_features {}", hex(bytes)), || format!("{:?} with {n_features} features", out.iter().collect::<Vec<_>>()));
                ctx.count(if out.is_empty() { "collect.ok.empty" } else { "collect.ok.some" });
                ctx.count(&format!("collect.scripts-{}.langs-{}", if s.inv { "inverted" } else { "plain" }, if l.inv { "inverted" } else { "plain" }));
                let v: Vec<u16> = out.iter().collect();
                format!("ok {}", join(&v))
            }
        }
    });
}

fn collect_sets(rng: &mut Rng) -> (TagSetArg, TagSetArg, TagSetArg) {
    let pick = |rng: &mut Rng, pool: &[&[u8; 4]], n: usize| -> Vec<u32> { (0..n).map(|_| tag32(*rng.pick(pool))).collect() };
    let s = match rng.below(4) {
        0 => TagSetArg { inv: true, tags: vec![] },
        1 => TagSetArg { inv: true, tags: pick(rng, &SCRIPT_TAGS[..8], 2) },
        2 => TagSetArg { inv: false, tags: pick(rng, &SCRIPT_TAGS[..8], 4) },
        _ => TagSetArg { inv: false, tags: SCRIPT_TAGS[..8].iter().map(|t| tag32(t)).collect() },
    };
    let l = match rng.below(4) {
        0 => TagSetArg { inv: true, tags: vec![] },
        1 => TagSetArg { inv: true, tags: pick(rng, &LANG_TAGS, 2) },
        2 => TagSetArg { inv: false, tags: pick(rng, &LANG_TAGS, 3) },
        _ => TagSetArg { inv: false, tags: vec![] },
    };
    let f = match rng.below(4) {
        0 => TagSetArg { inv: true, tags: vec![] },
        1 => TagSetArg { inv: true, tags: pick(rng, &FEATURE_TAGS, 1) },
        2 => TagSetArg { inv: false, tags: pick(rng, &FEATURE_TAGS, 3) },
        _ => TagSetArg { inv: false, tags: vec![] },
    };
    (s, l, f)
}

fn closure_case(ctx: &mut Ctx, bytes: &[u8], sets: &[Vec<u16>]) {
    use read_fonts::tables::gsub::Gsub;
    let req = format!("hl.closure {} {}", hex(bytes), sets.iter().map(|s| join(s)).collect::<Vec<_>>().join(" | "));
    ask(ctx, req, bytes, |ctx| {
        let gsub = match Gsub::read(FontData::new(bytes)) {
            Err(e) => {
                ctx.count("closure.gsub-read-err");
                return err_str(&e);
            }
            Ok(g) => g,
        };
        // the list-based model is quadratic in the closure size: closures that reach thousands of glyphs
        // (a field mutation that opened a coverage range up to 0xFFxx) are left to the oracles
        let results: Vec<_> = sets.iter().map(|s| gsub.closure_glyphs(s.iter().map(|g| GlyphId16::new(*g)).collect())).collect();
        let large = results.iter().any(|r| r.as_ref().map(|s| s.len() > 2500).unwrap_or(false));
        let mut out = vec![];
        for (s, res) in sets.iter().zip(results) {
            let set: IntSet<GlyphId16> = s.iter().map(|g| GlyphId16::new(*g)).collect();
            match res {
                Err(e) => {
                    ctx.count(&format!("closure.err.{}", &err_str(&e)[..3]));
                    out.push(err_str(&e));
                }
                Ok(r) => {
                    // the closure contains its input and only grows by glyph ids
                    let sup = set.iter().all(|g| r.contains(g));
                    ctx.oracle("closure.superset", sup, || format!("closure_glyphs({s:?}) {}", hex(bytes)), || "an input glyph is missing".into());
                    ctx.oracle("closure.size", r.len() <= 0x1_0000, || format!("closure_glyphs({s:?}) {}", hex(bytes)), || format!("{} glyphs", r.len()));
                    ctx.count(if r.len() > set.len() { "closure.ok.grew" } else { "closure.ok.same" });
                    let mut d = Fnv::new();
                    for g in r.iter() {
                        d.add(g.to_u16() as u64);
                    }
                    out.push(format!("ok {}", d.digest()));
                }
            }
        }
        if large {
            ctx.count("closure.large-left-to-oracles");
            return String::new();
        }
        out.join(" | ")
    });
}

// ------------------------------------------------------------------------------------------------

pub fn run(ctx: &mut Ctx) {
    let k = if ctx.thorough { 5 } else { 1 };
    // Coverage: get / iter / population
    for round in 0..36 * k {
        let uni = *ctx.rng.pick(&[8u32, 40, 300, 0x1_0000]);
        let b = cov_any(&mut ctx.rng, uni, round % 3 == 0);
        for v in variants(&mut ctx.rng, &b, 6) {
            cov_case(ctx, &v);
        }
    }
    // Coverage: intersects (+ RangeRecord)
    for _ in 0..40 * k {
        let uni = *ctx.rng.pick(&[8u32, 40, 300, 0x1_0000]);
        let b = cov_any(&mut ctx.rng, uni, false);
        for v in variants(&mut ctx.rng, &b, 4) {
            covx_case(ctx, &v);
        }
    }
    // ClassDef
    for round in 0..36 * k {
        let uni = *ctx.rng.pick(&[8u32, 40, 300, 0xFFF0]);
        let b = class_any(&mut ctx.rng, uni, 3, round % 3 == 0);
        for v in variants(&mut ctx.rng, &b, 6) {
            cls_case(ctx, &v);
        }
    }
    // Device / VariationIndex
    for _ in 0..40 * k {
        let b = device_any(&mut ctx.rng);
        for v in variants(&mut ctx.rng, &b, 6) {
            dev_case(ctx, &v);
        }
    }
    // exhaustive: every format word class x small size ranges x data lengths
    for fmt in [0u16, 1, 2, 3, 4, 0x8000, 0x8001, 0xFFFF] {
        for start in [0u16, 1, 7, 0xFFFE, 0xFFFF] {
            for d in 0..=9u16 {
                for short in [0usize, 1] {
                    let end = start.saturating_add(d);
                    let n = (end - start) as usize + 1;
                    let per = match fmt {
                        1 => 8,
                        2 => 4,
                        3 => 2,
                        _ => 1,
                    };
                    let words: Vec<u16> = (0..((n + per - 1) / per).saturating_sub(short)).map(|_| ctx.rng.next() as u16).collect();
                    dev_case(ctx, &device(start, end, fmt, &words).v);
                }
            }
        }
    }
    // GSUB closure
    for round in 0..8 * k {
        let uni = *ctx.rng.pick(&[8u32, 16, 24]);
        let hostile = round % 3 == 0;
        let lk = Lk { uni, n_lookups: 2 + ctx.rng.below(3) as u16, n_classes: 2, den: if hostile { 24 } else { 1000 }, hostile };
        let b = closure_gsub(&mut ctx.rng, &lk);
        ctx.count_n("closure.gsub-bytes", b.len() as u64);
        let mut sets: Vec<Vec<u16>> = vec![(0..uni as u16).collect(), vec![0, 2, uni as u16 / 2]];
        if round % 4 == 0 {
            sets.push(vec![]);
        }
        // every prefix truncation + every field for the first two tables, every third field afterwards
        for v in variants_opt(&mut ctx.rng, &b, 10, round < 2, if round < 2 { 1 } else { 3 }) {
            closure_case(ctx, &v, &sets);
        }
        // single glyphs and the top of the glyph space on the unmodified table
        let mut more: Vec<Vec<u16>> = (0..uni.min(5) as u16).map(|g| vec![g]).collect();
        more.push((0xFFF0..=0xFFFF).collect());
        closure_case(ctx, &b.v, &more);
    }
    // collect_features
    for round in 0..14 * k {
        let b = collect_table(&mut ctx.rng, round % 4 == 3);
        let (s, l, f) = collect_sets(&mut ctx.rng);
        for v in variants_opt(&mut ctx.rng, &b, 6, true, 1) {
            collect_case(ctx, &v, round % 5 == 4, &s, &l, &f);
        }
        for _ in 0..6 {
            let (s, l, f) = collect_sets(&mut ctx.rng);
            collect_case(ctx, &b.v, false, &s, &l, &f);
        }
    }
    {
        let all = TagSetArg { inv: true, tags: vec![] };
        let lim = collect_limits_table();
        // the request would be 400 KB: oracles only (no panic, indices inside the feature list)
        PROGRESS.fetch_add(1, Ordering::Relaxed);
        let r = catch(|| read_fonts::tables::gsub::Gsub::read(FontData::new(&lim)).and_then(|g| g.collect_features(&all.set(), &all.set(), &all.set())).map(|s| s.iter().collect::<Vec<u16>>()));
        ctx.oracle("collect.limits", matches!(&r, Ok(Ok(v)) if v.iter().all(|i| *i < 3)), || "collect_limits_table".into(), || format!("{r:?}"));
    }
    // lookups: plain and extension, every subtable type
    const TYPES: [(u16, u16); 17] = [(1, 0), (2, 0), (3, 0), (4, 0), (5, 0), (6, 0), (8, 0), (7, 1), (7, 2), (7, 4), (7, 5), (7, 6), (7, 8), (7, 7), (7, 0), (0, 0), (9, 0)];
    for round in 0..34 * k {
        let lk = Lk { uni: 12, n_lookups: 3, n_classes: 2, den: 12, hostile: round % 2 == 0 };
        let (ty, ext_ty) = TYPES[round % 17];
        let b = closure_lookup_of(&mut ctx.rng, &lk, ty, ext_ty).flat();
        for v in variants_opt(&mut ctx.rng, &b, 4, round % 34 < 17, 3) {
            lookup_case(ctx, &v);
        }
    }
    // script lists and script tags
    for _ in 0..12 * k {
        let b = script_list(&mut ctx.rng);
        for v in variants(&mut ctx.rng, &b, 3) {
            slist_case(ctx, &v);
        }
    }
    for _ in 0..8 * k {
        let b = script_table(&mut ctx.rng);
        for v in variants(&mut ctx.rng, &b, 3) {
            script_case(ctx, &v);
        }
    }
    stags_cases(ctx);
    let shapes = std::mem::take(&mut *SHAPES.lock().unwrap());
    for (key, n) in shapes {
        ctx.count_n(&key, n);
    }
    // a few long tables: the full size range in every format (32768 words for 8 bit deltas is left to
    // the `layout` group; 2 bit deltas need 8192 words), hostile end < start with trailing data
    for (s, e, fmt) in [(0u16, 999u16, 1u16), (0, 499, 2), (0, 299, 3), (300, 0, 3)] {
        let n = (e as usize + 1).saturating_sub(s as usize);
        let bits = [0u32, 2, 4, 8][fmt as usize];
        let vals: Vec<i8> = (0..n).map(|_| ctx.rng.next() as i8 >> (8 - bits)).collect();
        let mut words = pack_deltas(&vals, bits);
        if n == 0 {
            words = vec![0x1234, 0xFFFF];
        }
        dev_case(ctx, &device(s, e, fmt, &words).v);
    }
}
