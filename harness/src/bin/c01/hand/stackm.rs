//! group `ps.stack.model` — the value-carrying CFF operand stack (`tables/postscript/stack.rs`:
//! push / pop_i32 / clear / reverse / number_values / fixed_values / fixed_array::<N> / apply_blend) against
//! Model/HandStack.lean (`hs.run` scripts).  Blend states are real `BlendState`s over generated
//! ItemVariationStores; the model receives what `apply_blend` observes of them (`region_count()`, the items
//! of `scalars()`).  Every slot of the arrays (also above `top`: stale entries are observable through
//! `get_i32` / `get_fixed`) enters the final digest.
use super::*;
use font_types::{F2Dot14, Fixed};
use read_fonts::tables::postscript::{BlendState, Error, Number, Stack};
use read_fonts::tables::variations::ItemVariationStore;
use read_fonts::{FontData, FontRead};

fn fnv(xs: impl Iterator<Item = u64>) -> u64 {
    let mut h = 14695981039346656037u64;
    for x in xs {
        h = (h ^ x).wrapping_mul(1099511628211);
    }
    h
}

fn err_str(e: &Error) -> String {
    match e {
        Error::StackOverflow => "eSO".into(),
        Error::StackUnderflow => "eSU".into(),
        Error::ExpectedI32StackEntry(i) => format!("eI{i}"),
        Error::InvalidStackAccess(i) => format!("eSA{i}"),
        _ => "eB".into(),
    }
}

fn unit(r: Result<(), Error>) -> String {
    match r {
        Ok(()) => "k".into(),
        Err(e) => err_str(&e),
    }
}

fn arr<const N: usize>(st: &Stack, first: usize) -> String {
    match st.fixed_array::<N>(first) {
        Ok(a) => format!("ok{}", fnv(a.iter().map(|f| f.to_bits() as u32 as u64))),
        Err(e) => err_str(&e),
    }
}

#[derive(Clone)]
enum Op {
    PushI(i32),
    PushF(i32),
    Pop,
    Rev,
    Nums,
    Fixeds,
    Arr(usize, usize),
    Clr,
    Blend,
}

fn run_script(ops: &[Op], blend: Option<&BlendState>) -> String {
    let mut st = Stack::new();
    let mut out: Vec<String> = vec![];
    for op in ops {
        out.push(match op {
            Op::PushI(v) => unit(st.push(*v)),
            Op::PushF(v) => unit(st.push(Fixed::from_bits(*v))),
            Op::Pop => match st.pop_i32() {
                Ok(v) => v.to_string(),
                Err(e) => err_str(&e),
            },
            Op::Rev => {
                st.reverse();
                "k".into()
            }
            Op::Nums => {
                let v: Vec<Number> = st.number_values().collect();
                format!(
                    "{}:{}",
                    v.len(),
                    fnv(v.iter().flat_map(|n| match n {
                        Number::I32(i) => [0u64, *i as u32 as u64],
                        Number::Fixed(f) => [1u64, f.to_bits() as u32 as u64],
                    }))
                )
            }
            Op::Fixeds => {
                let v: Vec<Fixed> = st.fixed_values().collect();
                format!("{}:{}", v.len(), fnv(v.iter().map(|f| f.to_bits() as u32 as u64)))
            }
            Op::Arr(n, first) => match n {
                1 => arr::<1>(&st, *first),
                2 => arr::<2>(&st, *first),
                4 => arr::<4>(&st, *first),
                _ => arr::<6>(&st, *first),
            },
            Op::Clr => {
                st.clear();
                ".".into()
            }
            Op::Blend => unit(st.apply_blend(blend.expect("blend state"))),
        });
    }
    let digest = fnv((0..513usize).flat_map(|i| match st.get_i32(i) {
        Ok(v) => [0u64, v as u32 as u64],
        Err(_) => [1u64, st.get_fixed(i).map(|f| f.to_bits()).unwrap_or(0) as u32 as u64],
    }));
    format!("{} | {} {}", if out.is_empty() { "-".to_string() } else { out.join(" ") }, st.len(), digest)
}

fn op_str(op: &Op, blend_tok: &str) -> String {
    match op {
        Op::PushI(v) => format!("p{v}"),
        Op::PushF(v) => format!("P{v}"),
        Op::Pop => "o".into(),
        Op::Rev => "r".into(),
        Op::Nums => "n".into(),
        Op::Fixeds => "f".into(),
        Op::Arr(n, f) => format!("a{n}:{f}"),
        Op::Clr => "c".into(),
        Op::Blend => blend_tok.to_string(),
    }
}

fn val(rng: &mut Rng) -> i32 {
    match rng.below(8) {
        0 => i32::MAX,
        1 => i32::MIN,
        2 => 0,
        3 => rng.next() as i32,
        _ => rng.range(-70000, 70000) as i32,
    }
}

pub fn run(ctx: &mut Ctx) {
    let rounds = if ctx.thorough { 12000 } else { 2400 };
    for round in 0..rounds {
        // a real blend state (or none when the store / index is rejected)
        let axis_count = 1 + ctx.rng.below(3) as u16;
        let n_regions = ctx.rng.below(20) as u16;
        let n_data = 1 + ctx.rng.below(2) as u16;
        let ivs = super::ps::ivs_bytes(&mut ctx.rng, axis_count, n_regions, n_data);
        let coords: Vec<F2Dot14> = (0..axis_count)
            .map(|_| {
                F2Dot14::from_bits(match ctx.rng.below(4) {
                    0 => 0,
                    1 => 0x4000,
                    2 => -0x4000,
                    _ => ctx.rng.range(-0x4000, 0x4001) as i16,
                })
            })
            .collect();
        let store_index = ctx.rng.below(2) as u16;
        PROGRESS.fetch_add(1, Ordering::Relaxed);
        let blend: Option<BlendState> = ItemVariationStore::read(FontData::new(&ivs.v)).ok().and_then(|s| catch(|| BlendState::new(s, &coords, store_index).ok()).ok().flatten());
        // what apply_blend observes of it
        let (rc, scalars_tok): (usize, String) = match &blend {
            None => (0, String::new()),
            Some(b) => {
                let rc = b.region_count().unwrap_or(0);
                let items: Vec<String> = match b.scalars() {
                    Ok(it) => it.map(|r| r.map(|f| f.to_bits().to_string()).unwrap_or("e".into())).collect(),
                    Err(_) => vec!["e".into()],
                };
                (rc, if items.is_empty() { "-".into() } else { items.join(",") })
            }
        };
        let blend_tok = format!("b{rc}:{scalars_tok}");
        let mut ops: Vec<Op> = vec![];
        let shape = round % 6;
        if blend.is_some() {
            ctx.count(&format!("blend-state.rc{}", if rc == 0 { "0" } else if rc <= 16 { "1-16" } else { "17+" }));
        }
        match shape {
            0 | 1 | 2 if blend.is_some() => {
                // a blend with (nearly) the right operand count
                let pre = *ctx.rng.pick(&[0usize, 0, 1, 3, 500]);
                for _ in 0..pre {
                    ops.push(if ctx.rng.chance(1, 3) { Op::PushF(val(&mut ctx.rng)) } else { Op::PushI(val(&mut ctx.rng)) });
                }
                let tvc = ctx.rng.below(5) as usize;
                let want = tvc * (rc + 1);
                let have = match ctx.rng.below(6) {
                    0 => want.saturating_sub(1),
                    1 => want + 1,
                    _ => want,
                };
                for _ in 0..have {
                    ops.push(if ctx.rng.chance(1, 2) { Op::PushF(val(&mut ctx.rng)) } else { Op::PushI(ctx.rng.range(-300, 300) as i32) });
                }
                ops.push(match ctx.rng.below(8) {
                    0 => Op::PushI(-1),
                    1 => Op::PushI(i32::MAX),
                    2 => Op::PushF(tvc as i32),
                    3 => Op::PushI(514),
                    _ => Op::PushI(tvc as i32),
                });
                ops.push(Op::Blend);
                ops.push(Op::Nums);
                if ctx.rng.chance(1, 3) {
                    ops.push(Op::Blend);
                }
                ctx.count("shape.blend");
            }
            3 => {
                // fill to the brim, then everything
                let n = *ctx.rng.pick(&[511usize, 512, 513, 514]);
                for i in 0..n {
                    ops.push(if i % 7 == 3 { Op::PushF(val(&mut ctx.rng)) } else { Op::PushI(i as i32) });
                }
                ops.extend([Op::Rev, Op::Nums, Op::Fixeds, Op::Arr(6, 507), Op::Arr(6, 508), Op::Arr(4, 512), Op::Arr(1, 513), Op::Pop]);
                if blend.is_some() {
                    ops.extend([Op::PushI(*ctx.rng.pick(&[0, 1, 2, 100, 512, 513])), Op::Blend]);
                }
                ctx.count("shape.full");
            }
            _ => {
                let n = ctx.rng.below(30) as usize;
                for _ in 0..n {
                    ops.push(match ctx.rng.below(14) {
                        0..=3 => Op::PushI(val(&mut ctx.rng)),
                        4 | 5 => Op::PushF(val(&mut ctx.rng)),
                        6 => Op::Pop,
                        7 => Op::Rev,
                        8 => Op::Nums,
                        9 => Op::Fixeds,
                        10 | 11 => Op::Arr(*ctx.rng.pick(&[1usize, 2, 4, 6]), *ctx.rng.pick(&[0usize, 1, 2, 3, 5, 8, 513, usize::MAX])),
                        12 => Op::Clr,
                        _ => {
                            if blend.is_some() {
                                Op::Blend
                            } else {
                                Op::Rev
                            }
                        }
                    });
                }
                ctx.count("shape.random");
            }
        }
        let req = format!("hs.run {}", if ops.is_empty() { "-".to_string() } else { ops.iter().map(|o| op_str(o, &blend_tok)).collect::<Vec<_>>().join(" ") });
        PROGRESS.fetch_add(1, Ordering::Relaxed);
        match catch(|| run_script(&ops, blend.as_ref())) {
            Ok(resp) => {
                ctx.oracle("no-panic", true, String::new, String::new);
                // model independent: the stack never grows past its array
                let top: usize = resp.rsplit(" | ").next().and_then(|t| t.split(' ').next()).and_then(|t| t.parse().ok()).unwrap_or(usize::MAX);
                ctx.oracle("top<=513", top <= 513, || req.clone(), || resp.clone());
                for (op, t) in ops.iter().zip(resp.split(" | ").next().unwrap_or("").split(' ')) {
                    if matches!(op, Op::Blend) {
                        ctx.count(&format!("blend.{}", if t.starts_with("eSA") { "eSA" } else if t.starts_with("eI") { "eI" } else { t }));
                    }
                }
                for t in resp.split(" | ").next().unwrap_or("").split(' ') {
                    if t == "k" || t == "." {
                        continue;
                    }
                    ctx.count(&format!("resp.{}", if t.starts_with("ok") { "ok" } else if t.starts_with("eSA") { "eSA" } else if t.starts_with("eI") { "eI" } else if t.starts_with('e') { t } else { "value" }));
                }
                ctx.case(req, resp);
            }
            Err(m) => ctx.oracle("no-panic", false, || format!("{req} ivs={} coords={:?} index={store_index}", hex(&ivs.v), coords.iter().map(|c| c.to_bits()).collect::<Vec<_>>()), || m.clone()),
        }
    }
}
