//! C01 part `hand` — direct drivers for the HAND-WRITTEN parsers, lookups and iterators of
//! read-fonts (everything outside `read-fonts/generated/`), family by family.
//!
//! Every group builds structurally valid inputs with its own small generator, then drives the real
//! functions on (i) every prefix truncation, (ii) every count / offset / length field set to
//! 0, 1, max-1, max and to values just around the data length, (iii) random flips / random tails /
//! random bytes.  Oracles (model independent):
//!   * `hand.<group>.no-panic`      — the call returned (catch_unwind);
//!   * `hand.<group>.iter-bounded`  — no iterator yielded more items than its bound (a function of
//!                                    the input length and the external arguments); every iterator is
//!                                    drained through `Obs::drain`, which stops at the cap, so a
//!                                    runaway iterator is detected, not waited for;
//!   * `hand.<group>.time-bounded`  — no single call ran longer than the watchdog limit;
//!   * `hand.<group>.no-crash`      — the child process did not abort (stack overflow, OOM);
//!   * `hand.<group>.pure`          — a sampled second evaluation on an odd-offset copy of the bytes
//!                                    gives the same digest;
//!   * group specific relational oracles (e.g. `hand.cursor.end-predicate`).
//! Groups whose code is modelled in Lean (Model/HandRead.lean, Model/HandIter.lean) additionally
//! record correspondence cases (`hd.*` driver commands).
//!
//! Each group runs in a CHILD PROCESS (this same executable, `C01_HAND_CHILD=<group>`): a hang
//! inside one call is turned into an oracle failure by the child's watchdog thread (which knows the
//! current input) instead of killing the harness, and a crash is located by re-running the group in
//! trace mode.  Results are merged in the fixed group order, so a run is deterministic per seed.
use fv_harness::common::*;
use serde_json::{json, Value};
use std::collections::BTreeMap;
use std::sync::atomic::{AtomicU64, Ordering};
use std::sync::Mutex;
use std::time::{Duration, Instant};

mod aat;
mod aatm;
mod bitmap;
mod cmapx;
mod cursor;
mod glyfx;
mod ift;
mod layout;
mod misc;
mod ps;
mod trav;
mod varc;
mod vars;
mod stackm;
mod bytecodem;
mod blendm;
mod glyfm;
mod varsm;
mod layoutm;
mod colrm;
mod colrdag;
mod bitmapm;
mod textm;
mod aatsm;

/// (group name, runner).  The names are the `harness:<group>` keys of translate/handwritten_cover.json.
pub const GROUPS: &[(&str, fn(&mut Ctx))] = &[
    ("cursor", cursor::run),
    ("fontdata", cursor::run_fontdata),
    ("varc", varc::run),
    ("ps.index", ps::run_index),
    ("ps.dict", ps::run_dict),
    ("ps.charset", ps::run_charset),
    ("ps.fdselect", ps::run_fdselect),
    ("ps.string", ps::run_string),
    ("ps.stack", ps::run_stack),
    ("ps.blend", ps::run_blend),
    ("ps.cff", ps::run_cff),
    ("ps.charstring", ps::run_charstring),
    ("aat.lookup", aat::run_lookup),
    ("aat.model", aatm::run),
    ("aat.state", aat::run_state),
    ("aat.kern", aat::run_kern),
    ("aat.kerx", aat::run_kerx),
    ("aat.morx", aat::run_morx),
    ("aat.misc", aat::run_misc),
    ("post", misc::run_post),
    ("name", misc::run_name),
    ("misc", misc::run_misc),
    ("cmap", cmapx::run),
    ("layout", layout::run),
    ("layout.closure", layout::run_closure),
    ("colr", layout::run_colr),
    ("bitmap", bitmap::run),
    ("glyf", glyfx::run),
    ("glyf.bytecode", glyfx::run_bytecode),
    ("vars", vars::run),
    ("ift", ift::run),
    ("traverse.debug", trav::run),
    ("glyf.model", glyfm::run),
    ("vars.model", varsm::run),
    ("layout.model", layoutm::run),
    ("colr.model", colrm::run),
    ("colr.dag", colrdag::run),
    ("bitmap.model", bitmapm::run),
    ("text.model", textm::run),
    ("aats.model", aatsm::run),
    ("ps.stack.model", stackm::run),
    ("glyf.bytecode.model", bytecodem::run),
    ("ps.blend.model", blendm::run),
];

/// plumbing self-test groups (only with `C01_HAND_SELFTEST=1`): a call that never returns and a call
/// that overflows the stack must come back as `time-bounded` / `no-crash` failures naming the input
const SELFTEST_GROUPS: &[(&str, fn(&mut Ctx))] = &[("selftest.hang", selftest_hang), ("selftest.crash", selftest_crash)];

fn selftest_hang(ctx: &mut Ctx) {
    ctx.call("ok", &[1, 2, 3], &|_b, _o| {});
    ctx.call("spin", &[0xde, 0xad], &|b, o| {
        let mut x = b.len() as u64;
        loop {
            x = x.wrapping_mul(6364136223846793005).wrapping_add(1);
            if x == 42 {
                o.note(x);
            }
            std::hint::black_box(x);
        }
    });
}

fn selftest_crash(ctx: &mut Ctx) {
    fn deep(n: u64, o: &mut Obs) -> u64 {
        let pad = [n; 64];
        let r = if n == u64::MAX { 0 } else { deep(n + 1, o) + pad[(n % 64) as usize] };
        std::hint::black_box(r)
    }
    ctx.call("ok", &[1, 2, 3], &|_b, _o| {});
    ctx.call("recurse", &[0xbe, 0xef], &|_b, o| {
        let v = deep(0, o);
        o.note(v);
    });
}

fn all_groups() -> Vec<(&'static str, fn(&mut Ctx))> {
    let mut v: Vec<(&'static str, fn(&mut Ctx))> = GROUPS.to_vec();
    if std::env::var_os("C01_HAND_SELFTEST").is_some() {
        v.extend_from_slice(SELFTEST_GROUPS);
    }
    v
}

// ------------------------------------------------------------------------------------------------
// recorder (child side)

#[derive(Default)]
pub struct Rec {
    pub cases: Vec<(String, String)>,
    pub failures: Vec<(String, String, String)>,
    pub failures_dropped: u64,
    pub checks: u64,
    pub dist: BTreeMap<String, u64>,
}

/// what one call observed: item counts of the drained iterators and a digest of every value seen
pub struct Obs {
    pub items: u64,
    pub over: Option<String>,
    pub digest: u64,
}

impl Obs {
    pub fn new() -> Self {
        Obs { items: 0, over: None, digest: 0xcbf2_9ce4_8422_2325 }
    }
    #[inline]
    pub fn note(&mut self, v: u64) {
        self.digest = (self.digest ^ v).wrapping_mul(0x0000_0100_0000_01b3);
    }
    pub fn note_bytes(&mut self, b: &[u8]) {
        self.note(b.len() as u64);
        for x in b {
            self.note(*x as u64);
        }
    }
    pub fn note_str(&mut self, s: &str) {
        self.note_bytes(s.as_bytes())
    }
    /// `Ok`/`Err` discriminant (+ the error's Debug text, which holds no addresses)
    pub fn res<T, E: std::fmt::Debug>(&mut self, r: &Result<T, E>) -> bool {
        match r {
            Ok(_) => {
                self.note(1);
                true
            }
            Err(e) => {
                self.note(2);
                self.note_str(&format!("{e:?}"));
                false
            }
        }
    }
    /// Drain `it`, at most `cap + 1` items; more than `cap` items is the `iter-bounded` failure.
    pub fn drain<I: Iterator>(&mut self, name: &str, cap: usize, it: I, mut f: impl FnMut(&mut Obs, I::Item)) -> usize {
        let mut n = 0usize;
        for x in it {
            n += 1;
            if n > cap {
                if self.over.is_none() {
                    self.over = Some(format!("{name}: more than {cap} items"));
                }
                break;
            }
            f(self, x);
        }
        self.items += n as u64;
        self.note(n as u64);
        n
    }
}

static PROGRESS: AtomicU64 = AtomicU64::new(0);
static CURRENT: Mutex<(String, Vec<u8>)> = Mutex::new((String::new(), Vec::new()));
static TRACE: Mutex<Option<std::fs::File>> = Mutex::new(None);

pub struct Ctx<'a> {
    pub rec: &'a mut Rec,
    pub rng: Rng,
    pub thorough: bool,
    pub group: &'static str,
    calls: u64,
    scratch: Vec<u8>,
}

/// a generated input: bytes + the positions (offset, width in bytes) of its count / offset / length
/// fields
#[derive(Clone, Default)]
pub struct B {
    pub v: Vec<u8>,
    pub fields: Vec<(usize, u8)>,
}

impl B {
    pub fn new() -> Self {
        B::default()
    }
    pub fn len(&self) -> usize {
        self.v.len()
    }
    pub fn u8(&mut self, x: u8) -> &mut Self {
        self.v.push(x);
        self
    }
    pub fn u16(&mut self, x: u16) -> &mut Self {
        self.v.extend_from_slice(&x.to_be_bytes());
        self
    }
    pub fn i16(&mut self, x: i16) -> &mut Self {
        self.v.extend_from_slice(&x.to_be_bytes());
        self
    }
    pub fn u24(&mut self, x: u32) -> &mut Self {
        self.v.extend_from_slice(&x.to_be_bytes()[1..]);
        self
    }
    pub fn u32(&mut self, x: u32) -> &mut Self {
        self.v.extend_from_slice(&x.to_be_bytes());
        self
    }
    pub fn i32(&mut self, x: i32) -> &mut Self {
        self.v.extend_from_slice(&x.to_be_bytes());
        self
    }
    pub fn tag(&mut self, t: &[u8; 4]) -> &mut Self {
        self.v.extend_from_slice(t);
        self
    }
    /// field variants: same as above but registered as count / offset / length field
    pub fn f8(&mut self, x: u8) -> &mut Self {
        self.fields.push((self.v.len(), 1));
        self.u8(x)
    }
    pub fn f16(&mut self, x: u16) -> &mut Self {
        self.fields.push((self.v.len(), 2));
        self.u16(x)
    }
    pub fn f24(&mut self, x: u32) -> &mut Self {
        self.fields.push((self.v.len(), 3));
        self.u24(x)
    }
    pub fn f32(&mut self, x: u32) -> &mut Self {
        self.fields.push((self.v.len(), 4));
        self.u32(x)
    }
    pub fn bytes(&mut self, b: &[u8]) -> &mut Self {
        self.v.extend_from_slice(b);
        self
    }
    pub fn zeros(&mut self, n: usize) -> &mut Self {
        self.v.resize(self.v.len() + n, 0);
        self
    }
    pub fn set16(&mut self, pos: usize, x: u16) {
        self.v[pos..pos + 2].copy_from_slice(&x.to_be_bytes());
    }
    pub fn set32(&mut self, pos: usize, x: u32) {
        self.v[pos..pos + 4].copy_from_slice(&x.to_be_bytes());
    }
    /// append another block; its fields are shifted
    pub fn append(&mut self, o: &B) -> usize {
        let at = self.v.len();
        for (p, w) in &o.fields {
            self.fields.push((at + p, *w));
        }
        self.v.extend_from_slice(&o.v);
        at
    }
    /// mark an already written position as a field
    pub fn mark(&mut self, pos: usize, w: u8) {
        self.fields.push((pos, w));
    }
}

fn put_be(v: &mut [u8], pos: usize, w: u8, x: u64) {
    for i in 0..w as usize {
        v[pos + i] = (x >> (8 * (w as usize - 1 - i))) as u8;
    }
}

fn get_be(v: &[u8], pos: usize, w: u8) -> u64 {
    let mut x = 0u64;
    for i in 0..w as usize {
        x = (x << 8) | v[pos + i] as u64;
    }
    x
}

impl<'a> Ctx<'a> {
    pub fn count(&mut self, key: &str) {
        *self.rec.dist.entry(format!("hand.{}.{}", self.group, key)).or_insert(0) += 1;
    }
    pub fn count_n(&mut self, key: &str, n: u64) {
        *self.rec.dist.entry(format!("hand.{}.{}", self.group, key)).or_insert(0) += n;
    }
    pub fn case(&mut self, req: String, resp: String) {
        self.rec.cases.push((req, resp));
    }
    pub fn oracle(&mut self, name: &str, ok: bool, input: impl FnOnce() -> String, detail: impl FnOnce() -> String) {
        self.rec.checks += 1;
        if !ok {
            if self.rec.failures.len() < 2000 {
                self.rec.failures.push((format!("hand.{}.{}", self.group, name), input(), detail()));
            } else {
                self.rec.failures_dropped += 1;
            }
        }
    }

    /// One call of the real code on `bytes` (`what` names the entry point + external arguments):
    /// no-panic, iter-bounded and (sampled) purity oracles.  Returns the observation if the call
    /// returned.
    pub fn call(&mut self, what: &str, bytes: &[u8], f: &dyn Fn(&[u8], &mut Obs)) -> Option<Obs> {
        self.calls += 1;
        PROGRESS.fetch_add(1, Ordering::Relaxed);
        {
            let mut cur = CURRENT.lock().unwrap();
            cur.0.clear();
            cur.0.push_str(what);
            cur.1.clear();
            cur.1.extend_from_slice(bytes);
        }
        if let Some(t) = TRACE.lock().unwrap().as_mut() {
            use std::io::Write;
            let _ = writeln!(t, "{} {}", what, hex(bytes));
            let _ = t.flush();
        }
        let mut obs = Obs::new();
        let r = catch(|| f(bytes, &mut obs));
        let input = || format!("{} {}", what, hex(bytes));
        match r {
            Err(msg) => {
                self.oracle("no-panic", false, input, || format!("panicked: {msg}"));
                None
            }
            Ok(()) => {
                self.oracle("no-panic", true, String::new, String::new);
                let over = obs.over.clone();
                self.oracle("iter-bounded", over.is_none(), input, || over.clone().unwrap_or_default());
                if self.calls % 8 == 0 {
                    // same bytes at an odd address: the observation must not change
                    let mut sc = std::mem::take(&mut self.scratch);
                    sc.clear();
                    sc.push(0xA5);
                    sc.extend_from_slice(bytes);
                    let mut o2 = Obs::new();
                    let r2 = catch(|| f(&sc[1..], &mut o2));
                    self.scratch = sc;
                    let same = matches!(r2, Ok(())) && o2.digest == obs.digest && o2.items == obs.items;
                    self.oracle("pure", same, input, || format!("digest {} items {} vs digest {} items {}", obs.digest, obs.items, o2.digest, o2.items));
                }
                Some(obs)
            }
        }
    }

    /// Drive `f` on a generated input and all its variants.
    pub fn drive(&mut self, what: &str, b: &B, f: &dyn Fn(&[u8], &mut Obs)) {
        let base = &b.v;
        let n = base.len();
        self.count("bases");
        // the unmodified input
        self.call(what, base, f);
        // (i) prefix truncations
        let mut cuts: Vec<usize> = vec![];
        if n <= 320 {
            cuts.extend(0..n);
        } else {
            cuts.extend(0..192);
            cuts.extend(n - 64..n);
            for (p, w) in &b.fields {
                for d in [0usize, 1] {
                    cuts.push((*p + d).min(n - 1));
                    cuts.push((*p + *w as usize + d).min(n - 1));
                }
            }
            for _ in 0..48 {
                cuts.push(self.rng.below(n as u64) as usize);
            }
            cuts.sort();
            cuts.dedup();
        }
        for c in cuts {
            self.call(what, &base[..c], f);
        }
        // (ii) field boundary values
        let mut m = base.clone();
        for (p, w) in &b.fields {
            if *p + *w as usize > n {
                continue;
            }
            let max = if *w == 8 { u64::MAX } else { (1u64 << (8 * *w as u32)) - 1 };
            let cur = get_be(base, *p, *w);
            let rest = (n - *p) as u64;
            let mut vals = vec![
                0,
                1,
                max - 1,
                max,
                max / 2,
                max / 2 + 1,
                n as u64,
                n as u64 + 1,
                (n as u64).saturating_sub(1),
                rest,
                rest + 1,
                rest / 2,
                rest / 4,
                cur.wrapping_add(1),
                cur.wrapping_sub(1),
                cur.wrapping_mul(2),
            ];
            vals.sort();
            vals.dedup();
            for v in vals {
                let v = v & max;
                if v == cur {
                    continue;
                }
                put_be(&mut m, *p, *w, v);
                self.call(what, &m, f);
                // boundary value + truncation right after the field's own record
                put_be(&mut m, *p, *w, cur);
            }
        }
        // (iii) random flips, random tails, random bytes behind the original head
        let k = if self.thorough { 48 } else { 12 };
        for _ in 0..k {
            if n == 0 {
                break;
            }
            m.clear();
            m.extend_from_slice(base);
            let flips = 1 + self.rng.below(3) as usize;
            for _ in 0..flips {
                let p = self.rng.below(n as u64) as usize;
                m[p] = match self.rng.below(4) {
                    0 => 0,
                    1 => 0xFF,
                    2 => m[p] ^ (1 << self.rng.below(8)),
                    _ => self.rng.next() as u8,
                };
            }
            self.call(what, &m, f);
        }
        for _ in 0..k / 2 {
            // keep a head (format / header) and randomise the rest
            let keep = if n == 0 { 0 } else { self.rng.below(n.min(12) as u64 + 1) as usize };
            let extra = self.rng.below(48) as usize;
            m.clear();
            m.extend_from_slice(&base[..keep]);
            let tail = self.rng.bytes((n - keep).min(96) + extra);
            m.extend_from_slice(&tail);
            self.call(what, &m, f);
        }
    }

    /// purely random buffers (short ones exhaustively biased towards small values)
    pub fn drive_random(&mut self, what: &str, count: usize, max_len: usize, f: &dyn Fn(&[u8], &mut Obs)) {
        for _ in 0..count {
            let n = self.rng.below(max_len as u64 + 1) as usize;
            let mut v = self.rng.bytes(n);
            if self.rng.chance(1, 2) {
                // small values make counts and offsets plausible
                for x in v.iter_mut() {
                    if self.rng.chance(2, 3) {
                        *x &= 0x07;
                    }
                }
            }
            self.call(what, &v, f);
        }
    }
}

/// `below` random length, random bytes
pub fn rbytes(rng: &mut Rng, below: u64) -> Vec<u8> {
    let n = rng.below(below) as usize;
    rng.bytes(n)
}

/// boundary-dense u16 arguments around the given interesting values
pub fn edge16(vals: &[u32]) -> Vec<u16> {
    let mut v: Vec<u32> = vec![0, 1, 2, 0x7F, 0x80, 0xFF, 0x100, 0x7FFF, 0x8000, 0xFFFE, 0xFFFF];
    for x in vals {
        for d in [-1i64, 0, 1] {
            let y = *x as i64 + d;
            if (0..=0xFFFF).contains(&y) {
                v.push(y as u32);
            }
        }
    }
    v.sort();
    v.dedup();
    v.into_iter().map(|x| x as u16).collect()
}

/// boundary-dense u32 arguments
pub fn edge32(vals: &[u64]) -> Vec<u32> {
    let mut v: Vec<u64> = vec![0, 1, 2, 0xFF, 0x100, 0xFFFF, 0x10000, 0x10FFFF, 0x110000, 0xFFFFFF, 0x1000000, 0x7FFF_FFFF, 0x8000_0000, 0xFFFF_FFFE, 0xFFFF_FFFF];
    for x in vals {
        for d in [-1i64, 0, 1] {
            let y = *x as i64 + d;
            if (0..=0xFFFF_FFFFi64).contains(&y) {
                v.push(y as u64);
            }
        }
    }
    v.sort();
    v.dedup();
    v.into_iter().map(|x| x as u32).collect()
}

pub fn edge_usize(vals: &[usize]) -> Vec<usize> {
    let mut v: Vec<usize> = vec![0, 1, 2, 0xFF, 0xFFFF, 0x10000, u32::MAX as usize, u32::MAX as usize + 1, usize::MAX / 2, usize::MAX - 1, usize::MAX];
    for x in vals {
        v.push(x.wrapping_sub(1));
        v.push(*x);
        v.push(x.wrapping_add(1));
    }
    v.sort();
    v.dedup();
    v
}

// ------------------------------------------------------------------------------------------------
// child / parent plumbing

fn seed_for(seed: u64, group: &str) -> u64 {
    let mut h = 0xcbf2_9ce4_8422_2325u64 ^ seed;
    for b in group.bytes() {
        h = (h ^ b as u64).wrapping_mul(0x0000_0100_0000_01b3);
    }
    h
}

fn run_group_inproc(group: &'static str, f: fn(&mut Ctx), seed: u64, thorough: bool) -> Rec {
    let mut rec = Rec::default();
    {
        let mut ctx = Ctx { rec: &mut rec, rng: Rng::new(seed_for(seed, group)), thorough, group, calls: 0, scratch: vec![] };
        f(&mut ctx);
        let calls = ctx.calls;
        ctx.count_n("calls", calls);
    }
    rec
}

fn rec_to_json(rec: &Rec) -> Value {
    // report the shortest failing inputs first (at most 12 per oracle, 40 in total)
    let mut fails = rec.failures.clone();
    fails.sort_by(|a, b| (a.1.len(), &a.0, &a.1).cmp(&(b.1.len(), &b.0, &b.1)));
    let mut per: BTreeMap<String, usize> = BTreeMap::new();
    fails.retain(|f| {
        let c = per.entry(f.0.clone()).or_insert(0);
        *c += 1;
        *c <= 12
    });
    fails.truncate(40);
    let dropped = rec.failures_dropped + (rec.failures.len() - fails.len()) as u64;
    json!({
        "cases": rec.cases.iter().map(|(a, b)| json!([a, b])).collect::<Vec<_>>(),
        "failures": fails.iter().map(|(a, b, c)| json!([a, b, c])).collect::<Vec<_>>(),
        "failures_dropped": dropped,
        "checks": rec.checks,
        "dist": rec.dist,
    })
}

/// Entry point of the child process: `C01_HAND_CHILD=<group>`, `C01_HAND_OUT=<file>`,
/// `C01_HAND_SEED`, `C01_HAND_TIER`, optional `C01_HAND_TRACE=<file>`.
pub fn child_main(group: &str) {
    let out = std::env::var("C01_HAND_OUT").expect("C01_HAND_OUT");
    let seed: u64 = std::env::var("C01_HAND_SEED").ok().and_then(|s| s.parse().ok()).unwrap_or(1);
    let thorough = std::env::var("C01_HAND_TIER").map(|t| t == "thorough").unwrap_or(false);
    let limit: u64 = std::env::var("C01_HAND_LIMIT").ok().and_then(|s| s.parse().ok()).unwrap_or(20);
    if let Ok(p) = std::env::var("C01_HAND_TRACE") {
        *TRACE.lock().unwrap() = std::fs::File::create(p).ok();
    }
    let show = std::env::var_os("FV_PANIC_LOC").is_some();
    std::panic::set_hook(Box::new(move |info| {
        if show {
            eprintln!("PANIC at {:?}", info.location().map(|l| format!("{}:{}", l.file(), l.line())));
        }
    }));
    let groups = all_groups();
    let Some((name, f)) = groups.iter().find(|(n, _)| *n == group) else {
        eprintln!("unknown hand group {group}");
        std::process::exit(2);
    };
    // watchdog: a call that does not return within `limit` seconds is reported with its input
    let hang_path = format!("{out}.hang");
    std::thread::spawn(move || {
        let mut last = PROGRESS.load(Ordering::Relaxed);
        let mut since = Instant::now();
        loop {
            std::thread::sleep(Duration::from_millis(100));
            let now = PROGRESS.load(Ordering::Relaxed);
            if now != last {
                last = now;
                since = Instant::now();
            } else if now > 0 && since.elapsed() > Duration::from_secs(limit) {
                let cur = CURRENT.lock().map(|c| (c.0.clone(), c.1.clone())).unwrap_or_default();
                let v = json!({"what": cur.0, "input": hex(&cur.1), "seconds": limit});
                let _ = std::fs::write(&hang_path, serde_json::to_vec(&v).unwrap());
                std::process::exit(86);
            }
        }
    });
    let rec = run_group_inproc(name, *f, seed, thorough);
    // the tail of the run (serialisation) counts as progress
    PROGRESS.fetch_add(1, Ordering::Relaxed);
    std::fs::write(&out, serde_json::to_vec(&rec_to_json(&rec)).unwrap()).expect("write child result");
}

fn static_group(name: &str) -> &'static str {
    all_groups().iter().find(|(n, _)| *n == name).map(|(n, _)| *n).unwrap_or("hand")
}

struct ChildOut {
    group: &'static str,
    value: Option<Value>,
    hang: Option<Value>,
    status: String,
    wall: f64,
    crash_input: Option<String>,
}

fn spawn_child(group: &'static str, cfg: &Config, trace: Option<&str>) -> (std::process::ExitStatus, String) {
    let exe = std::env::current_exe().expect("current_exe");
    let out = std::env::temp_dir().join(format!("c01-hand-{}-{}.json", std::process::id(), group));
    let out_s = out.to_string_lossy().to_string();
    let _ = std::fs::remove_file(&out);
    let _ = std::fs::remove_file(format!("{out_s}.hang"));
    let mut cmd = std::process::Command::new(exe);
    cmd.env("C01_HAND_CHILD", group)
        .env("C01_HAND_OUT", &out_s)
        .env("C01_HAND_SEED", cfg.seed.to_string())
        .env("C01_HAND_TIER", &cfg.tier)
        .stdin(std::process::Stdio::null());
    if let Some(t) = trace {
        cmd.env("C01_HAND_TRACE", t);
    }
    let status = cmd.status().expect("spawn hand child");
    (status, out_s)
}

fn run_child(group: &'static str, cfg: &Config) -> ChildOut {
    let t0 = Instant::now();
    let (status, out_s) = spawn_child(group, cfg, None);
    let value = std::fs::read(&out_s).ok().and_then(|b| serde_json::from_slice::<Value>(&b).ok());
    let hang = std::fs::read(format!("{out_s}.hang")).ok().and_then(|b| serde_json::from_slice::<Value>(&b).ok());
    let mut crash_input = None;
    if value.is_none() && hang.is_none() {
        // crashed (abort / stack overflow / killed): find the input by a traced re-run
        let tr = format!("{out_s}.trace");
        let _ = spawn_child(group, cfg, Some(&tr));
        if let Ok(text) = std::fs::read_to_string(&tr) {
            crash_input = text.lines().last().map(|l| l.to_string());
        }
        let _ = std::fs::remove_file(&tr);
    }
    let _ = std::fs::remove_file(&out_s);
    let _ = std::fs::remove_file(format!("{out_s}.hang"));
    ChildOut { group, value, hang, status: format!("{status}"), wall: t0.elapsed().as_secs_f64(), crash_input }
}

fn merge(s: &mut Session, group: &'static str, rec_cases: &[(String, String)], failures: &[(String, String, String)], checks: u64, dist: &BTreeMap<String, u64>) {
    for (req, resp) in rec_cases {
        s.case(group, req.clone(), resp.clone());
    }
    // every recorded oracle evaluation counts; failures are replayed through `oracle`
    for (name, input, detail) in failures {
        s.oracle(name, false, || input.clone(), || detail.clone());
    }
    s.oracle_checks += checks.saturating_sub(failures.len() as u64);
    for (k, v) in dist {
        *s.dist.entry(k.clone()).or_insert(0) += v;
    }
}

pub fn run(cfg: &Config, s: &mut Session) {
    let only = std::env::var("C01_HAND_ONLY").unwrap_or_default();
    let groups: Vec<(&'static str, fn(&mut Ctx))> = all_groups()
        .into_iter()
        .filter(|(n, _)| only.is_empty() || only.split(',').any(|o| o == *n))
        .collect();
    if std::env::var_os("C01_HAND_INPROC").is_some() {
        for (g, f) in groups {
            let rec = run_group_inproc(g, f, cfg.seed, cfg.thorough());
            merge(s, g, &rec.cases, &rec.failures, rec.checks, &rec.dist);
        }
        return;
    }
    let jobs: usize = std::env::var("C01_HAND_JOBS").ok().and_then(|v| v.parse().ok()).unwrap_or(6);
    let next = std::sync::atomic::AtomicUsize::new(0);
    let results: Mutex<Vec<Option<ChildOut>>> = Mutex::new((0..groups.len()).map(|_| None).collect());
    std::thread::scope(|sc| {
        for _ in 0..jobs.min(groups.len()).max(1) {
            sc.spawn(|| loop {
                let i = next.fetch_add(1, Ordering::SeqCst);
                if i >= groups.len() {
                    break;
                }
                let r = run_child(groups[i].0, cfg);
                results.lock().unwrap()[i] = Some(r);
            });
        }
    });
    for r in results.into_inner().unwrap().into_iter().flatten() {
        let g = static_group(r.group);
        s.notes.push(format!("hand group {} wall {:.1}s status {}", g, r.wall, r.status));
        if let Some(h) = &r.hang {
            let what = h["what"].as_str().unwrap_or("").to_string();
            let input = h["input"].as_str().unwrap_or("").to_string();
            let secs = h["seconds"].as_u64().unwrap_or(0);
            s.oracle(&format!("hand.{g}.time-bounded"), false, || format!("{what} {input}"), || format!("call did not return within {secs} s"));
            continue;
        }
        match &r.value {
            None => {
                let ci = r.crash_input.clone().unwrap_or_else(|| "<unknown>".into());
                s.oracle(&format!("hand.{g}.no-crash"), false, || ci.clone(), || format!("child process died: {}", r.status));
            }
            Some(v) => {
                let cases: Vec<(String, String)> = v["cases"]
                    .as_array()
                    .map(|a| a.iter().map(|c| (c[0].as_str().unwrap_or("").to_string(), c[1].as_str().unwrap_or("").to_string())).collect())
                    .unwrap_or_default();
                let failures: Vec<(String, String, String)> = v["failures"]
                    .as_array()
                    .map(|a| {
                        a.iter()
                            .map(|c| (c[0].as_str().unwrap_or("").to_string(), c[1].as_str().unwrap_or("").to_string(), c[2].as_str().unwrap_or("").to_string()))
                            .collect()
                    })
                    .unwrap_or_default();
                let checks = v["checks"].as_u64().unwrap_or(0);
                let dropped = v["failures_dropped"].as_u64().unwrap_or(0);
                if dropped > 0 {
                    *s.dist.entry(format!("hand.{g}.oracle_failures_not_listed")).or_insert(0) += dropped;
                }
                let dist: BTreeMap<String, u64> = v["dist"].as_object().map(|o| o.iter().map(|(k, x)| (k.clone(), x.as_u64().unwrap_or(0))).collect()).unwrap_or_default();
                merge(s, g, &cases, &failures, checks, &dist);
                s.oracle(&format!("hand.{g}.no-crash"), true, String::new, String::new);
                s.oracle(&format!("hand.{g}.time-bounded"), true, String::new, String::new);
            }
        }
    }
}
