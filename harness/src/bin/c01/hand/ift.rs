//! Incremental font transfer tables (read-fonts/src/tables/ift.rs, feature `ift`): patch map
//! formats 1 / 2, glyph map / feature map with their external read arguments, the variable-width
//! id types (`U8Or16`, `U16Or24`, `IdDeltaOrLength`), `MatchModeAndCount`, `CompatibilityId`,
//! table keyed and glyph keyed patches (`GlyphPatches::glyph_data_for_table`).
use super::*;
use font_types::{GlyphId, Offset32, Uint24};
use read_fonts::array::ComputedArray;
use read_fonts::tables::ift::{
    CompatibilityId, EntryData, EntryMapRecord, FeatureMap, FeatureRecord, GlyphKeyedFlags, GlyphKeyedPatch, GlyphMap, GlyphPatches, IdDeltaOrLength, Ift, MatchModeAndCount,
    PatchMapFormat1, PatchMapFormat2, TableKeyedPatch, U16Or24, U8Or16,
};
use read_fonts::{ComputeSize, FontData, FontRead, FontReadWithArgs};

fn be16(b: &[u8], at: usize) -> Option<u16> {
    Some(u16::from_be_bytes([*b.get(at)?, *b.get(at + 1)?]))
}

const MAX_ENTRY_INDEXES: [u16; 8] = [0, 1, 7, 8, 255, 256, 257, 0xFFFF];

// ------------------------------------------------------------------------------------------------
// format 1

struct F1Spec {
    max_entry_index: u16,
    glyph_count: u32,
    first_mapped: u16,
    /// entry index per mapped glyph (glyph_count - first_mapped of them, unless hostile)
    entries: Vec<u16>,
    feature_map: bool,
    field_flags: u8,
}

fn put_id(b: &mut B, wide: bool, v: u16) {
    if wide {
        b.u16(v);
    } else {
        b.u8(v as u8);
    }
}

fn format1(rng: &mut Rng, s: &F1Spec) -> B {
    let wide = s.max_entry_index >= 256;
    let mut b = B::new();
    b.f8(1).u8(0).u8(0).u8(0).f8(s.field_flags);
    b.bytes(&rng.bytes(16));
    b.f16(s.max_entry_index).f16(s.max_entry_index.min(rng.below(300) as u16));
    b.f24(s.glyph_count);
    let gm_at = b.len();
    b.f32(0);
    let fm_at = b.len();
    b.f32(0);
    let bitmap_len = s.max_entry_index as usize / 8 + 1;
    let mut bitmap = rng.bytes(bitmap_len);
    if rng.chance(1, 3) {
        bitmap.fill(0xFF);
    }
    b.bytes(&bitmap);
    let uri: &[u8] = match rng.below(4) {
        0 => b"",
        1 => b"//foo.bar/{id}",
        2 => b"\xFF\xFE{id}",
        _ => b"a",
    };
    b.f16(uri.len() as u16);
    b.bytes(uri);
    b.u8(rng.below(4) as u8);
    if s.field_flags & 1 != 0 {
        b.u32(rng.next() as u32);
    }
    if s.field_flags & 2 != 0 {
        b.u32(rng.next() as u32);
    }
    // glyph map
    let at = b.len();
    b.set32(gm_at, at as u32);
    b.f16(s.first_mapped);
    for e in &s.entries {
        put_id(&mut b, wide, *e);
    }
    if s.feature_map {
        let at = b.len();
        b.set32(fm_at, at as u32);
        let n = rng.below(4) as u16;
        b.f16(n);
        let mut counts = vec![];
        for k in 0..n {
            b.tag(&[b'l', b'i', b'g', b'a' + k as u8]);
            put_id(&mut b, wide, rng.below(s.max_entry_index as u64 + 1) as u16);
            let c = rng.below(3) as u16;
            counts.push(c);
            put_id(&mut b, wide, c);
        }
        for c in counts {
            for _ in 0..c {
                put_id(&mut b, wide, rng.below(s.max_entry_index as u64 + 1) as u16);
                put_id(&mut b, wide, rng.below(s.max_entry_index as u64 + 1) as u16);
            }
        }
        if rng.chance(1, 3) {
            {
                let n = 1 + rng.below(3) as usize;
                b.bytes(&rng.bytes(n));
            }
        }
    }
    b
}

fn note_u8or16_array(o: &mut Obs, name: &str, len: usize, a: &ComputedArray<U8Or16>, marks: &[usize]) {
    o.note(a.len() as u64);
    o.note(a.is_empty() as u64);
    // one or two bytes per item
    let n_iter = o.drain(name, len + 1, a.iter(), |o, v| {
        if o.res(&v) {
            o.note(v.unwrap().get() as u64);
        }
    });
    if n_iter != a.len() && o.over.is_none() {
        o.over = Some(format!("{name} yields {n_iter} items, len() = {}", a.len()));
    }
    let mut m = vec![a.len()];
    m.extend_from_slice(marks);
    for i in edge_usize(&m) {
        let v = a.get(i);
        if o.res(&v) {
            o.note(v.unwrap().get() as u64);
        }
    }
}

fn walk_feature_map(o: &mut Obs, len: usize, fm: &FeatureMap, max_entry_index: u16) {
    o.note(fm.feature_count() as u64);
    let recs = fm.feature_records();
    o.note(recs.len() as u64);
    // tag + two ids: at least 6 bytes per record
    let n_iter = o.drain("feature_records.iter", len / 6 + 1, recs.iter(), |o, r| {
        if o.res(&r) {
            let r = r.unwrap();
            o.note_bytes(&r.feature_tag().to_be_bytes());
            o.note(r.first_new_entry_index().get() as u64);
            o.note(r.entry_map_count().get() as u64);
        }
    });
        if n_iter != recs.len() && o.over.is_none() {
            o.over = Some(format!("feature_records.iter yields {n_iter} items, len() = {}", recs.len()));
        }
    for i in edge_usize(&[recs.len(), fm.feature_count() as usize]) {
        let r = recs.get(i);
        if o.res(&r) {
            o.note(r.unwrap().entry_map_count().get() as u64);
        }
    }
    let emd = fm.entry_map_data();
    o.note(emd.len() as u64);
    for mei in [max_entry_index, 0, 255, 256, 0xFFFF] {
        let r = fm.entry_records_size(mei);
        if o.res(&r) {
            o.note(*r.as_ref().unwrap() as u64);
        }
        // two ids of one or two bytes per entry map record
        {
            let mut want = Ok(0usize);
            for rec in recs.iter() {
                match (rec, &mut want) {
                    (Ok(rec), Ok(w)) => *w += rec.entry_map_count().get() as usize * if mei < 256 { 2 } else { 4 },
                    (Err(e), _) => want = Err(e),
                    _ => {}
                }
            }
            if want != r && o.over.is_none() {
                o.over = Some(format!("entry_records_size({mei}) = {r:?}, expected {want:?}"));
            }
        }
        // the entry map records behind the feature records
        if let Ok(a) = ComputedArray::<EntryMapRecord>::new(FontData::new(emd), mei) {
            o.note(a.len() as u64);
            let n_iter = o.drain("entry_map_records.iter", len / 2 + 1, a.iter(), |o, r| {
                if o.res(&r) {
                    let r = r.unwrap();
                    o.note(r.first_entry_index().get() as u64);
                    o.note(r.last_entry_index().get() as u64);
                }
            });
        if n_iter != a.len() && o.over.is_none() {
            o.over = Some(format!("entry_map_records.iter yields {n_iter} items, len() = {}", a.len()));
        }
            for i in edge_usize(&[a.len()]) {
                o.res(&a.get(i));
            }
        }
    }
}

fn walk_format1(o: &mut Obs, len: usize, t: &PatchMapFormat1) {
    let mei = t.max_entry_index();
    let glyph_count = t.glyph_count().to_u32();
    o.note(mei as u64);
    o.note(t.max_glyph_map_entry_index() as u64);
    o.note(glyph_count as u64);
    o.note(t.entry_count() as u64);
    if t.entry_count() != mei as u32 + 1 {
        o.over = Some("entry_count != max_entry_index + 1".into());
    }
    o.note(t.patch_format() as u64);
    o.note_bytes(t.compatibility_id().as_slice());
    let r = t.uri_template_as_string();
    if o.res(&r) {
        o.note_str(r.unwrap());
    }
    let bitmap = t.applied_entries_bitmap();
    o.note(bitmap.len() as u64);
    for i in edge16(&[mei as u32, (bitmap.len() * 8) as u32, (bitmap.len() * 8).saturating_sub(8) as u32, 7, 8, 9, 15, 16]) {
        let got = t.is_entry_applied(i);
        let want = bitmap.get(i as usize / 8).map(|b| b & (1 << (i % 8)) != 0).unwrap_or(false);
        o.note(got as u64);
        if got != want && o.over.is_none() {
            o.over = Some(format!("is_entry_applied({i}) = {got}, bitmap says {want}"));
        }
    }
    // glyph_count - first_mapped_glyph entries of at least one byte each
    let mut n_seen = 0u64;
    o.drain("gid_to_entry_iter", len + 1, t.gid_to_entry_iter(), |o, (g, e)| {
        n_seen += 1;
        o.note(g.to_u32() as u64);
        o.note(e as u64);
        if (e == 0 || g.to_u32() >= glyph_count) && o.over.is_none() {
            o.over = Some(format!("gid_to_entry_iter yields ({g}, {e}) for glyph_count {glyph_count}"));
        }
    });
    let gm = t.glyph_map();
    if o.res(&gm) {
        let gm = gm.unwrap();
        let first = gm.first_mapped_glyph();
        o.note(first as u64);
        let a = gm.entry_index();
        let want_len = (glyph_count as usize).saturating_sub(first as usize);
        if a.len() != want_len && o.over.is_none() {
            o.over = Some(format!("entry_index has {} items for glyph_count {glyph_count} first_mapped_glyph {first}", a.len()));
        }
        note_u8or16_array(o, "entry_index.iter", len, &a, &[glyph_count as usize, first as usize]);
    }
    if let Some(fm) = t.feature_map() {
        if o.res(&fm) {
            walk_feature_map(o, len, &fm.unwrap(), mei);
        }
    }
}

fn walk_format2(o: &mut Obs, len: usize, t: &PatchMapFormat2) {
    o.note(t.default_patch_format() as u64);
    o.note(t.entry_count().to_u32() as u64);
    o.note_bytes(t.compatibility_id().as_slice());
    let r = t.uri_template_as_string();
    if o.res(&r) {
        o.note_str(r.unwrap());
    }
    let sd_off = t.entry_id_string_data_offset();
    if let Some(sd) = t.entry_id_string_data() {
        if o.res(&sd) {
            o.note(sd.unwrap().id_data().len() as u64);
        }
    }
    let e = t.entries();
    if o.res(&e) {
        let data = e.unwrap().entry_data();
        o.note(data.len() as u64);
        for at in 0..data.len().min(40) {
            for off in [*sd_off.offset(), Offset32::new(0), Offset32::new(1)] {
                let r = EntryData::read(FontData::new(&data[at..]), off);
                if o.res(&r) {
                    note_entry(o, &r.unwrap());
                }
            }
        }
    }
    let _ = len;
}

fn note_entry(o: &mut Obs, e: &EntryData) {
    o.note(e.format_flags().bits() as u64);
    o.note(e.feature_count().map(|v| v as u64 + 1).unwrap_or(0));
    o.note(e.feature_tags().map(|v| v.len() as u64 + 1).unwrap_or(0));
    o.note(e.design_space_count().map(|v| v as u64 + 1).unwrap_or(0));
    if let Some(s) = e.design_space_segments() {
        for d in s.iter().take(8) {
            o.note(d.start().to_bits() as u32 as u64);
            o.note(d.end().to_bits() as u32 as u64);
        }
    }
    if let Some(m) = e.match_mode_and_count() {
        o.note(m.bits() as u64);
        o.note(m.count() as u64);
        o.note(m.conjunctive_match() as u64);
        let n: Result<usize, _> = m.try_into();
        o.res(&n);
        let ci = e.child_indices().map(|c| c.len());
        if ci != Some(m.count() as usize) && o.over.is_none() {
            o.over = Some(format!("child_indices {ci:?} for match mode and count {:#x}", m.bits()));
        }
    }
    o.note(e.entry_id_delta().map(|d| d.into_inner() as u32 as u64 + 1).unwrap_or(0));
    o.note(e.patch_format().map(|v| v as u64 + 1).unwrap_or(0));
    o.note(e.codepoint_data().len() as u64);
}

fn walk_ift(bytes: &[u8], o: &mut Obs) {
    let len = bytes.len();
    let r = Ift::read(FontData::new(bytes));
    if !o.res(&r) {
        return;
    }
    let ift = r.unwrap();
    o.note(ift.format() as u64);
    o.note(ift.field_flags().bits() as u64);
    o.note_bytes(ift.compatibility_id().as_slice());
    o.note(ift.uri_template_length() as u64);
    o.note_bytes(ift.uri_template());
    o.note(ift.cff_charstrings_offset().map(|v| v as u64 + 1).unwrap_or(0));
    o.note(ift.cff2_charstrings_offset().map(|v| v as u64 + 1).unwrap_or(0));
    match &ift {
        Ift::Format1(t) => walk_format1(o, len, t),
        Ift::Format2(t) => walk_format2(o, len, t),
    }
}

fn f1_spec(rng: &mut Rng, mei: u16) -> F1Spec {
    let glyph_count = match rng.below(8) {
        0 => 0,
        1 => 1,
        _ => 2 + rng.below(10) as u32,
    };
    let first_mapped = match rng.below(8) {
        0 => glyph_count as u16,
        1 => glyph_count as u16 + 1,
        2 => 0,
        3 => 0xFFFF,
        _ => rng.below(glyph_count as u64 + 1) as u16,
    };
    let mut n = (glyph_count as usize).saturating_sub(first_mapped as usize);
    match rng.below(10) {
        0 => n += 1,
        1 => n = n.saturating_sub(1),
        _ => {}
    }
    let entries = (0..n).map(|_| if rng.chance(1, 3) { 0 } else { rng.below(mei as u64 + 1) as u16 }).collect();
    F1Spec { max_entry_index: mei, glyph_count, first_mapped, entries, feature_map: rng.chance(2, 3), field_flags: rng.below(4) as u8 | if rng.chance(1, 8) { 0x80 } else { 0 } }
}

fn run_format1(ctx: &mut Ctx) {
    let rounds = if ctx.thorough { 400 } else { 72 };
    for round in 0..rounds {
        let mei = MAX_ENTRY_INDEXES[round % MAX_ENTRY_INDEXES.len()];
        if mei == 0xFFFF && round >= 16 && !ctx.thorough {
            continue;
        }
        let spec = f1_spec(&mut ctx.rng, mei);
        let b = format1(&mut ctx.rng, &spec);
        ctx.drive("ift1", &b, &walk_ift);
        ctx.count(&format!("format1.max_entry_index{mei}"));
        // relational: the iterator yields exactly the mapped glyphs with a non-zero entry
        let clean = spec.entries.len() == (spec.glyph_count as usize).saturating_sub(spec.first_mapped as usize);
        if clean {
            if let Ok(Ift::Format1(t)) = Ift::read(FontData::new(&b.v)) {
                let wide = mei >= 256;
                let want: Vec<(u32, u16)> = spec.entries.iter().enumerate().map(|(i, e)| (spec.first_mapped as u32 + i as u32, if wide { *e } else { *e & 0xFF })).filter(|(_, e)| *e > 0).collect();
                let got = catch(|| t.gid_to_entry_iter().take(100).map(|(g, e)| (g.to_u32(), e)).collect::<Vec<_>>());
                ctx.oracle("ift.gid-to-entry", got.as_ref() == Ok(&want), || format!("ift1 {}", hex(&b.v)), || format!("expected {want:?} got {got:?}"));
                ctx.count("format1.clean");
            }
        }
    }
}

// ------------------------------------------------------------------------------------------------
// glyph map / feature map / records with external arguments

/// `[glyph_count u24][max_entry_index u16][glyph map]`
fn walk_glyph_map(bytes: &[u8], o: &mut Obs) {
    if bytes.len() < 5 {
        return;
    }
    let gc = u32::from_be_bytes([0, bytes[0], bytes[1], bytes[2]]);
    let mei = be16(bytes, 3).unwrap();
    let data = &bytes[5..];
    let first = be16(data, 0).unwrap_or(0) as u32;
    let mut gcs = vec![gc, 0, 1, 255, 256, 0xFFFF, 0x10000, 0xFF_FFFF, first, first + 1, first.saturating_sub(1)];
    gcs.dedup();
    let mut meis = vec![mei, 0, 255, 256, 0xFFFF];
    meis.dedup();
    for gc in gcs {
        for mei in &meis {
            let r = GlyphMap::read(FontData::new(data), Uint24::new(gc), *mei);
            if o.res(&r) {
                let gm = r.unwrap();
                o.note(gm.first_mapped_glyph() as u64);
                let a = gm.entry_index();
                let want = (gc as usize).saturating_sub(gm.first_mapped_glyph() as usize);
                if a.len() != want && o.over.is_none() {
                    o.over = Some(format!("entry_index has {} items, glyph_count {gc} first {}", a.len(), gm.first_mapped_glyph()));
                }
                note_u8or16_array(o, "entry_index.iter", data.len(), &a, &[gc as usize]);
            }
        }
    }
}

/// `[max_entry_index u16][feature map]`
fn walk_feature_map_args(bytes: &[u8], o: &mut Obs) {
    let Some(mei) = be16(bytes, 0) else { return };
    let data = &bytes[2..];
    let mut meis = vec![mei, 0, 255, 256, 0xFFFF];
    meis.dedup();
    for mei in meis {
        let r = FeatureMap::read(FontData::new(data), mei);
        if o.res(&r) {
            walk_feature_map(o, data.len(), &r.unwrap(), mei);
        }
        let r = FeatureRecord::read(FontData::new(data), mei);
        if o.res(&r) {
            let r = r.unwrap();
            o.note(r.first_new_entry_index().get() as u64);
            o.note(r.entry_map_count().get() as u64);
        }
        o.res(&FeatureRecord::compute_size(&mei));
        let r = EntryMapRecord::read(FontData::new(data), mei);
        if o.res(&r) {
            let r = r.unwrap();
            o.note(r.first_entry_index().get() as u64);
            o.note(r.last_entry_index().get() as u64);
        }
        o.res(&EntryMapRecord::compute_size(&mei));
    }
}

/// the variable width scalars
fn walk_ids(bytes: &[u8], o: &mut Obs) {
    let data = FontData::new(bytes);
    for mei in [0u16, 1, 254, 255, 256, 257, 0xFFFF] {
        let size = U8Or16::compute_size(&mei);
        o.res(&size);
        let r = U8Or16::read_with_args(data, &mei);
        if o.res(&r) {
            o.note(r.as_ref().unwrap().get() as u64);
        }
        // the value read is exactly `size` bytes wide
        let want = if mei < 256 { bytes.first().map(|v| *v as u16) } else { be16(bytes, 0) };
        if r.as_ref().ok().map(|v| v.get()) != want || size != Ok(if mei < 256 { 1 } else { 2 }) {
            o.over = Some(format!("U8Or16 with max_entry_index {mei}: {r:?}, expected {want:?}"));
        }
    }
    let be24 = bytes.get(..3).map(|b| u32::from_be_bytes([0, b[0], b[1], b[2]]));
    for bits in [0u8, 1, 2, 3, 0xFF] {
        let flags = GlyphKeyedFlags::from_bits_truncate(bits);
        let size = U16Or24::compute_size(&flags);
        o.res(&size);
        let r = U16Or24::read_with_args(data, &flags);
        if o.res(&r) {
            o.note(r.as_ref().unwrap().get() as u64);
        }
        let wide = bits & 1 != 0;
        let want = if wide { be24 } else { be16(bytes, 0).map(|v| v as u32) };
        if (r.as_ref().ok().map(|v| v.get()) != want || size != Ok(if wide { 3 } else { 2 })) && o.over.is_none() {
            o.over = Some(format!("U16Or24 with flags {bits:#x}: {r:?}, expected {want:?}"));
        }
    }
    for off in [0u32, 1, 0xFFFF_FFFF] {
        let off = Offset32::new(off);
        let size = IdDeltaOrLength::compute_size(&off);
        o.res(&size);
        let r = IdDeltaOrLength::read_with_args(data, &off);
        if o.res(&r) {
            o.note(r.as_ref().unwrap().into_inner() as u32 as u64);
        }
        // without id string data: a signed 24 bit delta, with: an unsigned 16 bit length
        let null = off.to_u32() == 0;
        let want = if null { be24.map(|v| ((v << 8) as i32) >> 8) } else { be16(bytes, 0).map(|v| v as i32) };
        if (r.as_ref().ok().map(|v| v.into_inner()) != want || size != Ok(if null { 3 } else { 2 })) && o.over.is_none() {
            o.over = Some(format!("IdDeltaOrLength with offset {}: {r:?}, expected {want:?}", off.to_u32()));
        }
    }
}

fn run_args(ctx: &mut Ctx) {
    for round in 0..(if ctx.thorough { 400 } else { 72 }) {
        let mei = MAX_ENTRY_INDEXES[round % MAX_ENTRY_INDEXES.len()];
        let wide = mei >= 256;
        let gc = ctx.rng.below(10) as u32;
        let first = ctx.rng.below(gc as u64 + 2) as u16;
        let mut b = B::new();
        b.f24(gc).f16(mei).f16(first);
        for _ in 0..(gc as usize).saturating_sub(first as usize) {
            put_id(&mut b, wide, ctx.rng.below(mei as u64 + 1) as u16);
        }
        if round % 3 == 0 {
            b.bytes(&ctx.rng.bytes(2));
        }
        ctx.drive("glyph-map", &b, &walk_glyph_map);
        // feature map
        let mut b = B::new();
        b.f16(mei);
        let n = ctx.rng.below(4) as u16;
        b.f16(n);
        let mut total = 0;
        for _ in 0..n {
            b.tag(b"liga");
            put_id(&mut b, wide, 1);
            let c = match ctx.rng.below(5) {
                0 => 0xFFFF,
                c => c as u16,
            };
            total += (c as usize).min(6);
            put_id(&mut b, wide, c);
        }
        for _ in 0..total {
            put_id(&mut b, wide, ctx.rng.below(9) as u16);
            put_id(&mut b, wide, ctx.rng.below(9) as u16);
        }
        ctx.drive("feature-map", &b, &walk_feature_map_args);
    }
    ctx.drive_random("glyph-map", if ctx.thorough { 6000 } else { 1000 }, 24, &walk_glyph_map);
    ctx.drive_random("feature-map", if ctx.thorough { 6000 } else { 1000 }, 40, &walk_feature_map_args);
    for n in 0..5usize {
        for _ in 0..8 {
            let v = ctx.rng.bytes(n);
            ctx.call("ids", &v, &walk_ids);
        }
    }
    // MatchModeAndCount / CompatibilityId on every bit pattern
    ctx.call("scalars", &[], &|_b, o| {
        for bits in 0..=255u8 {
            let m = MatchModeAndCount::from_bits(bits);
            let n: Result<usize, _> = m.try_into();
            let ok = m.bits() == bits && m.count() == bits & 0x7F && m.conjunctive_match() == (bits & 0x80 != 0) && n == Ok((bits & 0x7F) as usize);
            if !ok && o.over.is_none() {
                o.over = Some(format!("MatchModeAndCount helpers wrong for {bits:#x}"));
            }
            o.note(m.count() as u64);
        }
        for vals in [[0u32; 4], [u32::MAX; 4], [1, 2, 3, 4], [0x0102_0304, 0x0506_0708, 0x090A_0B0C, 0x0D0E_0F10]] {
            let id = CompatibilityId::from_u32s(vals);
            let mut want = [0u8; 16];
            for (i, v) in vals.iter().enumerate() {
                want[i * 4..i * 4 + 4].copy_from_slice(&v.to_be_bytes());
            }
            if (id.as_slice() != want || id != CompatibilityId::new(want)) && o.over.is_none() {
                o.over = Some("CompatibilityId::from_u32s".into());
            }
            o.note_bytes(id.as_slice());
        }
    });
}

// ------------------------------------------------------------------------------------------------
// format 2 + entry data

/// one encoded entry for the given format flags
fn entry_bytes(rng: &mut Rng, flags: u8, string_data: bool) -> B {
    let mut b = B::new();
    b.f8(flags);
    if flags & 1 != 0 {
        let n = rng.below(3) as u8;
        b.f8(n);
        for _ in 0..n {
            b.tag(b"smcp");
        }
        let d = rng.below(3) as u16;
        b.f16(d);
        for _ in 0..d {
            b.tag(b"wght").i32(rng.next() as i32).i32(rng.next() as i32);
        }
    }
    if flags & 2 != 0 {
        let n = rng.below(4) as u8;
        b.f8(n | if rng.chance(1, 2) { 0x80 } else { 0 });
        for _ in 0..n {
            b.u24(rng.below(40) as u32);
        }
    }
    if flags & 4 != 0 {
        if string_data {
            b.f16(rng.below(6) as u16);
        } else {
            b.u24(rng.next() as u32 & 0xFF_FFFF);
        }
    }
    if flags & 8 != 0 {
        b.u8(rng.below(4) as u8);
    }
    match (flags >> 4) & 3 {
        1 => {
            b.u16(rng.next() as u16);
        }
        2 => {
            b.u24(rng.below(0x11_0000) as u32);
        }
        _ => {}
    }
    if flags & 0x30 != 0 {
        b.bytes(&rbytes(rng, 5));
    }
    b
}

fn format2(rng: &mut Rng, flags_list: &[u8], string_data: bool, field_flags: u8) -> B {
    let mut b = B::new();
    b.f8(2).u8(0).u8(0).u8(0).f8(field_flags);
    b.bytes(&rng.bytes(16));
    b.u8(rng.below(4) as u8);
    b.f24(flags_list.len() as u32);
    let e_at = b.len();
    b.f32(0);
    let s_at = b.len();
    b.f32(0);
    let uri: &[u8] = if rng.chance(1, 2) { b"//x/{id}" } else { b"\xC3" };
    b.f16(uri.len() as u16);
    b.bytes(uri);
    if field_flags & 1 != 0 {
        b.u32(rng.next() as u32);
    }
    if field_flags & 2 != 0 {
        b.u32(rng.next() as u32);
    }
    let at = b.len();
    b.set32(e_at, at as u32);
    for f in flags_list {
        let e = entry_bytes(rng, *f, string_data);
        b.append(&e);
    }
    if string_data {
        let at = b.len();
        b.set32(s_at, at as u32);
        b.bytes(&rbytes(rng, 12));
    }
    b
}

/// `[string data offset u32][entry]`
fn walk_entry(bytes: &[u8], o: &mut Obs) {
    if bytes.len() < 4 {
        return;
    }
    let off = u32::from_be_bytes([bytes[0], bytes[1], bytes[2], bytes[3]]);
    let r = EntryData::read(FontData::new(&bytes[4..]), Offset32::new(off));
    if o.res(&r) {
        note_entry(o, &r.unwrap());
    }
}

fn run_format2(ctx: &mut Ctx) {
    let rounds = if ctx.thorough { 300 } else { 56 };
    for round in 0..rounds {
        let n = ctx.rng.below(4) as usize;
        let flags: Vec<u8> = (0..n).map(|_| ctx.rng.next() as u8 & if ctx.rng.chance(1, 6) { 0xFF } else { 0x3F }).collect();
        let b = format2(&mut ctx.rng, &flags, round % 2 == 0, (round % 4) as u8);
        ctx.drive("ift2", &b, &walk_ift);
        ctx.count(if round % 2 == 0 { "format2.string-data" } else { "format2.no-string-data" });
    }
    // every format flag combination, with and without id string data
    for flags in 0..=255u8 {
        for sd in [false, true] {
            let e = entry_bytes(&mut ctx.rng, flags, sd);
            let mut b = B::new();
            b.f32(if sd { 100 } else { 0 });
            b.append(&e);
            if flags % 16 == (sd as u8) * 5 {
                ctx.drive("entry", &b, &walk_entry);
            } else {
                ctx.call("entry", &b.v, &walk_entry);
                for cut in 4..b.len() {
                    ctx.call("entry", &b.v[..cut], &walk_entry);
                }
            }
        }
    }
    ctx.count_n("format2.entry-flag-combinations", 512);
    ctx.drive_random("ift", if ctx.thorough { 12000 } else { 2000 }, 80, &walk_ift);
    ctx.drive_random("entry", if ctx.thorough { 6000 } else { 1000 }, 24, &walk_entry);
}

// ------------------------------------------------------------------------------------------------
// table keyed / glyph keyed patches

fn table_keyed(rng: &mut Rng, n: u16) -> B {
    let mut b = B::new();
    b.tag(b"iftk").u32(0);
    b.bytes(&rng.bytes(16));
    b.f16(n);
    let offs = b.len();
    for _ in 0..=n {
        b.f32(0);
    }
    for k in 0..n as usize {
        let at = b.len();
        b.set32(offs + 4 * k, at as u32);
        b.tag(b"glyf").f8(rng.below(4) as u8).f32(rng.next() as u32);
        b.bytes(&rbytes(rng, 6));
    }
    let at = b.len();
    b.set32(offs + 4 * n as usize, at as u32);
    b
}

fn walk_table_keyed(bytes: &[u8], o: &mut Obs) {
    let len = bytes.len();
    let r = TableKeyedPatch::read(FontData::new(bytes));
    if !o.res(&r) {
        return;
    }
    let t = r.unwrap();
    o.note_bytes(&t.format().to_be_bytes());
    o.note_bytes(t.compatibility_id().as_slice());
    let n = t.patches_count() as usize;
    o.note(n as u64);
    o.note(t.patch_offsets().len() as u64);
    let p = t.patches();
    let note_patch = |o: &mut Obs, r: Result<read_fonts::tables::ift::TablePatch, read_fonts::ReadError>| {
        if o.res(&r) {
            let p = r.unwrap();
            o.note_bytes(&p.tag().to_be_bytes());
            let f = p.flags();
            o.note(f.bits() as u64);
            o.note(f.contains(read_fonts::tables::ift::TablePatchFlags::REPLACE_TABLE) as u64);
            o.note(f.contains(read_fonts::tables::ift::TablePatchFlags::DROP_TABLE) as u64);
            o.note(p.max_uncompressed_length() as u64);
            o.note(p.brotli_stream().len() as u64);
        }
    };
    // one 4 byte offset per patch
    o.drain("patches.iter", len / 4 + 1, p.iter(), |o, r| note_patch(o, r));
    for i in edge_usize(&[n, n + 1]) {
        if i <= n + 1 || i >= usize::MAX - 1 {
            let r = catch_get(&p, i);
            match r {
                Some(r) => note_patch(o, r),
                None => o.note(0),
            }
        }
    }
}

/// `ArrayOfOffsets::get` indexes a slice: only in-range indices are part of its contract
fn catch_get<'a>(p: &read_fonts::ArrayOfOffsets<'a, read_fonts::tables::ift::TablePatch<'a>, Offset32>, i: usize) -> Option<Result<read_fonts::tables::ift::TablePatch<'a>, read_fonts::ReadError>> {
    if i < p.len() {
        Some(p.get(i))
    } else {
        None
    }
}

struct GkSpec {
    wide: bool,
    gids: Vec<u32>,
    n_tables: u8,
}

/// returns the block and, per table and glyph, the expected data
fn glyph_patches(rng: &mut Rng, s: &GkSpec) -> (B, Vec<Vec<Vec<u8>>>) {
    let mut b = B::new();
    b.f32(s.gids.len() as u32).f8(s.n_tables);
    for g in &s.gids {
        if s.wide {
            b.u24(*g);
        } else {
            b.u16(*g as u16);
        }
    }
    for k in 0..s.n_tables {
        b.tag(&[b'g', b'l', b'y', b'a' + k % 26]);
    }
    let n_off = s.gids.len() * s.n_tables as usize + 1;
    let offs = b.len();
    for _ in 0..n_off {
        b.f32(0);
    }
    let mut want = vec![];
    let mut k = 0;
    for _ in 0..s.n_tables {
        let mut per = vec![];
        for _ in 0..s.gids.len() {
            let d = rbytes(rng, 5);
            let at = b.len();
            b.set32(offs + 4 * k, at as u32);
            b.bytes(&d);
            per.push(d);
            k += 1;
        }
        want.push(per);
    }
    let at = b.len();
    b.set32(offs + 4 * k, at as u32);
    (b, want)
}

/// `[flags u8][glyph patches]`
fn walk_glyph_patches(bytes: &[u8], o: &mut Obs) {
    let Some((flags, data)) = bytes.split_first() else { return };
    let len = data.len();
    for flags in [*flags, *flags ^ 1] {
        let flags = GlyphKeyedFlags::from_bits_truncate(flags);
        let r = GlyphPatches::read(FontData::new(data), flags);
        if !o.res(&r) {
            continue;
        }
        let t = r.unwrap();
        let gc = t.glyph_count() as usize;
        let tc = t.table_count() as usize;
        o.note(gc as u64);
        o.note(tc as u64);
        let ids = t.glyph_ids();
        o.note(ids.len() as u64);
        // two or three bytes per glyph id
        let n_iter = o.drain("glyph_ids.iter", len / 2 + 1, ids.iter(), |o, v| {
            if o.res(&v) {
                o.note(v.unwrap().get() as u64);
            }
        });
        if n_iter != ids.len() && o.over.is_none() {
            o.over = Some(format!("glyph_ids.iter yields {n_iter} items, len() = {}", ids.len()));
        }
        for i in edge_usize(&[gc, ids.len()]) {
            let v = ids.get(i);
            if o.res(&v) {
                o.note(v.unwrap().get() as u64);
            }
        }
        o.note(t.tables().len() as u64);
        o.note(t.glyph_data_offsets().len() as u64);
        let mut tis = edge_usize(&[tc, gc, gc * tc]);
        // table indices whose product with glyph_count may exceed usize: see walk_glyph_patches_big
        tis.retain(|x| *x <= 0x1_0000_0000);
        tis.extend(0..tc.min(6));
        tis.sort();
        tis.dedup();
        for ti in tis {
            let mut failed = false;
            o.drain("glyph_data_for_table", len / 2 + 1, t.glyph_data_for_table(ti), |o, r| {
                // the iterator ends with its first error
                if failed && o.over.is_none() {
                    o.over = Some(format!("glyph_data_for_table({ti}) yields items after an error"));
                }
                failed |= r.is_err();
                if o.res(&r) {
                    let (g, d) = r.unwrap();
                    o.note(g.to_u32() as u64);
                    o.note_bytes(&d[..d.len().min(16)]);
                }
            });
        }
    }
}

/// Very large external table indices, on the generated tables only (not on their mutations, to keep
/// the failure list short).
/// FINDING: `glyph_data_for_table` computes `table_index * glyph_count` and `start_index + 1`
/// unchecked (ift.rs:293/295); C01_HAND_SKIP_KNOWN=1 skips this walk.
fn walk_glyph_patches_big(bytes: &[u8], o: &mut Obs) {
    let Some((flags, data)) = bytes.split_first() else { return };
    let Ok(t) = GlyphPatches::read(FontData::new(data), GlyphKeyedFlags::from_bits_truncate(*flags)) else { return };
    for ti in [usize::MAX, usize::MAX - 1, usize::MAX / 2, usize::MAX / 2 + 1, usize::MAX / 3 + 1, 1 << 33, 1 << 62] {
        o.drain("glyph_data_for_table", data.len() / 2 + 1, t.glyph_data_for_table(ti), |o, r| {
            o.res(&r);
        });
    }
}

fn walk_glyph_keyed(bytes: &[u8], o: &mut Obs) {
    let r = GlyphKeyedPatch::read(FontData::new(bytes));
    if !o.res(&r) {
        return;
    }
    let t = r.unwrap();
    o.note_bytes(&t.format().to_be_bytes());
    o.note(t.flags().bits() as u64);
    o.note_bytes(t.compatibility_id().as_slice());
    o.note(t.max_uncompressed_length() as u64);
    o.note(t.brotli_stream().len() as u64);
}

fn run_patches(ctx: &mut Ctx) {
    for round in 0..(if ctx.thorough { 120 } else { 24 }) {
        let n = match round % 5 {
            0 => 0,
            1 => 1,
            _ => 1 + ctx.rng.below(4) as u16,
        };
        let b = table_keyed(&mut ctx.rng, n);
        ctx.drive("table-keyed", &b, &walk_table_keyed);
        let mut b = B::new();
        b.tag(b"ifgk").u32(0).f8((round % 3) as u8);
        b.bytes(&ctx.rng.bytes(16));
        b.f32(ctx.rng.next() as u32);
        b.bytes(&ctx.rng.bytes(round));
        ctx.drive("glyph-keyed", &b, &walk_glyph_keyed);
    }
    for round in 0..(if ctx.thorough { 500 } else { 84 }) {
        let wide = round % 2 == 1;
        let n = match round % 7 {
            0 => 0,
            1 => 1,
            _ => 1 + ctx.rng.below(5) as usize,
        };
        let mut gids: Vec<u32> = vec![];
        let mut g = 0u32;
        for _ in 0..n {
            g += 1 + ctx.rng.below(if wide { 70000 } else { 300 }) as u32;
            gids.push(g);
        }
        let sorted = match round % 5 {
            3 if n > 1 => {
                gids[n - 1] = gids[0];
                false
            }
            4 if n > 1 => {
                gids.reverse();
                false
            }
            _ => true,
        };
        let spec = GkSpec { wide, gids, n_tables: (round % 4) as u8 };
        let (t, want) = glyph_patches(&mut ctx.rng, &spec);
        let mut b = B::new();
        b.f8(wide as u8);
        b.append(&t);
        ctx.drive("glyph-patches", &b, &walk_glyph_patches);
        if !super::vars::skip_known() {
            ctx.call("glyph-patches.big-index", &b.v, &walk_glyph_patches_big);
        }
        ctx.count(if wide { "glyph-patches.wide" } else { "glyph-patches.narrow" });
        // relational: every table yields the data of every glyph, in order
        if sorted {
            if let Ok(p) = GlyphPatches::read(FontData::new(&t.v), GlyphKeyedFlags::from_bits_truncate(wide as u8)) {
                for (ti, per) in want.iter().enumerate() {
                    let got = catch(|| p.glyph_data_for_table(ti).take(100).map(|r| r.map(|(g, d)| (g, d.to_vec())).map_err(|e| format!("{e:?}"))).collect::<Vec<_>>());
                    let exp: Vec<Result<(GlyphId, Vec<u8>), String>> = spec.gids.iter().zip(per).map(|(g, d)| Ok((GlyphId::new(*g), d.clone()))).collect();
                    ctx.oracle("ift.glyph-data", got.as_ref() == Ok(&exp), || format!("glyph-patches {} table {}", hex(&t.v), ti), || format!("expected {exp:?} got {got:?}"));
                }
                ctx.count("glyph-patches.clean");
            }
        }
    }
    // counts whose products overflow: glyph_count × table_count, × 4, × 3
    for gc in [0x4000_0000u32, 0x5555_5556, 0x7FFF_FFFF, 0x8000_0000, 0xFFFF_FFFF, 0x0101_0102] {
        for tc in [0u8, 1, 2, 4, 255] {
            let mut b = B::new();
            b.u8(1).u32(gc).u8(tc);
            b.zeros(40);
            ctx.call("glyph-patches.big", &b.v, &walk_glyph_patches);
        }
    }
    ctx.drive_random("table-keyed", if ctx.thorough { 4000 } else { 600 }, 48, &walk_table_keyed);
    ctx.drive_random("glyph-keyed", if ctx.thorough { 600 } else { 100 }, 40, &walk_glyph_keyed);
    ctx.drive_random("glyph-patches", if ctx.thorough { 12000 } else { 2000 }, 48, &walk_glyph_patches);
}

pub fn run(ctx: &mut Ctx) {
    run_format1(ctx);
    run_args(ctx);
    run_format2(ctx);
    run_patches(ctx);
}
