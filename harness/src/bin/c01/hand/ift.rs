//! (stub)
use super::*;
pub fn run(_ctx: &mut Ctx) {}
