//! AAT hand-written code: read-fonts/src/tables/{aat,ankr,feat,ltag}.rs.
//!
//! NOTE: at the verified commit the repository has NO kern.rs / kerx.rs / morx.rs / trak.rs; the
//! groups `aat.kern`, `aat.kerx`, `aat.morx` therefore drive the aat.rs primitives (`StateTable`,
//! `ExtendedStateTable<payload>`, `TypedLookup` reached through offsets inside a larger buffer) in the
//! shapes those tables use (bounded state-machine walks with chained lookups).
//!
//! Besides the framework oracles (no-panic / iter-bounded / pure / time-bounded) every group
//! evaluates a small byte-level reference (`ref_*`) of the lookup / class / entry arithmetic on
//! EVERY driven input (also the truncated and mutated ones): oracle `hand.<group>.model`.
use super::*;
use font_types::{BigEndian, GlyphId, GlyphId16};
use read_fonts::tables::aat::{
    ExtendedStateTable, ExtendedStateTableU16, Lookup, LookupGlyphId, LookupSegment4, LookupSingle, LookupU16, LookupU32, LookupValue, NoPayload, StateEntry, StateTable,
};
use read_fonts::tables::ankr::Ankr;
use read_fonts::tables::feat::Feat;
use read_fonts::tables::ltag::Ltag;
use read_fonts::traversal::SomeTable;
use read_fonts::{FontData, FontRead, ReadError};

// ------------------------------------------------------------------------------------------------
// model-oracle plumbing: the walk functions cannot reach `ctx`, so mismatches are parked here and
// reported by `flush_model` after every drive

static MODEL: Mutex<(u64, Vec<(String, String)>, BTreeMap<String, u64>)> = Mutex::new((0, Vec::new(), BTreeMap::new()));

fn model_check(ok: bool, input: impl FnOnce() -> String, detail: impl FnOnce() -> String) {
    let mut m = MODEL.lock().unwrap_or_else(|e| e.into_inner());
    m.0 += 1;
    if !ok {
        let (i, d) = (input(), detail());
        // failure kind = entry point (+ lookup format) for the distribution counters
        let mut it = i.split(' ');
        let mut kind = it.next().unwrap_or("").to_string();
        if kind == "lookup" {
            kind = format!("lookup.f{}.{}", u32::from_str_radix(it.next().unwrap_or("").get(..4).unwrap_or("ffff"), 16).unwrap_or(0xFFFF), d.split(' ').next().unwrap_or(""));
        }
        *m.2.entry(kind).or_insert(0) += 1;
        if m.1.len() < 24 {
            m.1.push((i, d));
        }
    }
}

fn flush_model(ctx: &mut Ctx) {
    let (n, fails, kinds) = {
        let mut m = MODEL.lock().unwrap_or_else(|e| e.into_inner());
        let r = (m.0, std::mem::take(&mut m.1), std::mem::take(&mut m.2));
        m.0 = 0;
        r
    };
    ctx.count_n("model-checks", n);
    for (k, v) in kinds {
        ctx.count_n(&format!("model-fail.{k}"), v);
    }
    ctx.oracle("model", true, String::new, String::new);
    for (i, d) in fails {
        ctx.oracle("model", false, || i.clone(), || d.clone());
    }
}

fn rd(b: &[u8], at: usize, n: usize) -> Option<u64> {
    let s = b.get(at..at.checked_add(n)?)?;
    Some(s.iter().fold(0u64, |a, x| (a << 8) | *x as u64))
}

fn w16(b: &[u8], at: usize) -> u32 {
    rd(b, at, 2).unwrap_or(0) as u32
}

fn w32(b: &[u8], at: usize) -> u64 {
    rd(b, at, 4).unwrap_or(0)
}

// ------------------------------------------------------------------------------------------------
// byte-level references

/// `None` = outside the validity domain of the reference (unsorted / overlapping search data);
/// `Some(v)` = what `Lookup::read(b)?.value::<T>(g)` must give (`None` inside = any Err), where
/// `tsize = size_of::<T>()`.
fn ref_lookup(b: &[u8], tsize: usize, g: u16) -> Option<Option<u64>> {
    let len = b.len();
    let Some(fmt) = rd(b, 0, 2) else { return Some(None) };
    let g = g as usize;
    let v = match fmt {
        0 => {
            let n = (len - 2) / tsize;
            if g < n {
                rd(b, 2 + g * tsize, tsize)
            } else {
                None
            }
        }
        2 | 6 => {
            if len < 12 {
                return Some(None);
            }
            let unit = w16(b, 2) as usize;
            let n = w16(b, 4) as usize;
            let seg_len = unit * n;
            if 12 + seg_len > len {
                return Some(None);
            }
            let rec = if fmt == 2 { 4 + tsize } else { 2 + tsize };
            if n * rec > seg_len {
                return Some(None);
            }
            let mut found = None;
            let mut prev: Option<(usize, usize)> = None;
            for i in 0..n {
                let at = 12 + i * rec;
                let (first, last, val) = if fmt == 2 {
                    (w16(b, at + 2) as usize, w16(b, at) as usize, rd(b, at + 4, tsize))
                } else {
                    (w16(b, at) as usize, w16(b, at) as usize, rd(b, at + 2, tsize))
                };
                if let Some((pf, pl)) = prev {
                    if first <= pf || pl >= first {
                        return None;
                    }
                }
                prev = Some((first, last));
                if first <= g && g <= last {
                    found = val;
                }
            }
            found
        }
        4 => {
            if len < 12 {
                return Some(None);
            }
            let n = w16(b, 4) as usize;
            if 12 + 6 * n > len {
                return Some(None);
            }
            let mut found = None;
            let mut prev: Option<(usize, usize)> = None;
            for i in 0..n {
                let at = 12 + i * 6;
                let (last, first, vo) = (w16(b, at) as usize, w16(b, at + 2) as usize, w16(b, at + 4) as usize);
                if let Some((pf, pl)) = prev {
                    if first <= pf || pl >= first {
                        return None;
                    }
                }
                prev = Some((first, last));
                if first <= g && g <= last {
                    found = rd(b, vo + (g - first) * tsize, tsize);
                }
            }
            found
        }
        8 => {
            if len < 6 {
                return Some(None);
            }
            let first = w16(b, 2) as usize;
            if g < first {
                None
            } else {
                let i = g - first;
                if i < (len - 6) / 2 {
                    rd(b, 6 + 2 * i, 2)
                } else {
                    None
                }
            }
        }
        10 => {
            if len < 8 {
                return Some(None);
            }
            let unit = w16(b, 2) as usize;
            let first = w16(b, 4) as usize;
            if g < first || !matches!(unit, 1 | 2 | 4) {
                None
            } else {
                rd(b, 8 + (g - first) * unit, unit).map(|v| if tsize == 2 { v & 0xFFFF } else { v })
            }
        }
        _ => None,
    };
    Some(v)
}

/// `StateTable::class`
fn ref_state_class(b: &[u8], g: u16) -> Option<u8> {
    if b.len() < 8 {
        return None;
    }
    if g == 0xFFFF {
        return Some(2);
    }
    let co = w16(b, 2) as usize;
    if co == 0 || co > b.len() {
        return None;
    }
    let first = rd(b, co, 2)? as usize;
    let n = rd(b, co + 2, 2)? as usize;
    if co + 4 + n > b.len() {
        return None;
    }
    let g = g as usize;
    if g >= first && g - first < n {
        Some(b[co + 4 + g - first])
    } else {
        None
    }
}

/// `StateTable::entry` → (new_state, flags)
fn ref_state_entry(b: &[u8], s: u16, c: u8) -> Option<(u16, u16)> {
    let len = b.len();
    if len < 8 {
        return None;
    }
    let size = w16(b, 0) as usize;
    if size == 0 {
        return None;
    }
    let c = if c as usize >= size { 1 } else { c as usize };
    let ao = w16(b, 4) as usize;
    if ao == 0 || ao > len {
        return None;
    }
    let idx = *b.get(ao + s as usize * size + c)? as usize;
    let eo = w16(b, 6) as usize;
    if eo == 0 || eo > len {
        return None;
    }
    let ns = rd(b, eo + idx * 4, 2)? as i64;
    let fl = rd(b, eo + idx * 4 + 2, 2)? as u16;
    // truncating division, like the i32 arithmetic of the real code
    let q = (ns - ao as i64) / size as i64;
    if (0..=0xFFFF).contains(&q) {
        Some((q as u16, fl))
    } else {
        None
    }
}

/// `ExtendedStateTable::<T>::entry` → (new_state, flags, payload bytes big endian), `ps = size_of::<T>()`
fn ref_stx_entry(b: &[u8], ps: usize, s: u16, c: u16) -> Option<(u16, u16, u64)> {
    let len = b.len();
    if len < 16 {
        return None;
    }
    let nc = w32(b, 0) as usize;
    let c = if c as usize >= nc { 1 } else { c as usize };
    let ao = w32(b, 8) as usize;
    if ao == 0 || ao > len {
        return None;
    }
    let ix = (s as usize).checked_mul(nc)?.checked_add(c)?;
    if ix >= (len - ao) / 2 {
        return None;
    }
    let idx = rd(b, ao + 2 * ix, 2)? as usize;
    let eo = w32(b, 12) as usize;
    if eo == 0 || eo > len {
        return None;
    }
    let e = eo + idx * (4 + ps);
    let ns = rd(b, e, 2)? as u16;
    let fl = rd(b, e + 2, 2)? as u16;
    let p = rd(b, e + 4, ps)?;
    Some((ns, fl, p))
}

/// `ExtendedStateTable::class` (outer `None`: class lookup outside the reference's domain)
fn ref_stx_class(b: &[u8], g: u16) -> Option<Option<u64>> {
    if b.len() < 16 {
        return Some(None);
    }
    if g == 0xFFFF {
        return Some(Some(2));
    }
    let co = w32(b, 4) as usize;
    if co == 0 || co > b.len() {
        return Some(None);
    }
    ref_lookup(&b[co..], 2, g)
}

// ------------------------------------------------------------------------------------------------
// Lookup generator

#[derive(Clone, Copy, PartialEq, Eq, Debug)]
pub enum LkMode {
    Clean,
    High,
    Unsorted,
    Overlap,
    CountBeyond,
    CountShort,
    UnitMismatch,
    Tail,
    Empty,
}

pub const LK_MODES: [LkMode; 9] = [LkMode::Clean, LkMode::High, LkMode::Unsorted, LkMode::Overlap, LkMode::CountBeyond, LkMode::CountShort, LkMode::UnitMismatch, LkMode::Tail, LkMode::Empty];
pub const LK_FORMATS: [u16; 6] = [0, 2, 4, 6, 8, 10];

fn bsearch_header(b: &mut B, unit: u16, n: u16) {
    b.f16(unit).f16(n);
    let p = if n == 0 { 0 } else { 15 - n.leading_zeros() as u16 };
    let pow = if n == 0 { 0 } else { 1u16 << p };
    b.u16(unit.wrapping_mul(pow)).u16(p).u16(unit.wrapping_mul(n.wrapping_sub(pow)));
}

fn gen_segments(rng: &mut Rng, high: bool, n: usize) -> Vec<(u16, u16)> {
    let mut cur: u32 = if high { 0xFFFF - rng.below(4) as u32 - 3 * n as u32 } else { rng.below(40) as u32 };
    let mut v = vec![];
    for _ in 0..n {
        let first = cur + rng.below(3) as u32;
        let last = first + rng.below(4) as u32;
        if last > 0xFFFF {
            break;
        }
        v.push((first as u16, last as u16));
        cur = last + 1;
    }
    v
}

fn put_val(b: &mut B, vsize: usize, v: u32) {
    match vsize {
        1 => b.u8(v as u8),
        2 => b.u16(v as u16),
        3 => b.u24(v & 0xFF_FFFF),
        4 => b.u32(v),
        n => {
            b.zeros(n.saturating_sub(4));
            if n >= 4 {
                b.u32(v)
            } else {
                b
            }
        }
    };
}

/// An AAT lookup table of the given format.  `vsize` = bytes per stored value (2 or 4 for the
/// formats 0/2/4/6, the unit size for format 10, ignored for format 8); `pool` = values to choose
/// from (empty: random).  Returns the bytes and the glyph ids the table mentions.
pub fn gen_lookup(rng: &mut Rng, format: u16, vsize: usize, mode: LkMode, pool: &[u32]) -> (B, Vec<u16>) {
    let mut b = B::new();
    let mut glyphs: Vec<u16> = vec![];
    let pick = |rng: &mut Rng| -> u32 {
        if pool.is_empty() {
            rng.next() as u32
        } else {
            *rng.pick(pool)
        }
    };
    let high = mode == LkMode::High;
    let n = if mode == LkMode::Empty { 0 } else { 1 + rng.below(5) as usize };
    match format {
        0 => {
            b.u16(0);
            let n = if mode == LkMode::Empty { 0 } else { 1 + rng.below(12) as usize };
            for _ in 0..n {
                let v = pick(rng);
                put_val(&mut b, vsize, v);
            }
            if mode == LkMode::Tail {
                let k = 1 + rng.below(vsize.max(2) as u64 - 1) as usize;
                b.bytes(&rng.bytes(k));
            }
            glyphs.push(n as u16);
        }
        2 | 6 => {
            let mut segs = gen_segments(rng, high, n);
            if format == 6 {
                for s in segs.iter_mut() {
                    s.1 = s.0;
                }
            }
            match mode {
                LkMode::Unsorted => rng.shuffle(&mut segs),
                LkMode::Overlap if !segs.is_empty() => {
                    let k = rng.below(segs.len() as u64) as usize;
                    let s = segs[k];
                    match rng.below(3) {
                        0 => segs.insert(k, s),
                        1 => segs[k].1 = s.1.saturating_add(6),
                        _ => segs[k] = (s.1, s.0.wrapping_sub(1)),
                    }
                }
                _ => {}
            }
            if matches!(mode, LkMode::Clean) && rng.chance(1, 2) && segs.last().map(|s| s.1 < 0xFFFF).unwrap_or(true) {
                segs.push((0xFFFF, 0xFFFF));
            }
            let rec = if format == 2 { 4 + vsize } else { 2 + vsize };
            let unit = match mode {
                LkMode::UnitMismatch => *rng.pick(&[0usize, 1, rec - 1, rec + 1, rec + 2, 2 * rec, 0xFFFF]),
                _ => rec,
            };
            let n_units = match mode {
                LkMode::CountBeyond => segs.len() + 1,
                LkMode::CountShort => segs.len().saturating_sub(1),
                _ => segs.len(),
            };
            b.u16(format);
            bsearch_header(&mut b, unit as u16, n_units as u16);
            for (first, last) in &segs {
                if format == 2 {
                    b.f16(*last).f16(*first);
                } else {
                    b.f16(*first);
                }
                let v = pick(rng);
                put_val(&mut b, vsize, v);
                glyphs.push(*first);
                glyphs.push(*last);
            }
            if mode == LkMode::UnitMismatch && unit > rec && unit < 64 {
                // the data the declared unit size asks for
                b.zeros((unit - rec) * segs.len());
            }
            if mode == LkMode::Tail {
                let k = 1 + rng.below(rec as u64) as usize;
                b.bytes(&rng.bytes(k));
            }
        }
        4 => {
            let mut segs = gen_segments(rng, high, n);
            match mode {
                LkMode::Unsorted => rng.shuffle(&mut segs),
                LkMode::Overlap if !segs.is_empty() => {
                    let k = rng.below(segs.len() as u64) as usize;
                    let s = segs[k];
                    match rng.below(3) {
                        0 => segs.insert(k, s),
                        1 => segs[k].1 = s.1.saturating_add(6),
                        _ => segs[k] = (s.1, s.0.wrapping_sub(1)),
                    }
                }
                _ => {}
            }
            if matches!(mode, LkMode::Clean) && rng.chance(1, 2) && segs.last().map(|s| s.1 < 0xFFFF).unwrap_or(true) {
                segs.push((0xFFFF, 0xFFFF));
            }
            let n_units = match mode {
                LkMode::CountBeyond => segs.len() + 1,
                LkMode::CountShort => segs.len().saturating_sub(1),
                _ => segs.len(),
            };
            let unit = if mode == LkMode::UnitMismatch { *rng.pick(&[0u16, 5, 7, 8, 0xFFFF]) } else { 6 };
            b.u16(4);
            bsearch_header(&mut b, unit, n_units as u16);
            let mut off = 12 + 6 * segs.len();
            let mut total = 0usize;
            for (first, last) in &segs {
                b.f16(*last).f16(*first).f16(off as u16);
                let cnt = (*last as usize).saturating_sub(*first as usize) + 1;
                let cnt = if last < first { 0 } else { cnt.min(16) };
                off += cnt * vsize;
                total += cnt;
                glyphs.push(*first);
                glyphs.push(*last);
            }
            for _ in 0..total {
                let v = pick(rng);
                put_val(&mut b, vsize, v);
            }
            if mode == LkMode::Tail {
                // the last values end inside / at / just before the end of the data
                let cut = (1 + rng.below(vsize as u64 + 1) as usize).min(b.v.len().saturating_sub(12 + 6 * segs.len()));
                let l = b.v.len() - cut;
                b.v.truncate(l);
            }
        }
        8 => {
            let cnt = if mode == LkMode::Empty { 0 } else { 1 + rng.below(10) as usize };
            let first: u32 = if high { 0x10000 - cnt as u32 + rng.below(3) as u32 - 1 } else { rng.below(300) as u32 };
            let first = first.min(0xFFFF) as u16;
            let declared = match mode {
                LkMode::CountBeyond => cnt + 1,
                LkMode::CountShort => cnt.saturating_sub(1),
                LkMode::Overlap => 0xFFFF,
                _ => cnt,
            };
            b.u16(8).f16(first).f16(declared as u16);
            for _ in 0..cnt {
                let v = pick(rng);
                b.u16(v as u16);
            }
            if mode == LkMode::Tail {
                b.u8(rng.next() as u8);
            }
            glyphs.push(first);
            glyphs.push(first.wrapping_add(cnt as u16));
        }
        _ => {
            let unit = vsize;
            let cnt = if mode == LkMode::Empty { 0 } else { 1 + rng.below(10) as usize };
            let first: u32 = if high { 0x10000 - cnt as u32 + rng.below(3) as u32 - 1 } else { rng.below(300) as u32 };
            let first = first.min(0xFFFF) as u16;
            let declared = match mode {
                LkMode::CountBeyond => cnt + 1,
                LkMode::CountShort => cnt.saturating_sub(1),
                LkMode::Overlap => 0xFFFF,
                _ => cnt,
            };
            b.u16(10).f16(unit as u16).f16(first).f16(declared as u16);
            for _ in 0..cnt {
                let v = pick(rng);
                put_val(&mut b, unit, v);
            }
            if unit == 0 {
                let k = rng.below(5) as usize;
                b.bytes(&rng.bytes(k));
            }
            if mode == LkMode::Tail && !b.v.is_empty() && b.v.len() > 8 {
                b.v.pop();
            }
            glyphs.push(first);
            glyphs.push(first.wrapping_add(cnt as u16));
        }
    }
    (b, glyphs)
}

/// glyph ids worth asking a lookup table at `bytes` about
fn lookup_probes(bytes: &[u8]) -> Vec<u16> {
    let len = bytes.len();
    let mut vals: Vec<u32> = vec![];
    for i in 0..len.min(72) / 2 {
        vals.push(w16(bytes, 2 * i));
    }
    for base in [0u32, w16(bytes, 2), w16(bytes, 4)] {
        for k in [2usize, 6, 8] {
            for u in [1usize, 2, 4] {
                vals.push(base.saturating_add((len.saturating_sub(k) / u) as u32));
            }
        }
    }
    edge16(&vals)
}

fn direct<T: LookupValue>(lk: &Lookup, g: u16) -> Result<T, ReadError> {
    match lk {
        Lookup::Format0(t) => t.value::<T>(g),
        Lookup::Format2(t) => t.value::<T>(g),
        Lookup::Format4(t) => t.value::<T>(g),
        Lookup::Format6(t) => t.value::<T>(g),
        Lookup::Format8(t) => t.value::<T>(g),
        Lookup::Format10(t) => t.value::<T>(g),
    }
}

fn note_opt(o: &mut Obs, v: Option<u64>) {
    match v {
        Some(v) => {
            o.note(1);
            o.note(v)
        }
        None => o.note(2),
    }
}

/// every `value` entry point of a lookup table at `bytes`, for the glyph ids `gs`; checked against
/// `ref_lookup`
fn lookup_values(bytes: &[u8], o: &mut Obs, gs: &[u16]) {
    let data = FontData::new(bytes);
    let r = Lookup::read(data);
    let ok = o.res(&r);
    let t16 = LookupU16::read(data);
    let t32 = LookupU32::read(data);
    let tg = LookupGlyphId::read(data);
    o.note((t16.is_ok() as u64) | (t32.is_ok() as u64) << 1 | (tg.is_ok() as u64) << 2);
    if !ok {
        for &g in gs.iter().take(4) {
            model_check(ref_lookup(bytes, 2, g).map(|v| v.is_none()).unwrap_or(true), || format!("lookup {} g={g}", hex(bytes)), || "Lookup::read failed but the reference has a value".into());
        }
        return;
    }
    let lk = r.unwrap();
    o.note(lk.format() as u64);
    for (i, &g) in gs.iter().enumerate() {
        let a = lk.value::<u16>(g).ok().map(|v| v as u64);
        let b = lk.value::<u32>(g).ok().map(|v| v as u64);
        let c = lk.value::<GlyphId16>(g).ok().map(|v| v.to_u16() as u64);
        note_opt(o, a);
        note_opt(o, b);
        note_opt(o, c);
        let mut same = a == c;
        if i % 4 == 0 {
            // the typed wrappers and the per-format functions directly
            let a2 = t16.as_ref().ok().and_then(|t| t.value(g).ok()).map(|v| v as u64);
            let b2 = t32.as_ref().ok().and_then(|t| t.value(g).ok()).map(|v| v as u64);
            let c2 = tg.as_ref().ok().and_then(|t| t.value(g).ok()).map(|v| v.to_u16() as u64);
            let a3 = direct::<u16>(&lk, g).ok().map(|v| v as u64);
            let b3 = direct::<u32>(&lk, g).ok().map(|v| v as u64);
            let c3 = direct::<GlyphId16>(&lk, g).ok().map(|v| v.to_u16() as u64);
            same = same && a == a2 && a == a3 && b == b2 && b == b3 && c == c2 && c == c3;
        }
        model_check(same, || format!("lookup {} g={g}", hex(bytes)), || format!("entry points disagree: u16 {a:?} u32 {b:?} gid {c:?}"));
        if let Some(want) = ref_lookup(bytes, 2, g) {
            model_check(a == want, || format!("lookup {} g={g}", hex(bytes)), || format!("value::<u16> = {a:?}, reference {want:?}"));
        }
        if let Some(want) = ref_lookup(bytes, 4, g) {
            model_check(b == want, || format!("lookup {} g={g}", hex(bytes)), || format!("value::<u32> = {b:?}, reference {want:?}"));
        }
    }
}

fn lookup_walk(bytes: &[u8], o: &mut Obs) {
    let gs = lookup_probes(bytes);
    lookup_values(bytes, o, &gs);
    // hand-written traversal glue of the typed wrapper
    if let Ok(t) = LookupU16::read(FontData::new(bytes)) {
        o.note_str(t.type_name());
        for i in 0..9 {
            match t.get_field(i) {
                Some(f) => o.note_str(f.name),
                None => o.note(0),
            }
        }
    }
}

pub fn run_lookup(ctx: &mut Ctx) {
    let rounds = if ctx.thorough { 60 } else { 10 };
    for round in 0..rounds {
        for &format in &LK_FORMATS {
            for &mode in &LK_MODES {
                let sizes: &[usize] = if format == 10 { &[0, 1, 2, 3, 4, 8] } else if format == 8 { &[2] } else { &[2, 4] };
                for &vsize in sizes {
                    if round > 0 && ctx.rng.chance(1, 2) {
                        continue;
                    }
                    let (b, _) = gen_lookup(&mut ctx.rng, format, vsize, mode, &[]);
                    ctx.drive(&format!("lookup.f{format}.v{vsize}.{mode:?}"), &b, &lookup_walk);
                    ctx.count(&format!("format{format}"));
                    ctx.count(&format!("mode.{mode:?}"));
                    flush_model(ctx);
                }
            }
        }
    }
    // explicit sweeps ----------------------------------------------------------------------------
    // format 10: unit size × data length × first glyph
    for unit in [0u16, 1, 2, 3, 4, 5, 7, 8, 9, 16, 0x7FFF, 0xFFFF] {
        for dl in 0..=9usize {
            for first in [0u16, 1, 0xFFFD, 0xFFFE, 0xFFFF] {
                let mut b = B::new();
                b.u16(10).u16(unit).u16(first).u16(dl as u16);
                b.bytes(&ctx.rng.bytes(dl));
                ctx.call("lookup.sweep10", &b.v, &lookup_walk);
            }
        }
    }
    // format 8: first glyph + count around 0x10000, array length 0..=4
    for first in [0u16, 1, 0xFFFB, 0xFFFC, 0xFFFD, 0xFFFE, 0xFFFF] {
        for count in [0u16, 1, 2, 4, 5, 0xFFFF] {
            for al in 0..=9usize {
                let mut b = B::new();
                b.u16(8).u16(first).u16(count);
                b.bytes(&ctx.rng.bytes(al));
                ctx.call("lookup.sweep8", &b.v, &lookup_walk);
            }
        }
    }
    // format 0: every length
    for l in 0..=14usize {
        let mut v = vec![0u8, 0];
        v.extend(ctx.rng.bytes(l));
        ctx.call("lookup.sweep0", &v, &lookup_walk);
    }
    // format 4: one or two segments, value offset sweeping over the end of the data
    for vs in [2usize, 4] {
        for span in [0u16, 1, 3] {
            for first in [0u16, 5, 0xFFFF - span] {
                let mut base = B::new();
                base.u16(4);
                bsearch_header(&mut base, 6, 1);
                base.u16(first + span).u16(first).u16(0);
                base.bytes(&ctx.rng.bytes((span as usize + 1) * vs));
                let len = base.v.len();
                for vo in (len.saturating_sub((span as usize + 2) * vs + 2))..=len + 2 {
                    let mut v = base.v.clone();
                    v[16..18].copy_from_slice(&(vo as u16).to_be_bytes());
                    ctx.call("lookup.sweep4", &v, &lookup_walk);
                }
                for vo in [0u16, 1, 0x7FFF, 0xFFFE, 0xFFFF] {
                    let mut v = base.v.clone();
                    v[16..18].copy_from_slice(&vo.to_be_bytes());
                    ctx.call("lookup.sweep4", &v, &lookup_walk);
                }
                let _ = vs;
            }
        }
    }
    // formats 2 / 6: n_units × unit_size against data for exactly two records
    for format in [2u16, 6] {
        for vs in [2usize, 4] {
            let rec = if format == 2 { 4 + vs } else { 2 + vs };
            for n_units in 0..=4u16 {
                for unit in [0usize, 1, 2, rec - 1, rec, rec + 1, 2 * rec, 0xFFFF] {
                    for extra in [0usize, 1, rec, 2 * rec] {
                        let mut b = B::new();
                        b.u16(format);
                        bsearch_header(&mut b, unit as u16, n_units);
                        for k in 0..2u16 {
                            if format == 2 {
                                b.u16(10 * k + 12).u16(10 * k + 10);
                            } else {
                                b.u16(10 * k + 10);
                            }
                            put_val(&mut b, vs, 0x0102_0304 + k as u32);
                        }
                        b.zeros(extra);
                        ctx.call("lookup.sweep26", &b.v, &lookup_walk);
                    }
                }
            }
        }
    }
    flush_model(ctx);
    ctx.drive_random("lookup.random", if ctx.thorough { 6000 } else { 1000 }, 64, &lookup_walk);
    // random bytes behind every valid format word
    for _ in 0..(if ctx.thorough { 6000 } else { 1000 }) {
        let mut v = vec![0u8, *ctx.rng.pick(&[0u8, 2, 4, 6, 8, 10])];
        let n = ctx.rng.below(48) as usize;
        let mut tail = ctx.rng.bytes(n);
        for x in tail.iter_mut() {
            if ctx.rng.chance(3, 5) {
                *x &= 0x0F;
            }
        }
        if tail.len() > 1 && ctx.rng.chance(1, 2) {
            tail[0] = 0;
        }
        v.extend(tail);
        ctx.call("lookup.random-fmt", &v, &lookup_walk);
    }
    flush_model(ctx);
}

// ------------------------------------------------------------------------------------------------
// state tables

#[derive(Clone, Copy, PartialEq, Eq, Debug)]
pub enum StMode {
    Clean,
    Size,
    ClassLimits,
    OffsetsAtEnd,
    EntryBeyond,
    NewState,
    Tiny,
}

pub const ST_MODES: [StMode; 7] = [StMode::Clean, StMode::Size, StMode::ClassLimits, StMode::OffsetsAtEnd, StMode::EntryBeyond, StMode::NewState, StMode::Tiny];

pub struct StGen {
    pub b: B,
    pub glyphs: Vec<u16>,
    pub n_states: usize,
    pub n_classes: usize,
    /// bytes reserved between the header and the first block (table specific header fields)
    pub extra_at: usize,
}

/// Legacy `StateTable`: 8 byte header (+ `extra` table specific bytes), then class subtable, state
/// array and entry table in random order.
pub fn gen_state_table(rng: &mut Rng, mode: StMode, extra: usize) -> StGen {
    let size: usize = match mode {
        StMode::Size => *rng.pick(&[0usize, 1, 2, 3, 255, 256, 257, 0x7FFF, 0xFFFF]),
        StMode::Tiny => 1 + rng.below(2) as usize,
        _ => 4 + rng.below(5) as usize,
    };
    let n_states = if mode == StMode::Tiny { 1 } else { 2 + rng.below(4) as usize };
    let n_entries = if mode == StMode::Tiny { 1 } else { 1 + rng.below(6) as usize };
    let arr_size = if size > 300 { 16 + rng.below(16) as usize } else { n_states * size };
    let (first, n_glyphs): (u16, usize) = match mode {
        StMode::ClassLimits => match rng.below(4) {
            0 => (0xFFFF - rng.below(4) as u16, 1 + rng.below(6) as usize),
            1 => (0xFFFA, 6),
            2 => (rng.below(10) as u16, 0),
            _ => (0, 1 + rng.below(6) as usize),
        },
        _ => (rng.below(50) as u16, 1 + rng.below(8) as usize),
    };
    // class block
    let mut class = B::new();
    let declared_glyphs = if mode == StMode::ClassLimits && rng.chance(1, 3) { *rng.pick(&[n_glyphs + 1, n_glyphs + 2, 0xFFFF]) } else { n_glyphs };
    class.f16(first).f16(declared_glyphs as u16);
    for _ in 0..n_glyphs {
        let c = if rng.chance(1, 8) { rng.next() as u8 } else { rng.below(size.clamp(1, 256) as u64) as u8 };
        class.u8(c);
    }
    // block order
    let mut order = [0usize, 1, 2];
    rng.shuffle(&mut order);
    if mode == StMode::ClassLimits && declared_glyphs != n_glyphs {
        // the over-long class array is the last block
        order = [1, 2, 0];
    }
    let sizes = [class.v.len(), arr_size, 4 * n_entries];
    let mut pos = [0usize; 3];
    let mut at = 8 + extra;
    let mut pads = [0usize; 3];
    for (k, blk) in order.iter().enumerate() {
        pads[k] = rng.below(3) as usize;
        at += pads[k];
        pos[*blk] = at;
        at += sizes[*blk];
    }
    let total = at;
    let (mut co, mut ao, mut eo) = (pos[0], pos[1], pos[2]);
    if mode == StMode::OffsetsAtEnd {
        let hostile = [total, total - 1, total + 1, total.saturating_sub(3), total.saturating_sub(4), 0, 1, 7, 8];
        match rng.below(4) {
            0 => co = *rng.pick(&hostile),
            1 => ao = *rng.pick(&hostile),
            2 => eo = *rng.pick(&hostile),
            _ => {
                ao = *rng.pick(&hostile);
                eo = *rng.pick(&hostile);
            }
        }
    }
    let mut arr = B::new();
    for _ in 0..arr_size {
        let e = match mode {
            StMode::EntryBeyond if rng.chance(1, 3) => *rng.pick(&[n_entries, n_entries + 1, 254, 255]) as u8,
            _ => rng.below(n_entries as u64) as u8,
        };
        arr.u8(e);
    }
    let mut ent = B::new();
    for _ in 0..n_entries {
        let s = rng.below(n_states as u64) as usize;
        let ns: i64 = match mode {
            StMode::NewState => match rng.below(6) {
                0 => ao as i64 - 1,
                1 => ao as i64 - size as i64,
                2 => 0,
                3 => 0xFFFF,
                4 => (ao + s * size) as i64 + 1,
                _ => (ao + n_states * size) as i64,
            },
            _ => (ao + s * size) as i64,
        };
        ent.f16(ns.clamp(0, 0xFFFF) as u16).u16(rng.next() as u16);
    }
    let mut b = B::new();
    b.f16(size as u16).f16(co as u16).f16(ao as u16).f16(eo as u16);
    let extra_at = b.len();
    b.zeros(extra);
    for (k, blk) in order.iter().enumerate() {
        b.bytes(&rng.bytes(pads[k]));
        match blk {
            0 => b.append(&class),
            1 => b.append(&arr),
            _ => b.append(&ent),
        };
    }
    let mut glyphs = vec![first, first.wrapping_add(n_glyphs as u16)];
    for k in 0..n_glyphs.min(8) {
        glyphs.push(first.wrapping_add(k as u16));
    }
    StGen { b, glyphs, n_states, n_classes: size, extra_at }
}

/// glyph ids worth asking the class table of a legacy state table
fn state_probes(bytes: &[u8]) -> Vec<u16> {
    let len = bytes.len();
    let co = w16(bytes, 2) as usize;
    let first = w16(bytes, co);
    let n = w16(bytes, co.saturating_add(2));
    let avail = len.saturating_sub(co.saturating_add(4)) as u32;
    edge16(&[first, first.saturating_add(n), first.saturating_add(avail), n, avail])
}

fn state_args(bytes: &[u8]) -> (Vec<u16>, Vec<u8>) {
    let len = bytes.len();
    let size = w16(bytes, 0) as usize;
    let ao = w16(bytes, 4) as usize;
    let rows = len.saturating_sub(ao) / size.max(1);
    let mut states: Vec<u32> = vec![0, 1, 2, 3, rows as u32, (rows as u32).saturating_sub(1), rows as u32 + 1, 0x7FFF, 0xFFFE, 0xFFFF];
    if size > 0 {
        states.push((0xFFFF / size) as u32);
        states.push((len / size) as u32);
    }
    states.retain(|s| *s <= 0xFFFF);
    states.sort();
    states.dedup();
    let mut classes: Vec<u32> = vec![0, 1, 2, 3, 4, size as u32, (size as u32).saturating_sub(1), size as u32 + 1, 127, 128, 254, 255];
    classes.retain(|c| *c <= 255);
    classes.sort();
    classes.dedup();
    (states.into_iter().map(|s| s as u16).collect(), classes.into_iter().map(|c| c as u8).collect())
}

/// run the machine over `glyphs` for at most `steps` transitions (DONT_ADVANCE = 0x4000 honoured)
fn machine(o: &mut Obs, glyphs: &[u16], steps: usize, class_of: &dyn Fn(u16) -> Option<u16>, entry_of: &dyn Fn(u16, u16) -> Option<(u16, u16, u64)>, action: &mut dyn FnMut(&mut Obs, u16, u16, u64)) {
    let mut state = 0u16;
    let mut i = 0usize;
    let mut n = 0usize;
    while i < glyphs.len() && n < steps {
        n += 1;
        let g = glyphs[i];
        let c = class_of(g).unwrap_or(1);
        match entry_of(state, c) {
            Some((ns, fl, p)) => {
                o.note(ns as u64);
                o.note(fl as u64);
                o.note(p);
                action(o, g, fl, p);
                state = ns;
                if fl & 0x4000 == 0 {
                    i += 1;
                }
            }
            None => {
                o.note(0xDEAD);
                state = if state == 0 { 1 } else { 0 };
                i += 1;
            }
        }
    }
    // end of text
    if let Some((ns, fl, p)) = entry_of(state, 0) {
        o.note(ns as u64);
        action(o, 0xFFFF, fl, p);
    }
    o.note(n as u64);
}

fn glyph_string(probes: &[u16], salt: u64) -> Vec<u16> {
    let mut v = vec![];
    if probes.is_empty() {
        return v;
    }
    let mut x = salt | 1;
    for _ in 0..24 {
        x = x.wrapping_mul(6364136223846793005).wrapping_add(1442695040888963407);
        v.push(probes[(x >> 33) as usize % probes.len()]);
    }
    v
}

fn state_walk_at(bytes: &[u8], o: &mut Obs, act: &mut dyn FnMut(&mut Obs, u16, u16, u64)) {
    let r = StateTable::read(FontData::new(bytes));
    if !o.res(&r) {
        model_check(bytes.len() < 8, || format!("state {}", hex(bytes)), || "StateTable::read failed on >= 8 bytes".into());
        return;
    }
    let t = r.unwrap();
    o.note_str(t.type_name());
    for i in 0..6 {
        match t.get_field(i) {
            Some(f) => o.note_str(f.name),
            None => o.note(0),
        }
    }
    let probes = state_probes(bytes);
    for &g in &probes {
        let r = t.class(GlyphId16::new(g));
        o.res(&r);
        let real = r.ok();
        note_opt(o, real.map(|v| v as u64));
        let want = ref_state_class(bytes, g);
        model_check(real == want, || format!("state.class {} g={g}", hex(bytes)), || format!("class = {real:?}, reference {want:?}"));
    }
    let (states, classes) = state_args(bytes);
    for &s in &states {
        for &c in &classes {
            let r = t.entry(s, c);
            o.res(&r);
            let real = r.ok().map(|e: StateEntry| (e.new_state, e.flags));
            note_opt(o, real.map(|(a, b)| (a as u64) << 16 | b as u64));
            let want = ref_state_entry(bytes, s, c);
            model_check(real == want, || format!("state.entry {} s={s} c={c}", hex(bytes)), || format!("entry = {real:?}, reference {want:?}"));
        }
    }
    let gl = glyph_string(&probes, bytes.len() as u64);
    machine(
        o,
        &gl,
        64,
        &|g| t.class(GlyphId16::new(g)).ok().map(|c| c as u16),
        &|s, c| t.entry(s, c.min(255) as u8).ok().map(|e| (e.new_state, e.flags, 0)),
        act,
    );
}

fn state_walk(bytes: &[u8], o: &mut Obs) {
    state_walk_at(bytes, o, &mut |_, _, _, _| {});
}

// ---- extended state tables

pub struct StxGen {
    pub b: B,
    pub glyphs: Vec<u16>,
    pub n_states: usize,
    pub n_classes: usize,
    pub n_entries: usize,
    pub extra_at: usize,
}

/// `ExtendedStateTable<T>` with `psize = size_of::<T>()`: 16 byte header (+ `extra` bytes), class
/// lookup, state array, entry table in random order.  `payload_max`: payload values are below it
/// (plus 0xFFFF "none" markers).
pub fn gen_stx(rng: &mut Rng, mode: StMode, psize: usize, extra: usize, payload_max: u32) -> StxGen {
    let nc: u64 = match mode {
        StMode::Size => *rng.pick(&[0u64, 1, 2, 3, 0xFFFF, 0x10000, 0x7FFF_FFFF, 0xFFFF_FFFF]),
        StMode::Tiny => 2,
        _ => 4 + rng.below(5),
    };
    let n_states = if mode == StMode::Tiny { 1 } else { 2 + rng.below(4) as usize };
    let n_entries = if mode == StMode::Tiny { 1 } else { 1 + rng.below(6) as usize };
    let arr_words = if nc > 64 { 8 + rng.below(8) as usize } else { n_states * nc as usize };
    let lk_mode = match mode {
        StMode::ClassLimits => *rng.pick(&LK_MODES),
        _ => *rng.pick(&[LkMode::Clean, LkMode::Clean, LkMode::High]),
    };
    let pool: Vec<u32> = (0..nc.clamp(1, 12) as u32 + 1).collect();
    let fmt = *rng.pick(&LK_FORMATS);
    let (class, glyphs) = gen_lookup(rng, fmt, 2, lk_mode, &pool);
    let mut order = [0usize, 1, 2];
    rng.shuffle(&mut order);
    let esize = 4 + psize;
    let sizes = [class.v.len(), 2 * arr_words, esize * n_entries];
    let mut pos = [0usize; 3];
    let mut pads = [0usize; 3];
    let mut at = 16 + extra;
    for (k, blk) in order.iter().enumerate() {
        pads[k] = rng.below(4) as usize;
        at += pads[k];
        pos[*blk] = at;
        at += sizes[*blk];
    }
    let total = at;
    let (mut co, mut ao, mut eo) = (pos[0] as u64, pos[1] as u64, pos[2] as u64);
    if mode == StMode::OffsetsAtEnd {
        let t = total as u64;
        let hostile = [t, t - 1, t + 1, t.saturating_sub(esize as u64), t.saturating_sub(esize as u64 - 1), t.saturating_sub(3), 0, 1, 15, 16, 0x7FFF_FFFF, 0xFFFF_FFFF];
        match rng.below(4) {
            0 => co = *rng.pick(&hostile),
            1 => ao = *rng.pick(&hostile),
            2 => eo = *rng.pick(&hostile),
            _ => {
                ao = *rng.pick(&hostile);
                eo = *rng.pick(&hostile);
            }
        }
    }
    let mut arr = B::new();
    for _ in 0..arr_words {
        let e = match mode {
            StMode::EntryBeyond if rng.chance(1, 3) => *rng.pick(&[n_entries, n_entries + 1, 0x7FFF, 0xFFFF]) as u16,
            _ => rng.below(n_entries as u64) as u16,
        };
        arr.u16(e);
    }
    let mut ent = B::new();
    for _ in 0..n_entries {
        let ns: u16 = match mode {
            StMode::NewState => *rng.pick(&[n_states as u16, n_states as u16 + 1, 0x7FFF, 0xFFFF]),
            _ => rng.below(n_states as u64) as u16,
        };
        let flags = match rng.below(4) {
            0 => 0,
            1 => 0x4000 | (rng.next() as u16 & 0xBFFF),
            _ => rng.next() as u16 & 0xBFFF,
        };
        ent.u16(ns).u16(flags);
        let mut k = 0;
        while k < psize {
            let w = (psize - k).min(2);
            let v: u32 = if rng.chance(1, 4) { 0xFFFF } else { rng.below(payload_max.max(1) as u64) as u32 };
            if w == 2 {
                ent.u16(v as u16);
            } else {
                ent.u8(v as u8);
            }
            k += w;
        }
    }
    let mut b = B::new();
    b.f32(nc as u32).f32(co as u32).f32(ao as u32).f32(eo as u32);
    let extra_at = b.len();
    b.zeros(extra);
    for (k, blk) in order.iter().enumerate() {
        b.bytes(&rng.bytes(pads[k]));
        match blk {
            0 => b.append(&class),
            1 => b.append(&arr),
            _ => b.append(&ent),
        };
    }
    StxGen { b, glyphs, n_states, n_classes: nc as usize, n_entries, extra_at }
}

type StxEntryFn = fn(&[u8], u16, u16) -> Option<(u16, u16, u64)>;
type StxClassFn = fn(&[u8], u16) -> Option<u16>;

macro_rules! stx_impl {
    ($entry:ident, $class:ident, $fields:ident, $t:ty, $dig:expr) => {
        fn $entry(bytes: &[u8], s: u16, c: u16) -> Option<(u16, u16, u64)> {
            let t = ExtendedStateTable::<$t>::read(FontData::new(bytes)).ok()?;
            let e = t.entry(s, c).ok()?;
            let d: fn(&$t) -> u64 = $dig;
            Some((e.new_state, e.flags, d(&e.payload)))
        }
        fn $class(bytes: &[u8], g: u16) -> Option<u16> {
            let t = ExtendedStateTable::<$t>::read(FontData::new(bytes)).ok()?;
            t.class(GlyphId16::new(g)).ok()
        }
        fn $fields(bytes: &[u8], o: &mut Obs) {
            if let Ok(t) = ExtendedStateTable::<$t>::read(FontData::new(bytes)) {
                o.note_str(t.type_name());
                for i in 0..6 {
                    match t.get_field(i) {
                        Some(f) => o.note_str(f.name),
                        None => o.note(0),
                    }
                }
            }
        }
    };
}

stx_impl!(stx0_entry, stx0_class, stx0_fields, NoPayload, |_| 0);
stx_impl!(stx1_entry, stx1_class, stx1_fields, u8, |p| *p as u64);
stx_impl!(stx2_entry, stx2_class, stx2_fields, BigEndian<u16>, |p| p.get() as u64);
stx_impl!(stx4_entry, stx4_class, stx4_fields, LookupSingle<u16>, |p| {
    let (g, v) = (p.glyph, p.value);
    (g.get() as u64) << 16 | v.get() as u64
});
stx_impl!(stx4b_entry, stx4b_class, stx4b_fields, BigEndian<u32>, |p| p.get() as u64);
stx_impl!(stx6_entry, stx6_class, stx6_fields, LookupSegment4, |p| (p.last_glyph() as u64) << 32 | (p.first_glyph() as u64) << 16 | p.value_offset() as u64);
// native u16 payload: the public alias `ExtendedStateTableU16`
fn stxu16_entry(bytes: &[u8], s: u16, c: u16) -> Option<(u16, u16, u64)> {
    let t = ExtendedStateTableU16::read(FontData::new(bytes)).ok()?;
    let e = t.entry(s, c).ok()?;
    Some((e.new_state, e.flags, u16::from_be(e.payload) as u64))
}

fn stx_probes(bytes: &[u8]) -> Vec<u16> {
    let co = w32(bytes, 4) as usize;
    match bytes.get(co..) {
        Some(b) if co >= 16 => lookup_probes(b),
        _ => edge16(&[]),
    }
}

fn stx_args(bytes: &[u8]) -> (Vec<u16>, Vec<u16>) {
    let len = bytes.len();
    let nc = w32(bytes, 0);
    let ao = w32(bytes, 8) as usize;
    let words = (len.saturating_sub(ao) / 2) as u64;
    let rows = words / nc.max(1);
    let mut states: Vec<u64> = vec![0, 1, 2, 3, rows, rows.saturating_sub(1), rows + 1, words, 0x7FFF, 0xFFFE, 0xFFFF];
    states.retain(|s| *s <= 0xFFFF);
    states.sort();
    states.dedup();
    let mut classes: Vec<u64> = vec![0, 1, 2, 3, 4, nc, nc.saturating_sub(1), nc + 1, words, 0xFFFE, 0xFFFF];
    classes.retain(|c| *c <= 0xFFFF);
    classes.sort();
    classes.dedup();
    (states.into_iter().map(|s| s as u16).collect(), classes.into_iter().map(|c| c as u16).collect())
}

fn stx_walk_with(bytes: &[u8], o: &mut Obs, ps: usize, entry: StxEntryFn, class: StxClassFn, act: &mut dyn FnMut(&mut Obs, u16, u16, u64)) {
    if bytes.len() < 16 {
        o.note(entry(bytes, 0, 0).is_some() as u64);
        model_check(entry(bytes, 0, 0).is_none() && class(bytes, 0).is_none(), || format!("stx{ps} {}", hex(bytes)), || "read of < 16 bytes succeeded".into());
        return;
    }
    let probes = stx_probes(bytes);
    for &g in &probes {
        let real = class(bytes, g);
        note_opt(o, real.map(|v| v as u64));
        if let Some(want) = ref_stx_class(bytes, g) {
            model_check(real.map(|v| v as u64) == want, || format!("stx{ps}.class {} g={g}", hex(bytes)), || format!("class = {real:?}, reference {want:?}"));
        }
    }
    let (states, classes) = stx_args(bytes);
    for &s in &states {
        for &c in &classes {
            let real = entry(bytes, s, c);
            note_opt(o, real.map(|(a, b, p)| (a as u64) << 48 ^ (b as u64) << 32 ^ p));
            let want = ref_stx_entry(bytes, ps, s, c);
            model_check(real == want, || format!("stx{ps}.entry {} s={s} c={c}", hex(bytes)), || format!("entry = {real:?}, reference {want:?}"));
        }
    }
    let gl = glyph_string(&probes, bytes.len() as u64);
    machine(o, &gl, 64, &|g| class(bytes, g), &|s, c| entry(bytes, s, c), act);
}

fn stx_walk(ps: usize) -> impl Fn(&[u8], &mut Obs) {
    move |bytes: &[u8], o: &mut Obs| {
        let mut noact = |_: &mut Obs, _: u16, _: u16, _: u64| {};
        match ps {
            0 => {
                stx0_fields(bytes, o);
                stx_walk_with(bytes, o, 0, stx0_entry, stx0_class, &mut noact)
            }
            1 => {
                stx1_fields(bytes, o);
                stx_walk_with(bytes, o, 1, stx1_entry, stx1_class, &mut noact)
            }
            2 => {
                stx2_fields(bytes, o);
                stx_walk_with(bytes, o, 2, stx2_entry, stx2_class, &mut noact)
            }
            4 => {
                stx4_fields(bytes, o);
                stx4b_fields(bytes, o);
                stx_walk_with(bytes, o, 4, stx4_entry, stx4_class, &mut noact);
                stx_walk_with(bytes, o, 4, stx4b_entry, stx4b_class, &mut noact)
            }
            _ => {
                stx6_fields(bytes, o);
                stx_walk_with(bytes, o, 6, stx6_entry, stx6_class, &mut noact)
            }
        }
    }
}

/// `StateEntry::<T>::read` directly on short buffers
fn state_entry_walk(bytes: &[u8], o: &mut Obs) {
    let d = FontData::new(bytes);
    let n = bytes.len();
    let a = StateEntry::<NoPayload>::read(d);
    o.res(&a);
    model_check(a.is_ok() == (n >= 4), || format!("entry0 {}", hex(bytes)), || "StateEntry::<NoPayload>::read ok-ness".into());
    if let Ok(e) = a {
        model_check(e.new_state as u32 == w16(bytes, 0) && e.flags as u32 == w16(bytes, 2), || format!("entry0 {}", hex(bytes)), || "fields".into());
    }
    let a = StateEntry::<u8>::read(d);
    o.res(&a);
    model_check(a.is_ok() == (n >= 5), || format!("entry1 {}", hex(bytes)), || "StateEntry::<u8>::read ok-ness".into());
    let a = StateEntry::<BigEndian<u16>>::read(d);
    o.res(&a);
    model_check(a.is_ok() == (n >= 6), || format!("entry2 {}", hex(bytes)), || "StateEntry::<BigEndian<u16>>::read ok-ness".into());
    if let Ok(e) = a {
        o.note(e.payload.get() as u64);
        model_check(e.payload.get() as u32 == w16(bytes, 4), || format!("entry2 {}", hex(bytes)), || "payload".into());
    }
    let a = StateEntry::<BigEndian<u32>>::read(d);
    o.res(&a);
    model_check(a.is_ok() == (n >= 8), || format!("entry4 {}", hex(bytes)), || "StateEntry::<BigEndian<u32>>::read ok-ness".into());
    let a = StateEntry::<LookupSingle<u32>>::read(d);
    o.res(&a);
    model_check(a.is_ok() == (n >= 10), || format!("entry6 {}", hex(bytes)), || "StateEntry::<LookupSingle<u32>>::read ok-ness".into());
}

pub fn run_state(ctx: &mut Ctx) {
    let rounds = if ctx.thorough { 144 } else { 24 };
    for _ in 0..rounds {
        for &mode in &ST_MODES {
            let extra = if ctx.rng.chance(1, 2) { 2 } else { 0 };
            let g = gen_state_table(&mut ctx.rng, mode, extra);
            ctx.drive(&format!("state.{mode:?}"), &g.b, &state_walk);
            ctx.count(&format!("legacy.{mode:?}"));
            flush_model(ctx);
        }
    }
    let rounds = if ctx.thorough { 36 } else { 6 };
    for _ in 0..rounds {
        for &mode in &ST_MODES {
            for ps in [0usize, 1, 2, 4, 6] {
                let extra = if ctx.rng.chance(1, 2) { 4 } else { 0 };
                let g = gen_stx(&mut ctx.rng, mode, ps, extra, 8);
                let f = stx_walk(ps);
                ctx.drive(&format!("stx{ps}.{mode:?}"), &g.b, &f);
                ctx.count(&format!("stx{ps}"));
                ctx.count(&format!("extended.{mode:?}"));
                flush_model(ctx);
            }
        }
    }
    // StateEntry::read: every length, three fillings
    for n in 0..=12usize {
        for fill in 0..3 {
            let v: Vec<u8> = match fill {
                0 => (0..n).map(|i| i as u8 + 1).collect(),
                1 => vec![0xFF; n],
                _ => ctx.rng.bytes(n),
            };
            ctx.call("state-entry", &v, &state_entry_walk);
        }
    }
    // state_size sweep on a fixed small legacy table: header, class table (2 glyphs), 12 bytes of
    // state array, 2 entries
    for size in [0u16, 1, 2, 3, 4, 5, 6, 7, 11, 12, 13, 255, 256, 0xFFFF] {
        let mut b = B::new();
        b.u16(size).u16(8).u16(14).u16(26);
        b.u16(3).u16(2).u8(1).u8(0);
        for k in 0..12u8 {
            b.u8(k % 3);
        }
        b.u16(14).u16(0x1111).u16(size.wrapping_add(14)).u16(0x2222).u16(13).u16(0x3333);
        for cut in [0usize, 1, 2, 3, 4, 5, 8] {
            let l = b.v.len() - cut;
            ctx.call("state.size-sweep", &b.v[..l], &state_walk);
        }
    }
    // n_classes sweep on a fixed small extended table with 2 byte payloads
    for nc in [0u32, 1, 2, 3, 4, 5, 6, 7, 0xFFFF, 0x10000, 0xFFFF_FFFF] {
        let mut b = B::new();
        b.u32(nc).u32(16).u32(28).u32(52);
        b.u16(8).u16(10).u16(4).u16(1).u16(2).u16(3);
        for k in 0..12u16 {
            b.u16(k % 3);
        }
        for k in 0..3u16 {
            b.u16(k).u16(0x1000 * k).u16(0xA0 + k);
        }
        let f = stx_walk(2);
        for cut in [0usize, 1, 2, 3, 5, 6, 7] {
            let l = b.v.len() - cut;
            ctx.call("stx2.nclasses-sweep", &b.v[..l], &f);
        }
    }
    flush_model(ctx);
    ctx.drive_random("state.random", if ctx.thorough { 6000 } else { 1000 }, 64, &state_walk);
    for ps in [0usize, 2, 4] {
        let f = stx_walk(ps);
        ctx.drive_random(&format!("stx{ps}.random"), if ctx.thorough { 3000 } else { 500 }, 80, &f);
    }
    flush_model(ctx);
    stx_u16_section(ctx);
}

/// `ExtendedStateTableU16` (= `ExtendedStateTable<u16>`, a native, 2-aligned payload type): a small
/// dedicated section, because `StateEntry::<u16>::read` → `FontData::read_ref_at::<u16>` →
/// `bytemuck::from_bytes` panics whenever the payload lands on an odd address.
fn stx_u16_section(ctx: &mut Ctx) {
    let walk = |bytes: &[u8], o: &mut Obs| {
        for s in 0..2u16 {
            for c in 0..3u16 {
                let real = stxu16_entry(bytes, s, c);
                note_opt(o, real.map(|(a, b, p)| (a as u64) << 48 ^ (b as u64) << 32 ^ p));
                let want = ref_stx_entry(bytes, 2, s, c);
                model_check(real == want, || format!("stx-u16.entry {} s={s} c={c}", hex(bytes)), || format!("entry = {real:?}, reference {want:?}"));
            }
        }
    };
    // minimal table: n_classes 1, one state, one entry with a 2 byte payload; entry table at an
    // even (18) / odd (19) offset
    for entry_off in [18u32, 19] {
        let mut b = B::new();
        b.u32(1).u32(0).u32(16).u32(entry_off);
        b.u16(0);
        if entry_off == 19 {
            b.u8(0);
        }
        b.u16(1).u16(2).u16(3);
        ctx.call(&format!("stx-u16.entry-offset-{entry_off}"), &b.v, &walk);
        ctx.count("stx-u16");
    }
    flush_model(ctx);
}

// ------------------------------------------------------------------------------------------------
// kern / kerx / morx SHAPES (the repository has no kern.rs / kerx.rs / morx.rs at this commit): the
// aat.rs primitives embedded in subtable-like buffers, driven by bounded machine walks whose actions
// chain further reads the way those tables do.

fn sub_bytes(bytes: &[u8], at: usize) -> Option<&[u8]> {
    FontData::new(bytes).split_off(at).map(|d| d.as_bytes())
}

/// kern format 1: [length u32, coverage u8, format u8, tuple u16] StateHeader, valueTable u16, …
fn gen_kern1(rng: &mut Rng, mode: StMode) -> B {
    let g = gen_state_table(rng, mode, 2);
    let mut b = B::new();
    b.f32(0).u8(rng.next() as u8).u8(1).u16(0);
    let at = b.append(&g.b);
    let vt = b.len() - at;
    b.set16(at + g.extra_at, vt as u16);
    b.mark(at + g.extra_at, 2);
    for _ in 0..rng.below(12) {
        let v = (rng.range(-200, 200) as i16) & !1 | (rng.chance(1, 3) as i16);
        b.i16(v);
    }
    let l = b.len() as u32;
    b.set32(0, l);
    b
}

fn kern1_walk(bytes: &[u8], o: &mut Obs) {
    let Some(st) = sub_bytes(bytes, 8) else {
        o.note(0);
        return;
    };
    let data = FontData::new(st);
    let len = st.len();
    state_walk_at(st, o, &mut |o, _g, fl, _p| {
        // value list: i16s up to the first odd one, at most 8
        let off = (fl & 0x3FFF) as usize % (len + 2);
        if off != 0 {
            for k in 0..8usize {
                match data.read_at::<i16>(off + 2 * k) {
                    Ok(v) => {
                        o.note(v as u16 as u64);
                        if v & 1 != 0 {
                            break;
                        }
                    }
                    Err(_) => {
                        o.note(3);
                        break;
                    }
                }
            }
        }
    });
}

pub fn run_kern(ctx: &mut Ctx) {
    let rounds = if ctx.thorough { 120 } else { 20 };
    for _ in 0..rounds {
        for &mode in &ST_MODES {
            let b = gen_kern1(&mut ctx.rng, mode);
            ctx.drive(&format!("kern1.{mode:?}"), &b, &kern1_walk);
            ctx.count(&format!("kern1.{mode:?}"));
            flush_model(ctx);
        }
    }
    ctx.drive_random("kern1.random", if ctx.thorough { 6000 } else { 1000 }, 72, &kern1_walk);
    flush_model(ctx);
}

/// kerx format 1 / 4: [length u32, coverage u32, tupleCount u32] StxHeader, valueTable / controlPoint u32, …
fn gen_kerx14(rng: &mut Rng, mode: StMode, format: u8) -> B {
    let g = gen_stx(rng, mode, 2, 4, 10);
    let mut b = B::new();
    b.f32(0).u32(format as u32 | if rng.chance(1, 2) { 0x8000_0000 } else { 0 }).f32(rng.below(3) as u32);
    let at = b.append(&g.b);
    let vt = b.len() - at;
    let flags = if format == 4 { (rng.below(3) as u32) << 30 } else { 0 };
    b.set32(at + g.extra_at, vt as u32 | flags);
    b.mark(at + g.extra_at, 4);
    for _ in 0..rng.below(16) {
        b.i16(rng.range(-300, 300) as i16);
    }
    let l = b.len() as u32;
    b.set32(0, l);
    b
}

fn kerx14_walk(bytes: &[u8], o: &mut Obs) {
    let Some(st) = sub_bytes(bytes, 12) else {
        o.note(0);
        return;
    };
    let format = w32(bytes, 4) & 0xFF;
    let data = FontData::new(st);
    stx2_fields(st, o);
    let vt = w32(st, 16);
    stx_walk_with(st, o, 2, stx2_entry, stx2_class, &mut |o, _g, _fl, p| {
        if p == 0xFFFF {
            return;
        }
        if format == 4 {
            // action type in the top two bits: control points / anchor points (pairs of u16),
            // coordinates (4 i16)
            let (ty, off) = (vt >> 30, (vt & 0x00FF_FFFF) as usize);
            let n = if ty == 2 { 4 } else { 2 };
            for k in 0..n {
                o.res(&data.read_at::<u16>(off.saturating_add((p as usize * n + k) * 2)));
            }
        } else {
            for k in 0..8usize {
                match data.read_at::<i16>((vt as usize).saturating_add((p as usize + k) * 2)) {
                    Ok(v) => {
                        o.note(v as u16 as u64);
                        if v & 1 != 0 {
                            break;
                        }
                    }
                    Err(_) => break,
                }
            }
        }
    });
}

/// kerx format 2 / 6: header 12, then [flags u32, rows u16, cols u16, rowTable u32, colTable u32,
/// array u32] with two lookup tables (u16, or u32 when flags & 1) and a value array
fn gen_kerx6(rng: &mut Rng, long: bool) -> B {
    let mut b = B::new();
    let rows = 1 + rng.below(4) as u32;
    let cols = 1 + rng.below(4) as u32;
    b.f32(0).u32(6).f32(0);
    b.u32(long as u32).f16(rows as u16).f16(cols as u16).f32(0).f32(0).f32(0);
    let vs = if long { 4 } else { 2 };
    let row_pool: Vec<u32> = (0..rows + 1).map(|r| r * cols).collect();
    let col_pool: Vec<u32> = (0..cols + 1).collect();
    for (k, pool) in [row_pool, col_pool].iter().enumerate() {
        let fmt = *rng.pick(&LK_FORMATS);
        let mode = *rng.pick(&LK_MODES);
        let lvs = if fmt == 10 { *rng.pick(&[1usize, 2, 4]) } else { vs };
        let (lk, _) = gen_lookup(rng, fmt, lvs, mode, pool);
        let at = b.append(&lk);
        b.set32(20 + 4 * k, at as u32);
        let pad = rng.below(3) as usize;
        b.zeros(pad);
    }
    let at = b.len();
    b.set32(28, at as u32);
    for _ in 0..rows * cols {
        if long {
            b.i32(rng.range(-70000, 70000) as i32);
        } else {
            b.i16(rng.range(-300, 300) as i16);
        }
    }
    if rng.chance(1, 3) {
        let l = b.v.len() - 1;
        b.v.truncate(l);
    }
    let l = b.len() as u32;
    b.set32(0, l);
    b
}

fn kerx6_walk(bytes: &[u8], o: &mut Obs) {
    let data = FontData::new(bytes);
    let long = w32(bytes, 12) & 1 != 0;
    let (ro, co, ao) = (w32(bytes, 20) as usize, w32(bytes, 24) as usize, w32(bytes, 28) as usize);
    let (Some(rb), Some(cb)) = (sub_bytes(bytes, ro), sub_bytes(bytes, co)) else {
        o.note(0);
        return;
    };
    let mut lp = lookup_probes(rb);
    let mut rp = lookup_probes(cb);
    lookup_values(rb, o, &lp);
    lookup_values(cb, o, &rp);
    lp.truncate(40);
    rp.truncate(40);
    let row = |g: u16| -> Option<u32> {
        if long {
            LookupU32::read(FontData::new(rb)).ok()?.value(g).ok()
        } else {
            LookupU16::read(FontData::new(rb)).ok()?.value(g).ok().map(|v| v as u32)
        }
    };
    let col = |g: u16| -> Option<u32> {
        if long {
            LookupU32::read(FontData::new(cb)).ok()?.value(g).ok()
        } else {
            LookupU16::read(FontData::new(cb)).ok()?.value(g).ok().map(|v| v as u32)
        }
    };
    for &l in lp.iter().step_by(3) {
        let Some(r) = row(l) else { continue };
        for &g in rp.iter().step_by(3) {
            let Some(c) = col(g) else { continue };
            let ix = (r as usize).saturating_add(c as usize);
            if long {
                o.res(&data.read_at::<i32>(ao.saturating_add(ix.saturating_mul(4))));
            } else {
                o.res(&data.read_at::<i16>(ao.saturating_add(ix.saturating_mul(2))));
            }
        }
    }
}

pub fn run_kerx(ctx: &mut Ctx) {
    let rounds = if ctx.thorough { 48 } else { 8 };
    for _ in 0..rounds {
        for &mode in &ST_MODES {
            for format in [1u8, 4] {
                let b = gen_kerx14(&mut ctx.rng, mode, format);
                ctx.drive(&format!("kerx{format}.{mode:?}"), &b, &kerx14_walk);
                ctx.count(&format!("kerx{format}"));
                flush_model(ctx);
            }
        }
        for long in [false, true] {
            for _ in 0..3 {
                let b = gen_kerx6(&mut ctx.rng, long);
                ctx.drive(if long { "kerx6.long" } else { "kerx6.short" }, &b, &kerx6_walk);
                ctx.count(if long { "kerx6.long" } else { "kerx6.short" });
                flush_model(ctx);
            }
        }
    }
    ctx.drive_random("kerx14.random", if ctx.thorough { 3000 } else { 500 }, 96, &kerx14_walk);
    ctx.drive_random("kerx6.random", if ctx.thorough { 3000 } else { 500 }, 96, &kerx6_walk);
    flush_model(ctx);
}

/// morx subtables: [length u32, coverage u32, subFeatureFlags u32] then
///  * contextual (type 1): StxHeader, substitutionTable u32 → offsets u32[] → LookupGlyphId tables
///  * ligature (type 2): StxHeader, ligAction u32, component u32, ligature u32 + the three arrays
///  * non-contextual (type 4): LookupGlyphId
///  * insertion (type 5): StxHeader, insertionAction u32 + glyph list
fn gen_morx(rng: &mut Rng, mode: StMode, ty: u8) -> B {
    let mut b = B::new();
    b.f32(0).u32(ty as u32).u32(rng.next() as u32);
    match ty {
        1 => {
            let n_tables = 1 + rng.below(3) as u32;
            let g = gen_stx(rng, mode, 4, 4, n_tables + 1);
            let at = b.append(&g.b);
            let st = b.len() - at;
            b.set32(at + g.extra_at, st as u32);
            b.mark(at + g.extra_at, 4);
            let offs_at = b.len();
            for _ in 0..n_tables {
                b.f32(0);
            }
            for k in 0..n_tables as usize {
                let o = b.len() - offs_at;
                b.set32(offs_at + 4 * k, o as u32);
                let fmt = *rng.pick(&LK_FORMATS);
                let lm = *rng.pick(&LK_MODES);
                let (lk, _) = gen_lookup(rng, fmt, 2, lm, &[]);
                b.append(&lk);
            }
        }
        2 => {
            let g = gen_stx(rng, mode, 2, 12, 6);
            let at = b.append(&g.b);
            for k in 0..3usize {
                let o = b.len() - at;
                b.set32(at + g.extra_at + 4 * k, o as u32);
                b.mark(at + g.extra_at + 4 * k, 4);
                for _ in 0..4 + rng.below(6) {
                    match k {
                        0 => {
                            let last = if rng.chance(1, 3) { 0x8000_0000u32 } else { 0 };
                            let store = if rng.chance(1, 2) { 0x4000_0000u32 } else { 0 };
                            let off = (rng.range(-40, 40) as i32 as u32) & 0x3FFF_FFFF;
                            b.u32(last | store | off);
                        }
                        _ => {
                            b.u16(rng.below(12) as u16);
                        }
                    }
                }
            }
        }
        4 => {
            let fmt = *rng.pick(&LK_FORMATS);
            let lm = *rng.pick(&LK_MODES);
            let (lk, _) = gen_lookup(rng, fmt, 2, lm, &[]);
            b.append(&lk);
        }
        _ => {
            let g = gen_stx(rng, mode, 4, 4, 8);
            let at = b.append(&g.b);
            let o = b.len() - at;
            b.set32(at + g.extra_at, o as u32);
            b.mark(at + g.extra_at, 4);
            for _ in 0..rng.below(14) {
                b.u16(rng.next() as u16);
            }
        }
    }
    let l = b.len() as u32;
    b.set32(0, l);
    b
}

fn morx_walk(bytes: &[u8], o: &mut Obs) {
    let ty = w32(bytes, 4) & 0xFF;
    let Some(st) = sub_bytes(bytes, 12) else {
        o.note(0);
        return;
    };
    let data = FontData::new(st);
    let len = st.len();
    match ty {
        1 => {
            stx4_fields(st, o);
            let subst = w32(st, 16) as usize;
            stx_walk_with(st, o, 4, stx4_entry, stx4_class, &mut |o, g, _fl, p| {
                // (mark index, current index) → per-glyph lookup tables through the offset list
                for idx in [p >> 16, p & 0xFFFF] {
                    if idx == 0xFFFF {
                        continue;
                    }
                    let Ok(off) = data.read_at::<u32>(subst.saturating_add(idx as usize * 4)) else {
                        o.note(3);
                        continue;
                    };
                    let Some(lb) = sub_bytes(st, subst.saturating_add(off as usize)) else {
                        o.note(4);
                        continue;
                    };
                    lookup_values(lb, o, &[g, g.wrapping_add(1), g.wrapping_sub(1), 0, 0xFFFF]);
                }
            });
        }
        2 => {
            stx2_fields(st, o);
            let (la, comp, lig) = (w32(st, 16) as usize, w32(st, 20) as usize, w32(st, 24) as usize);
            stx_walk_with(st, o, 2, stx2_entry, stx2_class, &mut |o, g, fl, p| {
                if fl & 0x2000 == 0 {
                    return;
                }
                let mut acc: u32 = 0;
                for k in 0..16usize {
                    let Ok(action) = data.read_at::<u32>(la.saturating_add((p as usize + k) * 4)) else {
                        o.note(3);
                        break;
                    };
                    // 30 bit signed offset added to the glyph id
                    let off = ((action << 2) as i32) >> 2;
                    let ix = (g as i32).wrapping_add(off);
                    if ix >= 0 {
                        if let Ok(c) = data.read_at::<u16>(comp.saturating_add(ix as usize * 2)) {
                            acc = acc.wrapping_add(c as u32);
                        }
                    }
                    if action & 0xC000_0000 != 0 {
                        o.res(&data.read_at::<u16>(lig.saturating_add(acc as usize * 2)));
                        acc = 0;
                    }
                    if action & 0x8000_0000 != 0 {
                        break;
                    }
                }
            });
        }
        4 => {
            let gs = lookup_probes(st);
            lookup_values(st, o, &gs);
        }
        _ => {
            stx4_fields(st, o);
            let ins = w32(st, 16) as usize;
            stx_walk_with(st, o, 4, stx4_entry, stx4_class, &mut |o, _g, fl, p| {
                for (idx, count) in [(p >> 16, (fl >> 5) & 0x1F), (p & 0xFFFF, fl & 0x1F)] {
                    if idx == 0xFFFF {
                        continue;
                    }
                    for k in 0..count as usize {
                        if !o.res(&data.read_at::<u16>(ins.saturating_add((idx as usize + k) * 2))) {
                            break;
                        }
                    }
                }
            });
        }
    }
    let _ = len;
}

pub fn run_morx(ctx: &mut Ctx) {
    let rounds = if ctx.thorough { 36 } else { 6 };
    for _ in 0..rounds {
        for &mode in &ST_MODES {
            for ty in [1u8, 2, 4, 5] {
                let b = gen_morx(&mut ctx.rng, mode, ty);
                ctx.drive(&format!("morx{ty}.{mode:?}"), &b, &morx_walk);
                ctx.count(&format!("type{ty}"));
                flush_model(ctx);
            }
        }
    }
    for ty in [1u8, 2, 4, 5] {
        // random bytes behind a valid subtable type
        for _ in 0..(if ctx.thorough { 1500 } else { 250 }) {
            let mut v = vec![0, 0, 0, 0, 0, 0, 0, ty, 0, 0, 0, 0];
            let n = ctx.rng.below(80) as usize;
            let mut tail = ctx.rng.bytes(n);
            for x in tail.iter_mut() {
                if ctx.rng.chance(3, 5) {
                    *x &= 0x1F;
                }
            }
            v.extend(tail);
            ctx.call(&format!("morx{ty}.random"), &v, &morx_walk);
        }
    }
    flush_model(ctx);
}

// ------------------------------------------------------------------------------------------------
// ankr / feat / ltag

#[derive(Clone, Copy, PartialEq, Eq, Debug)]
enum AnkrMode {
    Clean,
    DataOffset,
    LookupOffset,
    NumPoints,
    EntryAtEnd,
}

fn gen_ankr(rng: &mut Rng, mode: AnkrMode) -> B {
    // glyph data entries first (their offsets are the lookup values)
    let mut gd = B::new();
    let mut offs: Vec<u32> = vec![];
    for _ in 0..1 + rng.below(4) {
        offs.push(gd.len() as u32);
        let n = rng.below(4) as u32;
        let declared = if mode == AnkrMode::NumPoints && rng.chance(1, 2) { *rng.pick(&[n + 1, 0x3FFF_FFFF, 0x4000_0000, 0x4000_0001, 0x7FFF_FFFF, 0xFFFF_FFFF]) } else { n };
        gd.f32(declared);
        for _ in 0..n {
            gd.i16(rng.next() as i16).i16(rng.next() as i16);
        }
    }
    if mode == AnkrMode::EntryAtEnd {
        // lookup values pointing at the last bytes / the end / beyond
        let l = gd.len() as u32;
        offs.extend([l, l - 1, l - 3, l - 4, l + 1, 0xFFFF]);
    }
    let fmt = *rng.pick(&LK_FORMATS);
    let lm = if mode == AnkrMode::Clean { *rng.pick(&[LkMode::Clean, LkMode::High]) } else { *rng.pick(&LK_MODES) };
    let (lk, _) = gen_lookup(rng, fmt, 2, lm, &offs);
    let mut b = B::new();
    b.u16(0).u16(0).f32(12).f32(0);
    b.append(&lk);
    let pad = rng.below(3) as usize;
    b.zeros(pad);
    let gdo = b.len() as u32;
    b.append(&gd);
    let total = b.len() as u32;
    let gdo = match mode {
        AnkrMode::DataOffset => *rng.pick(&[0u32, 1, total, total - 1, total - 4, total + 1, 0x7FFF_FFFF, 0xFFFF_FFF0, 0xFFFF_FFFF]),
        _ => gdo,
    };
    b.set32(8, gdo);
    if mode == AnkrMode::LookupOffset {
        let lo = *rng.pick(&[0u32, 1, 11, 13, total, total - 1, total - 2, total + 1, 0xFFFF_FFFF]);
        b.set32(4, lo);
    }
    b
}

/// `Ankr::anchor_points` → number of points
fn ref_ankr(b: &[u8], g: u32) -> Option<Option<usize>> {
    if b.len() < 12 {
        return Some(None);
    }
    if g > 0xFFFF {
        return Some(None);
    }
    let lo = w32(b, 4) as usize;
    if lo == 0 || lo > b.len() {
        return Some(None);
    }
    let Some(off) = ref_lookup(&b[lo..], 2, g as u16)? else { return Some(None) };
    let full = w32(b, 8) as usize + off as usize;
    let Some(n) = rd(b, full, 4) else { return Some(None) };
    let end = (full + 4).checked_add((n as usize).checked_mul(4)?)?;
    Some(if end <= b.len() { Some(n as usize) } else { None })
}

fn ankr_walk(bytes: &[u8], o: &mut Obs) {
    let r = Ankr::read(FontData::new(bytes));
    if !o.res(&r) {
        model_check(bytes.len() < 12, || format!("ankr {}", hex(bytes)), || "Ankr::read failed on >= 12 bytes".into());
        return;
    }
    let t = r.unwrap();
    let lo = w32(bytes, 4) as usize;
    let mut gs: Vec<u32> = match bytes.get(lo..) {
        Some(b) => lookup_probes(b).into_iter().map(|g| g as u32).collect(),
        None => edge16(&[]).into_iter().map(|g| g as u32).collect(),
    };
    gs.extend([0x10000, 0x10001, 0xFFFFFF, 0x7FFF_FFFF, 0xFFFF_FFFF]);
    for g in gs {
        let r = t.anchor_points(GlyphId::new(g));
        o.res(&r);
        let real = r.as_ref().ok().map(|p| p.len());
        if let Ok(p) = &r {
            // at most one point per 4 bytes
            model_check(p.len() <= bytes.len() / 4, || format!("ankr {} g={g}", hex(bytes)), || format!("{} points from {} bytes", p.len(), bytes.len()));
            o.note(p.len() as u64);
            for pt in p.iter().take(3).chain(p.iter().rev().take(1)) {
                o.note(pt.x() as u16 as u64);
                o.note(pt.y() as u16 as u64);
            }
        }
        if let Some(want) = ref_ankr(bytes, g) {
            model_check(real == want, || format!("ankr {} g={g}", hex(bytes)), || format!("anchor_points = {real:?} points, reference {want:?}"));
        }
    }
}

#[derive(Clone, Copy, PartialEq, Eq, Debug)]
enum FeatMode {
    Clean,
    Unsorted,
    Duplicates,
    CountBeyond,
    SettingsAtEnd,
    Empty,
}

fn gen_feat(rng: &mut Rng, mode: FeatMode) -> B {
    let n = if mode == FeatMode::Empty { 0 } else { 1 + rng.below(6) as usize };
    let mut feats: Vec<u16> = vec![];
    let mut cur = if rng.chance(1, 4) { 0xFFFF - 2 * n as u32 - rng.below(3) as u32 } else { rng.below(5) as u32 };
    for _ in 0..n {
        feats.push(cur.min(0xFFFF) as u16);
        cur += 1 + rng.below(3) as u32;
    }
    match mode {
        FeatMode::Unsorted => rng.shuffle(&mut feats),
        FeatMode::Duplicates if n > 1 => {
            let k = rng.below(n as u64 - 1) as usize;
            feats[k + 1] = feats[k];
        }
        _ => {}
    }
    let declared = match mode {
        FeatMode::CountBeyond => n + 1,
        _ => n,
    };
    let mut b = B::new();
    b.u32(0x0001_0000).f16(declared as u16).u16(0).u32(0);
    let names_at = b.len();
    let mut n_settings = vec![];
    for f in &feats {
        let ns = rng.below(4) as u16;
        n_settings.push(ns);
        let flags: u16 = match rng.below(4) {
            0 => 0,
            1 => 0x8000,
            2 => 0xC000 | rng.below(256) as u16,
            _ => rng.next() as u16,
        };
        b.f16(*f).f16(ns).f32(0).u16(flags).u16(256 + rng.below(40) as u16);
    }
    for (k, ns) in n_settings.iter().enumerate() {
        let at = b.len();
        b.set32(names_at + 12 * k + 4, at as u32);
        for s in 0..*ns {
            b.u16(s).u16(300 + s);
        }
    }
    if mode == FeatMode::SettingsAtEnd && n > 0 {
        let k = rng.below(n as u64) as usize;
        let l = b.len() as u32;
        let v = *rng.pick(&[l, l - 1, l - 3, l - 4, l + 1, 0, 0xFFFF_FFFF]);
        b.set32(names_at + 12 * k + 4, v);
        b.set16(names_at + 12 * k + 2, *rng.pick(&[1u16, 2, 0x4000, 0xFFFF]));
    }
    if mode == FeatMode::CountBeyond {
        // the declared count needs 12 more bytes than there are
        let l = b.len();
        b.v.truncate(l.min(names_at + 12 * n + rng.below(12) as usize));
    }
    b
}

fn feat_walk(bytes: &[u8], o: &mut Obs) {
    let r = Feat::read(FontData::new(bytes));
    if !o.res(&r) {
        return;
    }
    let t = r.unwrap();
    let names = t.names();
    let len = bytes.len();
    model_check(names.len() <= len / 12, || format!("feat {}", hex(bytes)), || "more names than 12-byte records".into());
    let feats: Vec<u16> = names.iter().take(64).map(|n| n.feature()).collect();
    let strictly_sorted = names.windows(2).all(|w| w[0].feature() < w[1].feature());
    let probes = edge16(&feats.iter().map(|f| *f as u32).collect::<Vec<_>>());
    for f in probes {
        let r = t.find(f);
        match &r {
            Some(n) => {
                o.note(1);
                o.note(n.feature() as u64);
                o.note(n.n_settings() as u64);
                o.note(n.is_exclusive() as u64);
                o.note(n.default_setting_index() as u64);
                // whatever the order of the records: a hit is a record with this feature code
                model_check(n.feature() == f, || format!("feat {} f={f}", hex(bytes)), || format!("find returned feature {}", n.feature()));
            }
            None => o.note(2),
        }
        if strictly_sorted && names.len() <= 64 {
            let want = feats.contains(&f);
            model_check(r.is_some() == want, || format!("feat {} f={f}", hex(bytes)), || format!("find = {} but membership = {want}", r.is_some()));
        }
    }
    o.drain("names", len / 12 + 1, names.iter(), |o, n| {
        let fl = n.feature_flags();
        let excl = n.is_exclusive();
        let dsi = n.default_setting_index();
        o.note(excl as u64);
        o.note(dsi as u64);
        model_check(excl == (fl & 0x8000 != 0) && dsi == if fl & 0x4000 != 0 { fl & 0xFF } else { 0 }, || format!("feat {} flags={fl:#x}", hex(bytes)), || format!("is_exclusive {excl} default_setting_index {dsi}"));
        let st = n.setting_table(t.offset_data());
        if o.res(&st) {
            let st = st.unwrap();
            o.drain("settings", len / 4 + 1, st.settings().iter(), |o, s| {
                o.note(s.setting() as u64);
                o.note(s.name_index().to_u16() as u64);
            });
        }
    });
}

#[derive(Clone, Copy, PartialEq, Eq, Debug)]
enum LtagMode {
    Clean,
    RangesAtEnd,
    BadUtf8,
    CountBeyond,
    Overlap,
    Empty,
}

const TAGS: [&str; 8] = ["en", "sp", "sr", "zh-Hant", "", "x", "de-AT", "en"];

fn gen_ltag(rng: &mut Rng, mode: LtagMode) -> B {
    let n = if mode == LtagMode::Empty { 0 } else { 1 + rng.below(6) as usize };
    let mut b = B::new();
    let declared = if mode == LtagMode::CountBeyond { *rng.pick(&[n as u32 + 1, n as u32 + 2, 0x4000_0000, 0xFFFF_FFFF]) } else { n as u32 };
    b.u32(1).u32(0).f32(declared);
    let ranges_at = b.len();
    for _ in 0..n {
        b.f16(0).f16(0);
    }
    let mut strings: Vec<(usize, usize)> = vec![];
    for k in 0..n {
        let t = *rng.pick(&TAGS);
        let at = b.len();
        if mode == LtagMode::BadUtf8 && rng.chance(1, 2) {
            let bad: &[u8] = *rng.pick(&[&[0xFFu8][..], &[0xC3], &[0xE2, 0x82], &[0x80, 0x41], &[0xC0, 0x80], &[0xED, 0xA0, 0x80]]);
            b.bytes(bad);
            strings.push((at, bad.len()));
        } else {
            b.bytes(t.as_bytes());
            strings.push((at, t.len()));
        }
        b.set16(ranges_at + 4 * k, strings[k].0 as u16);
        b.set16(ranges_at + 4 * k + 2, strings[k].1 as u16);
    }
    if n > 0 {
        let k = rng.below(n as u64) as usize;
        let l = b.len();
        match mode {
            LtagMode::RangesAtEnd => {
                let (off, ln) = *rng.pick(&[(l, 0usize), (l, 1), (l - 1, 1), (l - 1, 2), (l + 1, 0), (0, l), (0, l + 1), (0xFFFF, 0xFFFF), (0xFFFF, 1), (1, 0xFFFF), (l - 2, 2)]);
                b.set16(ranges_at + 4 * k, off as u16);
                b.set16(ranges_at + 4 * k + 2, ln as u16);
            }
            LtagMode::Overlap => {
                let j = rng.below(n as u64) as usize;
                let (off, ln) = strings[j];
                b.set16(ranges_at + 4 * k, off as u16);
                b.set16(ranges_at + 4 * k + 2, (ln + rng.below(2) as usize) as u16);
            }
            _ => {}
        }
    }
    b
}

fn ltag_walk(bytes: &[u8], o: &mut Obs) {
    let r = Ltag::read(FontData::new(bytes));
    if !o.res(&r) {
        return;
    }
    let t = r.unwrap();
    let len = bytes.len();
    let ranges = t.tag_ranges();
    // reference: the in-bounds, valid UTF-8 ranges in table order
    let mut want: Vec<(u32, &str)> = vec![];
    for (i, rg) in ranges.iter().enumerate().take(len / 4 + 1) {
        let (s, l) = (rg.offset() as usize, rg.length() as usize);
        if let Some(sb) = bytes.get(s..s + l) {
            if let Ok(st) = std::str::from_utf8(sb) {
                want.push((i as u32, st));
            }
        }
    }
    let mut got: Vec<(u32, &str)> = vec![];
    // one item per 4-byte range record at most
    o.drain("tag_indices", len / 4 + 1, t.tag_indices(), |o, (i, s)| {
        o.note(i as u64);
        o.note_str(s);
        got.push((i, s));
    });
    model_check(got == want, || format!("ltag {}", hex(bytes)), || format!("tag_indices = {got:?}, reference {want:?}"));
    let mut asks: Vec<String> = want.iter().take(12).map(|(_, s)| s.to_string()).collect();
    asks.extend(["".to_string(), "en".to_string(), "zz".to_string(), "en-".to_string(), "zh-Hant".to_string(), "\u{20ac}".to_string(), "x".repeat(70000)]);
    for a in &asks {
        let real = t.index_for_tag(a);
        note_opt(o, real.map(|v| v as u64));
        let w = want.iter().find(|(_, s)| s == a).map(|(i, _)| *i);
        model_check(real == w, || format!("ltag {} tag={:?}", hex(bytes), &a[..a.len().min(12)]), || format!("index_for_tag = {real:?}, reference {w:?}"));
    }
}

pub fn run_misc(ctx: &mut Ctx) {
    let rounds = if ctx.thorough { 180 } else { 30 };
    for _ in 0..rounds {
        for mode in [AnkrMode::Clean, AnkrMode::DataOffset, AnkrMode::LookupOffset, AnkrMode::NumPoints, AnkrMode::EntryAtEnd] {
            let b = gen_ankr(&mut ctx.rng, mode);
            ctx.drive(&format!("ankr.{mode:?}"), &b, &ankr_walk);
            ctx.count(&format!("ankr.{mode:?}"));
            flush_model(ctx);
        }
        for mode in [FeatMode::Clean, FeatMode::Unsorted, FeatMode::Duplicates, FeatMode::CountBeyond, FeatMode::SettingsAtEnd, FeatMode::Empty] {
            let b = gen_feat(&mut ctx.rng, mode);
            ctx.drive(&format!("feat.{mode:?}"), &b, &feat_walk);
            ctx.count(&format!("feat.{mode:?}"));
            flush_model(ctx);
        }
        for mode in [LtagMode::Clean, LtagMode::RangesAtEnd, LtagMode::BadUtf8, LtagMode::CountBeyond, LtagMode::Overlap, LtagMode::Empty] {
            let b = gen_ltag(&mut ctx.rng, mode);
            ctx.drive(&format!("ltag.{mode:?}"), &b, &ltag_walk);
            ctx.count(&format!("ltag.{mode:?}"));
            flush_model(ctx);
        }
    }
    // feat: every feature flags word of interest through the two flag helpers
    for flags in [0u16, 1, 0xFF, 0x3FFF, 0x4000, 0x4001, 0x40FF, 0x41FF, 0x7FFF, 0x8000, 0x80FF, 0xBFFF, 0xC000, 0xC001, 0xC0FF, 0xFFFF] {
        let mut b = B::new();
        b.u32(0x0001_0000).u16(1).u16(0).u32(0);
        b.u16(7).u16(1).u32(24).u16(flags).u16(256);
        b.u16(0).u16(257);
        ctx.call("feat.flags", &b.v, &feat_walk);
    }
    // ltag: one range sweeping over the end of the data
    {
        let mut base = B::new();
        base.u32(1).u32(0).u32(1).u16(0).u16(0);
        base.bytes(b"en-GB");
        let l = base.len();
        for off in [0usize, 1, 15, 16, l - 2, l - 1, l, l + 1, 0xFFFE, 0xFFFF] {
            for ln in [0usize, 1, 2, 5, 6, l, l + 1, 0xFFFE, 0xFFFF] {
                let mut v = base.v.clone();
                v[12..14].copy_from_slice(&(off as u16).to_be_bytes());
                v[14..16].copy_from_slice(&(ln as u16).to_be_bytes());
                ctx.call("ltag.range-sweep", &v, &ltag_walk);
            }
        }
    }
    flush_model(ctx);
    let n = if ctx.thorough { 3000 } else { 500 };
    ctx.drive_random("ankr.random", n, 64, &ankr_walk);
    ctx.drive_random("feat.random", n, 64, &feat_walk);
    ctx.drive_random("ltag.random", n, 48, &ltag_walk);
    flush_model(ctx);
}
