//! group `aats.model` — correspondence of the real hand-written functions of
//! aat.rs state tables (StateTable / ExtendedStateTable class / entry), kern.rs, ankr.rs / feat.rs / ltag.rs / trak.rs accessors, ift.rs patch-map header helpers
//! with Model/HandAat.lean (`ha.*` driver commands), on generator-based inputs with truncations and
//! boundary fields; plus the group's own byte-level oracles.
//!
//! (The repository has no kern.rs / kerx.rs / morx.rs / trak.rs at the verified commit.)
//!
//! Commands: `ha.lk` (`Lookup::read` + `value::<u16|u32>` / `TypedLookup`), `ha.st` (`StateTable::read`,
//! `class`, `entry`), `ha.stx` (`ExtendedStateTable::<T>::read`, `class`, `entry` for payload sizes
//! 0 / 1 / 2 / 4 / 6 and the native `u16` payload), `ha.sentry` (`StateEntry::<T>::read`), `ha.ankr`
//! (`Ankr::anchor_points`), `ha.feat` (`Feat::find`, `FeatureName::{is_exclusive,
//! default_setting_index}`), `ha.ltag` (`Ltag::{tag_indices, index_for_tag}`), `ha.f1`
//! (`PatchMapFormat1::{entry_count, uri_template_as_string, glyph_map, gid_to_entry_iter,
//! is_entry_applied, feature_map}` + `FeatureMap::entry_records_size`), `ha.fm` (`FeatureMap::read` +
//! `entry_records_size` with independent arguments), `ha.gp` (`GlyphPatches::glyph_data_for_table` /
//! `GlyphDataIterator`), `ha.cid` (`CompatibilityId::from_u32s`), `ha.u8or16`.
use super::aat::{gen_lookup, gen_state_table, gen_stx, LkMode, LK_FORMATS, LK_MODES, ST_MODES};
use super::*;
use font_types::{BigEndian, GlyphId, GlyphId16};
use read_fonts::tables::aat::{ExtendedStateTable, ExtendedStateTableU16, Lookup, LookupSegment4, LookupU16, LookupU32, NoPayload, StateEntry, StateTable};
use read_fonts::tables::ankr::Ankr;
use read_fonts::tables::ift::{CompatibilityId, FeatureMap, GlyphKeyedFlags, GlyphPatches, PatchMapFormat1, U8Or16};
use read_fonts::{ComputeSize, FontReadWithArgs};
use read_fonts::tables::feat::Feat;
use read_fonts::tables::ltag::Ltag;
use read_fonts::{FontData, FontRead, ReadError};

fn err_str(e: &ReadError) -> String {
    match e {
        ReadError::OutOfBounds => "eO".into(),
        ReadError::NullOffset => "eN".into(),
        ReadError::MalformedData(_) => "eM".into(),
        ReadError::InvalidFormat(n) => format!("eF{n}"),
        other => format!("e?{other:?}"),
    }
}

fn rd(b: &[u8], at: usize, n: usize) -> Option<u64> {
    let s = b.get(at..at.checked_add(n)?)?;
    Some(s.iter().fold(0u64, |a, x| (a << 8) | *x as u64))
}

fn w16(b: &[u8], at: usize) -> u32 {
    rd(b, at, 2).unwrap_or(0) as u32
}

fn w32(b: &[u8], at: usize) -> u64 {
    rd(b, at, 4).unwrap_or(0)
}

fn fnv(xs: &[u64]) -> u64 {
    let mut h = 0xcbf2_9ce4_8422_2325u64;
    for x in xs {
        h = (h ^ x).wrapping_mul(0x0000_0100_0000_01b3);
    }
    h
}

/// is the slice `s` a sub-slice of `whole`?
fn inside<T>(s: &[T], whole: &[u8]) -> bool {
    let a = s.as_ptr() as usize;
    let e = a + std::mem::size_of_val(s);
    let w = whole.as_ptr() as usize;
    s.is_empty() || (a >= w && e <= w + whole.len())
}

/// one correspondence case: the real code inside `catch`, no-panic oracle, case line
fn ask(ctx: &mut Ctx, req: String, bytes: &[u8], f: impl FnOnce() -> String) -> Option<String> {
    PROGRESS.fetch_add(1, Ordering::Relaxed);
    {
        let mut cur = CURRENT.lock().unwrap();
        cur.0.clear();
        cur.0.push_str(req.split(' ').next().unwrap_or(""));
        cur.1.clear();
        cur.1.extend_from_slice(bytes);
    }
    let cmd = req.split(' ').next().unwrap_or("").to_string();
    match catch(f) {
        Ok(s) => {
            ctx.count(&format!("cases.{cmd}"));
            ctx.oracle("no-panic", true, String::new, String::new);
            ctx.case(req, s.clone());
            Some(s)
        }
        Err(m) => {
            ctx.oracle("no-panic", false, || req.clone(), || format!("panicked: {m}"));
            None
        }
    }
}

/// the input and its variants: every prefix truncation, every registered count / offset / length
/// field at boundary values, a few random flips
fn variants(rng: &mut Rng, b: &B, flips: usize) -> Vec<Vec<u8>> {
    let base = &b.v;
    let n = base.len();
    let mut out = vec![base.clone()];
    let mut cuts: Vec<usize> = vec![];
    if n <= 200 {
        cuts.extend(0..n);
    } else {
        cuts.extend(0..128);
        cuts.extend(n - 48..n);
        for (p, w) in &b.fields {
            for d in [0usize, 1] {
                cuts.push((*p + d).min(n - 1));
                cuts.push((*p + *w as usize + d).min(n - 1));
            }
        }
        cuts.sort();
        cuts.dedup();
    }
    for c in cuts {
        out.push(base[..c].to_vec());
    }
    for (p, w) in &b.fields {
        let (p, w) = (*p, *w as usize);
        if p + w > n {
            continue;
        }
        let max = (1u64 << (8 * w as u32)) - 1;
        let cur = rd(base, p, w).unwrap();
        let rest = (n - p) as u64;
        let mut vals = vec![0, 1, 2, max - 1, max, max / 2, max / 2 + 1, n as u64, n as u64 + 1, (n as u64).saturating_sub(1), rest, rest + 1, rest.saturating_sub(1), cur.wrapping_add(1), cur.wrapping_sub(1), cur.wrapping_mul(2)];
        vals.sort();
        vals.dedup();
        for v in vals {
            let v = v & max;
            if v == cur {
                continue;
            }
            let mut m = base.clone();
            for i in 0..w {
                m[p + i] = (v >> (8 * (w - 1 - i))) as u8;
            }
            out.push(m);
        }
    }
    for _ in 0..flips {
        if n == 0 {
            break;
        }
        let mut m = base.clone();
        for _ in 0..1 + rng.below(3) {
            let p = rng.below(n as u64) as usize;
            m[p] = match rng.below(4) {
                0 => 0,
                1 => 0xFF,
                2 => m[p] ^ (1 << rng.below(8)),
                _ => rng.next() as u8,
            };
        }
        out.push(m);
    }
    out
}

fn cap<T: Clone>(rng: &mut Rng, mut v: Vec<T>, n: usize) -> Vec<T> {
    while v.len() > n {
        let k = rng.below(v.len() as u64) as usize;
        v.remove(k);
    }
    v
}

// ------------------------------------------------------------------------------------------------
// lookups

/// glyph ids worth asking the lookup table at `bytes`: every 16-bit word of the head ± 1 and the
/// ends of the value arrays the formats derive from the data length
fn lk_probes(rng: &mut Rng, bytes: &[u8]) -> Vec<u16> {
    let len = bytes.len();
    let mut vals: Vec<u32> = vec![];
    for i in 0..len.min(56) / 2 {
        vals.push(w16(bytes, 2 * i));
    }
    for base in [0u32, w16(bytes, 2), w16(bytes, 4)] {
        for k in [2usize, 6, 8] {
            for u in [1usize, 2, 4] {
                vals.push(base.saturating_add((len.saturating_sub(k) / u) as u32));
            }
        }
    }
    cap(rng, edge16(&vals), 56)
}

fn lk_values(bytes: &[u8], wide: bool, typed: bool, gs: &[u16]) -> Vec<String> {
    let d = FontData::new(bytes);
    if typed {
        if wide {
            match LookupU32::read(d) {
                Err(e) => gs.iter().map(|_| err_str(&e)).collect(),
                Ok(l) => gs.iter().map(|g| l.value(*g).map(|v| v.to_string()).unwrap_or_else(|e| err_str(&e))).collect(),
            }
        } else {
            match LookupU16::read(d) {
                Err(e) => gs.iter().map(|_| err_str(&e)).collect(),
                Ok(l) => gs.iter().map(|g| l.value(*g).map(|v| v.to_string()).unwrap_or_else(|e| err_str(&e))).collect(),
            }
        }
    } else {
        match Lookup::read(d) {
            Err(e) => gs.iter().map(|_| err_str(&e)).collect(),
            Ok(l) => gs
                .iter()
                .map(|g| if wide { l.value::<u32>(*g).map(|v| v.to_string()) } else { l.value::<u16>(*g).map(|v| v.to_string()) }.unwrap_or_else(|e| err_str(&e)))
                .collect(),
        }
    }
}

fn outcome(tok: &str) -> &str {
    if tok.starts_with("eF") {
        "eF"
    } else if tok.starts_with('e') {
        tok
    } else {
        "ok"
    }
}

fn lookup_case(ctx: &mut Ctx, bytes: &[u8], wide: bool, typed: bool) {
    let gs = lk_probes(&mut ctx.rng, bytes);
    let size = if wide { 4 } else { 2 };
    let req = format!("ha.lk {} {} | {}", size, hex(bytes), join(&gs));
    if let Some(resp) = ask(ctx, req, bytes, || join(&lk_values(bytes, wide, typed, &gs))) {
        let fmt = rd(bytes, 0, 2).map(|f| if [0, 2, 4, 6, 8, 10].contains(&f) { f.to_string() } else { "other".into() }).unwrap_or("none".into());
        let read_ok = Lookup::read(FontData::new(bytes)).is_ok();
        let mut seen: Vec<&str> = resp.split(' ').map(outcome).collect();
        seen.sort();
        seen.dedup();
        for s in seen {
            ctx.count(&format!("lk.f{fmt}.{}.{s}", if read_ok { "read-ok" } else { "read-err" }));
        }
    }
}

fn run_lookups(ctx: &mut Ctx) {
    let rounds = if ctx.thorough { 5 } else { 1 };
    let mut alt = 0usize;
    for round in 0..rounds {
        for &format in &LK_FORMATS {
            for &mode in &LK_MODES {
                alt += 1;
                for wide in [alt % 2 == 0] {
                    let vsize = if format == 10 { *ctx.rng.pick(&[1usize, 2, 4, 4, 2, 0, 3, 8]) } else if wide { 4 } else { 2 };
                    let (b, _) = gen_lookup(&mut ctx.rng, format, vsize, mode, &[]);
                    ctx.count("lk.bases");
                    let vs = variants(&mut ctx.rng, &b, 4);
                    for (k, v) in vs.iter().enumerate() {
                        lookup_case(ctx, v, wide, (k + round) % 2 == 0);
                    }
                }
            }
        }
    }
    // format word sweep + random short buffers
    for f in [0u16, 1, 2, 3, 4, 5, 6, 7, 8, 9, 10, 11, 12, 0x100, 0x200, 0x7FFF, 0xFFFF] {
        let mut v = f.to_be_bytes().to_vec();
        v.extend(ctx.rng.bytes(20));
        lookup_case(ctx, &v, f % 2 == 1, false);
    }
    for _ in 0..if ctx.thorough { 1500 } else { 300 } {
        let n = ctx.rng.below(40) as usize;
        let mut v = ctx.rng.bytes(n);
        for x in v.iter_mut() {
            if ctx.rng.chance(2, 3) {
                *x &= 0x07;
            }
        }
        if n >= 2 {
            v[0] = 0;
            v[1] = *ctx.rng.pick(&[0u8, 2, 4, 6, 8, 10]);
        }
        let wide = ctx.rng.chance(1, 2);
        lookup_case(ctx, &v, wide, false);
    }
}

// ------------------------------------------------------------------------------------------------
// legacy state tables

fn st_args(rng: &mut Rng, bytes: &[u8]) -> (Vec<u16>, Vec<u16>, Vec<u8>) {
    let len = bytes.len();
    let co = w16(bytes, 2) as usize;
    let first = w16(bytes, co);
    let n = w16(bytes, co.saturating_add(2));
    let avail = len.saturating_sub(co.saturating_add(4)) as u32;
    let gs = cap(rng, edge16(&[first, first.saturating_add(n), first.saturating_add(avail), n, avail]), 28);
    let size = w16(bytes, 0) as usize;
    let ao = w16(bytes, 4) as usize;
    let rows = len.saturating_sub(ao) / size.max(1);
    let mut states: Vec<u32> = vec![0, 1, 2, rows as u32, (rows as u32).saturating_sub(1), rows as u32 + 1, 0x7FFF, 0xFFFF];
    if size > 0 {
        states.push((0xFFFF / size) as u32);
        states.push((len / size) as u32);
    }
    states.retain(|s| *s <= 0xFFFF);
    states.sort();
    states.dedup();
    let mut classes: Vec<u32> = vec![0, 1, 2, 3, size as u32, (size as u32).saturating_sub(1), size as u32 + 1, 128, 255];
    classes.retain(|c| *c <= 255);
    classes.sort();
    classes.dedup();
    (gs, states.into_iter().map(|s| s as u16).collect(), classes.into_iter().map(|c| c as u8).collect())
}

/// which check of `StateTable::entry` decides (byte-level reference; used for the branch
/// distribution and the `st.entry-ref` oracle: label `ok` ⇔ the real call is `Ok`)
fn st_entry_branch(b: &[u8], s: u16, c: u8) -> &'static str {
    let len = b.len();
    let size = w16(b, 0) as usize;
    if size == 0 {
        return "nclasses0";
    }
    let c = if c as usize >= size { 1 } else { c as usize };
    let ao = w16(b, 4) as usize;
    if ao == 0 {
        return "array-null";
    }
    if ao > len {
        return "array-oob";
    }
    let Some(idx) = b.get(ao + s as usize * size + c) else { return "index-oob" };
    let eo = w16(b, 6) as usize;
    if eo == 0 {
        return "entries-null";
    }
    if eo > len {
        return "entries-oob";
    }
    let at = eo + *idx as usize * 4;
    if at > len {
        return "entry-offset-oob";
    }
    let Some(ns) = rd(b, at, 2) else { return "entry-read-oob" };
    if rd(b, at + 2, 2).is_none() {
        return "entry-read-oob";
    }
    let q = (ns as i64 - ao as i64) / size as i64;
    if q < 0 {
        "new-state-negative"
    } else if ns as i64 - (ao as i64) < 0 {
        "ok.rounded-to-0"
    } else {
        "ok"
    }
}

fn st_class_branch(b: &[u8], g: u16) -> &'static str {
    if g == 0xFFFF {
        return "ok.deleted";
    }
    let co = w16(b, 2) as usize;
    if co == 0 {
        return "null";
    }
    if co > b.len() {
        return "offset-oob";
    }
    let Some(n) = rd(b, co + 2, 2) else { return "subtable-read-oob" };
    if co + 4 + n as usize > b.len() {
        return "subtable-read-oob";
    }
    let first = w16(b, co) as usize;
    if (g as usize) < first {
        "below-first"
    } else if g as usize - first < n as usize {
        "ok"
    } else {
        "beyond-last"
    }
}

fn st_case(ctx: &mut Ctx, bytes: &[u8]) {
    let (gs, states, classes) = st_args(&mut ctx.rng, bytes);
    let req = format!("ha.st {} | {} | {} | {}", hex(bytes), join(&gs), join(&states), join(&classes));
    let mut agree = true;
    let mut labels: Vec<String> = vec![];
    let resp = ask(ctx, req, bytes, || match StateTable::read(FontData::new(bytes)) {
        Err(_) => "err".into(),
        Ok(t) => {
            let cs: Vec<String> = gs
                .iter()
                .map(|g| {
                    let r = t.class(GlyphId16::new(*g));
                    let l = st_class_branch(bytes, *g);
                    agree &= r.is_ok() == l.starts_with("ok");
                    labels.push(format!("st.class.{l}"));
                    r.map(|c| c.to_string()).unwrap_or_else(|e| err_str(&e))
                })
                .collect();
            let mut es: Vec<String> = vec![];
            for s in &states {
                for c in &classes {
                    let r = t.entry(*s, *c);
                    let l = st_entry_branch(bytes, *s, *c);
                    agree &= r.is_ok() == l.starts_with("ok");
                    labels.push(format!("st.entry.{l}"));
                    es.push(r.map(|e| format!("{}:{}", e.new_state, e.flags)).unwrap_or_else(|e| err_str(&e)));
                }
            }
            format!("{} | {}", join(&cs), join(&es))
        }
    });
    if let Some(resp) = resp {
        ctx.oracle("st.read-needs-8-bytes", (resp == "err") == (bytes.len() < 8), || hex(bytes), || resp.clone());
        ctx.oracle("st.ok-iff-reference", agree, || hex(bytes), || "Ok-ness of class / entry differs from the byte-level reference".into());
        labels.sort();
        labels.dedup();
        for l in labels {
            ctx.count(&l);
        }
        if resp == "err" {
            ctx.count("st.read-err");
        }
    }
}

fn run_state(ctx: &mut Ctx) {
    let rounds = if ctx.thorough { 10 } else { 2 };
    for _ in 0..rounds {
        for &mode in &ST_MODES {
            let extra = if ctx.rng.chance(1, 2) { 2 } else { 0 };
            let g = gen_state_table(&mut ctx.rng, mode, extra);
            ctx.count("st.bases");
            for v in variants(&mut ctx.rng, &g.b, 6) {
                st_case(ctx, &v);
            }
        }
    }
    // state_size sweep on a fixed small table (class table of 2 glyphs, 12 bytes of state array, 3 entries)
    for size in [0u16, 1, 2, 3, 4, 5, 6, 7, 11, 12, 13, 255, 256, 0x7FFF, 0x8000, 0xFFFF] {
        let mut b = B::new();
        b.u16(size).u16(8).u16(14).u16(26);
        b.u16(3).u16(2).u8(1).u8(0);
        for k in 0..12u8 {
            b.u8(k % 3);
        }
        b.u16(14).u16(0x1111).u16(size.wrapping_add(14)).u16(0x2222).u16(13).u16(0x3333);
        for cut in [0usize, 1, 2, 3, 4, 5, 8] {
            let l = b.v.len() - cut;
            st_case(ctx, &b.v[..l]);
        }
    }
    // new_state conversion: entries whose new_state is around the state array offset
    for ao in [8u16, 20, 0x7FFF, 0xFFFF] {
        for size in [1u16, 2, 7, 0xFFFF] {
            for ns in [0u16, 1, ao.wrapping_sub(size), ao.wrapping_sub(1), ao, ao.wrapping_add(1), ao.wrapping_add(size), 0x7FFF, 0x8000, 0xFFFF] {
                let mut b = B::new();
                // the state array offset may point beyond the data: then entry() is Err before the conversion
                b.u16(size).u16(0).u16(if ao < 0x7FFF { ao } else { 8 }).u16(12);
                b.u16(0).u16(0);
                b.u16(ns).u16(0xABCD);
                b.zeros(12);
                st_case(ctx, &b.v);
            }
        }
    }
    for _ in 0..if ctx.thorough { 1500 } else { 300 } {
        let n = ctx.rng.below(56) as usize;
        let mut v = ctx.rng.bytes(n);
        for x in v.iter_mut() {
            if ctx.rng.chance(3, 4) {
                *x &= 0x0F;
            }
        }
        for k in [0usize, 2, 4, 6] {
            if k < n {
                v[k] = 0;
            }
        }
        st_case(ctx, &v);
    }
}

// ------------------------------------------------------------------------------------------------
// extended state tables

fn stx_args(rng: &mut Rng, bytes: &[u8]) -> (Vec<u16>, Vec<u16>, Vec<u16>) {
    let len = bytes.len();
    let co = w32(bytes, 4) as usize;
    let gs = match bytes.get(co..) {
        Some(b) if co >= 16 => {
            let p = lk_probes(rng, b);
            cap(rng, p, 24)
        }
        _ => edge16(&[]),
    };
    let nc = w32(bytes, 0);
    let ao = w32(bytes, 8) as usize;
    let words = (len.saturating_sub(ao) / 2) as u64;
    let rows = words / nc.max(1);
    let mut states: Vec<u64> = vec![0, 1, 2, rows, rows.saturating_sub(1), rows + 1, words, 0x7FFF, 0xFFFF];
    states.retain(|s| *s <= 0xFFFF);
    states.sort();
    states.dedup();
    let mut classes: Vec<u64> = vec![0, 1, 2, 3, nc, nc.saturating_sub(1), nc + 1, words, 0xFFFF];
    classes.retain(|c| *c <= 0xFFFF);
    classes.sort();
    classes.dedup();
    (gs, states.into_iter().map(|s| s as u16).collect(), classes.into_iter().map(|c| c as u16).collect())
}

fn stx_entry_branch(b: &[u8], ps: usize, s: u16, c: u16) -> &'static str {
    let len = b.len();
    let nc = w32(b, 0) as usize;
    let c = if c as usize >= nc { 1 } else { c as usize };
    let ao = w32(b, 8) as usize;
    if ao == 0 {
        return "array-null";
    }
    if ao > len {
        return "array-oob";
    }
    let ix = s as usize * nc + c;
    if ix >= (len - ao) / 2 {
        return "index-oob";
    }
    let idx = rd(b, ao + 2 * ix, 2).unwrap() as usize;
    let eo = w32(b, 12) as usize;
    if eo == 0 {
        return "entries-null";
    }
    if eo > len {
        return "entries-oob";
    }
    let e = eo + idx * (4 + ps);
    if e > len {
        return "entry-offset-oob";
    }
    if e + 4 > len {
        return "entry-read-oob";
    }
    if e + 4 + ps > len {
        return "payload-oob";
    }
    "ok"
}

type StxFn = fn(&[u8], &[u16], &[u16], &[u16]) -> Option<(Vec<String>, Vec<(bool, String)>)>;

macro_rules! stx_impl {
    ($name:ident, $t:ty, $dig:expr) => {
        fn $name(bytes: &[u8], gs: &[u16], states: &[u16], classes: &[u16]) -> Option<(Vec<String>, Vec<(bool, String)>)> {
            let t = ExtendedStateTable::<$t>::read(FontData::new(bytes)).ok()?;
            let cs = gs.iter().map(|g| t.class(GlyphId16::new(*g)).map(|c| c.to_string()).unwrap_or_else(|e| err_str(&e))).collect();
            let d: fn(&$t) -> u64 = $dig;
            let mut es = vec![];
            for s in states {
                for c in classes {
                    let r = t.entry(*s, *c);
                    es.push((r.is_ok(), r.map(|e| format!("{}:{}:{}", e.new_state, e.flags, d(&e.payload))).unwrap_or_else(|e| err_str(&e))));
                }
            }
            Some((cs, es))
        }
    };
}

stx_impl!(stx0, NoPayload, |_| 0);
stx_impl!(stx1, u8, |p| *p as u64);
stx_impl!(stx2, BigEndian<u16>, |p| p.get() as u64);
stx_impl!(stx2n, u16, |p| u16::from_be(*p) as u64);
stx_impl!(stx4, BigEndian<u32>, |p| p.get() as u64);
stx_impl!(stx6, LookupSegment4, |p| (p.last_glyph() as u64) << 32 | (p.first_glyph() as u64) << 16 | p.value_offset() as u64);

fn stx_case(ctx: &mut Ctx, bytes: &[u8], ps: usize, native: bool) {
    let (gs, states, classes) = stx_args(&mut ctx.rng, bytes);
    let req = format!("ha.stx {} {} | {} | {} | {}", ps, hex(bytes), join(&gs), join(&states), join(&classes));
    let f: StxFn = match (ps, native) {
        (0, _) => stx0,
        (1, _) => stx1,
        (2, false) => stx2,
        (2, true) => {
            debug_assert!(ExtendedStateTableU16::read(FontData::new(bytes)).is_ok() == (bytes.len() >= 16));
            stx2n
        }
        (4, _) => stx4,
        _ => stx6,
    };
    let mut agree = true;
    let mut labels: Vec<String> = vec![];
    let resp = ask(ctx, req, bytes, || match f(bytes, &gs, &states, &classes) {
        None => "err".into(),
        Some((cs, es)) => {
            let mut k = 0;
            for s in &states {
                for c in &classes {
                    let l = stx_entry_branch(bytes, ps, *s, *c);
                    agree &= es[k].0 == (l == "ok");
                    labels.push(format!("stx.entry.{l}"));
                    k += 1;
                }
            }
            for c in &cs {
                labels.push(format!("stx.class.{}", outcome(c)));
            }
            format!("{} | {}", join(&cs), join(&es.into_iter().map(|e| e.1).collect::<Vec<_>>()))
        }
    });
    if let Some(resp) = resp {
        ctx.oracle("stx.read-needs-16-bytes", (resp == "err") == (bytes.len() < 16), || hex(bytes), || resp.clone());
        ctx.oracle("stx.ok-iff-reference", agree, || format!("ps={ps} {}", hex(bytes)), || "Ok-ness of entry differs from the byte-level reference".into());
        labels.sort();
        labels.dedup();
        for l in labels {
            ctx.count(&l);
        }
        if resp == "err" {
            ctx.count("stx.read-err");
        }
    }
}

fn run_stx(ctx: &mut Ctx) {
    let rounds = if ctx.thorough { 5 } else { 1 };
    let mut rot = 0usize;
    for round in 0..rounds {
        for &mode in &ST_MODES {
            rot += 1;
            for ps in [[0usize, 2, 6], [1, 4, 2], [0, 6, 4], [2, 1, 0], [4, 6, 1]][rot % 5] {
                let extra = if ctx.rng.chance(1, 2) { 4 } else { 0 };
                let g = gen_stx(&mut ctx.rng, mode, ps, extra, 8);
                ctx.count(&format!("stx.bases.ps{ps}"));
                for (k, v) in variants(&mut ctx.rng, &g.b, 4).iter().enumerate() {
                    stx_case(ctx, v, ps, (k + round) % 2 == 1);
                }
            }
        }
    }
    // n_classes sweep on a fixed small table with 2 byte payloads
    for nc in [0u32, 1, 2, 3, 4, 5, 6, 7, 0xFFFF, 0x10000, 0x7FFF_FFFF, 0xFFFF_FFFF] {
        let mut b = B::new();
        b.u32(nc).u32(16).u32(28).u32(52);
        b.u16(8).u16(10).u16(4).u16(1).u16(2).u16(3);
        for k in 0..12u16 {
            b.u16(k % 3);
        }
        for k in 0..3u16 {
            b.u16(k).u16(0x1000 * k).u16(0xA0 + k);
        }
        for cut in [0usize, 1, 2, 3, 5, 6, 7] {
            let l = b.v.len() - cut;
            stx_case(ctx, &b.v[..l], 2, cut % 2 == 0);
        }
    }
    // entry table at an even / odd offset with a native u16 payload (alignment fix 4e41891)
    for entry_off in [18u32, 19] {
        let mut b = B::new();
        b.u32(1).u32(0).u32(16).u32(entry_off);
        b.u16(0);
        if entry_off == 19 {
            b.u8(0);
        }
        b.u16(1).u16(2).u16(3);
        stx_case(ctx, &b.v, 2, true);
        let mut odd = vec![0xA5u8];
        odd.extend_from_slice(&b.v);
        stx_case(ctx, &odd[1..], 2, true);
    }
    for _ in 0..if ctx.thorough { 1000 } else { 200 } {
        let n = ctx.rng.below(72) as usize;
        let mut v = ctx.rng.bytes(n);
        for x in v.iter_mut() {
            if ctx.rng.chance(3, 4) {
                *x &= 0x0F;
            }
        }
        for k in [0usize, 1, 2, 4, 5, 6, 8, 9, 10, 12, 13, 14] {
            if k < n {
                v[k] = 0;
            }
        }
        let ps = *ctx.rng.pick(&[0usize, 1, 2, 4, 6]);
        stx_case(ctx, &v, ps, false);
    }
    // StateEntry::<T>::read on every short length
    for n in 0..=12usize {
        for fill in 0..2 {
            let v: Vec<u8> = if fill == 0 { (0..n).map(|i| i as u8 + 1).collect() } else { ctx.rng.bytes(n) };
            for ps in [0usize, 1, 2, 4, 6] {
                let req = format!("ha.sentry {} {}", ps, hex(&v));
                let r = ask(ctx, req, &v, || {
                    let d = FontData::new(&v);
                    fn fmt<T>(r: Result<StateEntry<T>, ReadError>, p: impl Fn(&T) -> u64) -> String {
                        r.map(|e| format!("{}:{}:{}", e.new_state, e.flags, p(&e.payload))).unwrap_or_else(|e| err_str(&e))
                    }
                    match ps {
                        0 => fmt(StateEntry::<NoPayload>::read(d), |_| 0),
                        1 => fmt(StateEntry::<u8>::read(d), |p| *p as u64),
                        2 => {
                            let a = fmt(StateEntry::<BigEndian<u16>>::read(d), |p| p.get() as u64);
                            let b = fmt(StateEntry::<u16>::read(d), |p| u16::from_be(*p) as u64);
                            assert_eq!(a, b);
                            a
                        }
                        4 => fmt(StateEntry::<BigEndian<u32>>::read(d), |p| p.get() as u64),
                        _ => fmt(StateEntry::<LookupSegment4>::read(d), |p| (p.last_glyph() as u64) << 32 | (p.first_glyph() as u64) << 16 | p.value_offset() as u64),
                    }
                });
                if let Some(r) = r {
                    ctx.oracle("sentry.ok-iff-fits", r.starts_with('e') == (n < 4 + ps), || format!("ps={ps} {}", hex(&v)), || r.clone());
                    ctx.count(if r.starts_with('e') { "sentry.err" } else { "sentry.ok" });
                }
            }
        }
    }
}

// ------------------------------------------------------------------------------------------------
// ankr / feat / ltag (generators after hand/aat.rs)

#[derive(Clone, Copy, PartialEq, Eq, Debug)]
enum AnkrMode {
    Clean,
    DataOffset,
    LookupOffset,
    NumPoints,
    EntryAtEnd,
}

fn gen_ankr(rng: &mut Rng, mode: AnkrMode) -> B {
    let mut gd = B::new();
    let mut offs: Vec<u32> = vec![];
    for _ in 0..1 + rng.below(4) {
        offs.push(gd.len() as u32);
        let n = rng.below(4) as u32;
        let declared = if mode == AnkrMode::NumPoints && rng.chance(1, 2) { *rng.pick(&[n + 1, 0x3FFF_FFFF, 0x4000_0000, 0x4000_0001, 0x7FFF_FFFF, 0xFFFF_FFFF]) } else { n };
        gd.f32(declared);
        for _ in 0..n {
            gd.i16(rng.next() as i16).i16(rng.next() as i16);
        }
    }
    if mode == AnkrMode::EntryAtEnd {
        let l = gd.len() as u32;
        offs.extend([l, l - 1, l - 3, l - 4, l + 1, 0xFFFF]);
    }
    let fmt = *rng.pick(&LK_FORMATS);
    let lm = if mode == AnkrMode::Clean { *rng.pick(&[LkMode::Clean, LkMode::High]) } else { *rng.pick(&LK_MODES) };
    let (lk, _) = gen_lookup(rng, fmt, 2, lm, &offs);
    let mut b = B::new();
    b.u16(0).u16(0).f32(12).f32(0);
    b.append(&lk);
    let pad = rng.below(3) as usize;
    b.zeros(pad);
    let gdo = b.len() as u32;
    b.append(&gd);
    let total = b.len() as u32;
    let gdo = match mode {
        AnkrMode::DataOffset => *rng.pick(&[0u32, 1, total, total - 1, total - 4, total + 1, 0x7FFF_FFFF, 0xFFFF_FFF0, 0xFFFF_FFFF]),
        _ => gdo,
    };
    b.set32(8, gdo);
    if mode == AnkrMode::LookupOffset {
        let lo = *rng.pick(&[0u32, 1, 11, 13, total, total - 1, total - 2, total + 1, 0xFFFF_FFFF]);
        b.set32(4, lo);
    }
    b
}

fn ankr_case(ctx: &mut Ctx, bytes: &[u8]) {
    let lo = w32(bytes, 4) as usize;
    let mut gs: Vec<u32> = match bytes.get(lo..) {
        Some(b) => {
            let p = lk_probes(&mut ctx.rng, b);
            cap(&mut ctx.rng, p, 32).into_iter().map(|g| g as u32).collect()
        }
        None => edge16(&[]).into_iter().map(|g| g as u32).collect(),
    };
    gs.extend([0x10000, 0x10001, 0xFFFFFF, 0xFFFF_FFFF]);
    let req = format!("ha.ankr {} | {}", hex(bytes), join(&gs));
    let mut inside_ok = true;
    let mut kinds: Vec<String> = vec![];
    let resp = ask(ctx, req, bytes, || match Ankr::read(FontData::new(bytes)) {
        Err(_) => "err".into(),
        Ok(t) => join(
            &gs.iter()
                .map(|g| match t.anchor_points(GlyphId::new(*g)) {
                    Ok(p) => {
                        inside_ok &= inside(p, bytes);
                        kinds.push("ankr.ok".into());
                        // an empty slice has no meaningful address: the offset is the one of the entry
                        let off = if p.is_empty() { None } else { Some(p.as_ptr() as usize - bytes.as_ptr() as usize) };
                        format!("{}:{}", off.map(|o| o.to_string()).unwrap_or("_".into()), p.len())
                    }
                    Err(e) => {
                        kinds.push(format!("ankr.{}", outcome(&err_str(&e))));
                        err_str(&e)
                    }
                })
                .collect::<Vec<_>>(),
        ),
    });
    if resp.is_some() {
        ctx.oracle("ankr.points-inside-data", inside_ok, || hex(bytes), || "anchor point slice outside the table data".into());
        kinds.sort();
        kinds.dedup();
        for k in kinds {
            ctx.count(&k);
        }
    }
}

#[derive(Clone, Copy, PartialEq, Eq, Debug)]
enum FeatMode {
    Clean,
    Unsorted,
    Duplicates,
    CountBeyond,
    Empty,
}

fn gen_feat(rng: &mut Rng, mode: FeatMode) -> B {
    let n = if mode == FeatMode::Empty { 0 } else { 1 + rng.below(7) as usize };
    let mut feats: Vec<u16> = vec![];
    let mut cur = if rng.chance(1, 4) { 0xFFFF - 2 * n as u32 - rng.below(3) as u32 } else { rng.below(5) as u32 };
    for _ in 0..n {
        feats.push(cur.min(0xFFFF) as u16);
        cur += 1 + rng.below(3) as u32;
    }
    match mode {
        FeatMode::Unsorted => rng.shuffle(&mut feats),
        FeatMode::Duplicates if n > 1 => {
            let k = rng.below(n as u64 - 1) as usize;
            feats[k + 1] = feats[k];
        }
        _ => {}
    }
    let declared = if mode == FeatMode::CountBeyond { n + 1 } else { n };
    let mut b = B::new();
    b.u32(0x0001_0000).f16(declared as u16).u16(0).u32(0);
    for f in &feats {
        let flags: u16 = match rng.below(4) {
            0 => 0,
            1 => 0x8000,
            2 => 0xC000 | rng.below(256) as u16,
            _ => rng.next() as u16,
        };
        b.f16(*f).u16(rng.below(4) as u16).u32(rng.below(64) as u32).u16(flags).u16(256 + rng.below(40) as u16);
    }
    if mode == FeatMode::CountBeyond {
        let k = rng.below(12) as usize;
        b.bytes(&rng.bytes(k));
    } else {
        let k = rng.below(6) as usize;
        b.bytes(&rng.bytes(k));
    }
    b
}

fn feat_case(ctx: &mut Ctx, bytes: &[u8]) {
    let n = w16(bytes, 4) as usize;
    let feats: Vec<u32> = (0..n.min(16)).map(|i| w16(bytes, 12 + 12 * i)).collect();
    let probes = cap(&mut ctx.rng, edge16(&feats), 40);
    let req = format!("ha.feat {} | {}", hex(bytes), join(&probes));
    let mut hit_ok = true;
    let mut kinds: Vec<&str> = vec![];
    let resp = ask(ctx, req, bytes, || match Feat::read(FontData::new(bytes)) {
        Err(_) => "err".into(),
        Ok(t) => join(
            &probes
                .iter()
                .map(|f| match t.find(*f) {
                    None => {
                        kinds.push("feat.miss");
                        "n".to_string()
                    }
                    Some(name) => {
                        kinds.push("feat.hit");
                        hit_ok &= name.feature() == *f;
                        format!("{}:{}:{}", feat_fields(&name), name.is_exclusive() as u8, name.default_setting_index())
                    }
                })
                .collect::<Vec<_>>(),
        ),
    });
    if let Some(resp) = resp {
        ctx.oracle("feat.hit-has-feature", hit_ok, || hex(bytes), || "find returned a record of another feature".into());
        kinds.sort();
        kinds.dedup();
        for k in kinds {
            ctx.count(k);
        }
        if resp == "err" {
            ctx.count("feat.read-err");
        }
    }
}

/// `find` returns a COPY of the record, so the observable is the record's fields (not its index)
fn feat_fields(name: &read_fonts::tables::feat::FeatureName) -> String {
    format!("{}.{}.{}.{}", name.n_settings(), name.setting_table_offset().to_u32(), name.feature_flags(), name.name_index().to_u16())
}

#[derive(Clone, Copy, PartialEq, Eq, Debug)]
enum LtagMode {
    Clean,
    RangesAtEnd,
    BadUtf8,
    CountBeyond,
    Overlap,
    Empty,
}

const TAGS: [&str; 10] = ["en", "sp", "sr", "zh-Hant", "", "x", "de-AT", "en", "\u{e9}t\u{e9}", "\u{20ac}\u{10348}"];

fn gen_ltag(rng: &mut Rng, mode: LtagMode) -> B {
    let n = if mode == LtagMode::Empty { 0 } else { 1 + rng.below(6) as usize };
    let mut b = B::new();
    let declared = if mode == LtagMode::CountBeyond { *rng.pick(&[n as u32 + 1, n as u32 + 2, 0x4000_0000, 0xFFFF_FFFF]) } else { n as u32 };
    b.u32(1).u32(0).f32(declared);
    let ranges_at = b.len();
    for _ in 0..n {
        b.f16(0).f16(0);
    }
    let mut strings: Vec<(usize, usize)> = vec![];
    for k in 0..n {
        let t = *rng.pick(&TAGS);
        let at = b.len();
        if mode == LtagMode::BadUtf8 && rng.chance(2, 3) {
            let bad: &[u8] = *rng.pick(&[
                &[0xFFu8][..],
                &[0xC3],
                &[0xE2, 0x82],
                &[0x80, 0x41],
                &[0xC0, 0x80],
                &[0xC1, 0xBF],
                &[0xED, 0xA0, 0x80],
                &[0xED, 0x9F, 0xBF],
                &[0xE0, 0x9F, 0xBF],
                &[0xE0, 0xA0, 0x80],
                &[0xF0, 0x8F, 0xBF, 0xBF],
                &[0xF0, 0x90, 0x80, 0x80],
                &[0xF4, 0x8F, 0xBF, 0xBF],
                &[0xF4, 0x90, 0x80, 0x80],
                &[0xF5, 0x80, 0x80, 0x80],
                &[0xF1, 0x80, 0x80],
                &[0x41, 0xE2, 0x82, 0xAC, 0x42],
                &[0xE2, 0x82, 0x41],
                &[0xF0, 0x90, 0x80, 0xC0],
            ]);
            b.bytes(bad);
            strings.push((at, bad.len()));
        } else {
            b.bytes(t.as_bytes());
            strings.push((at, t.len()));
        }
        b.set16(ranges_at + 4 * k, strings[k].0 as u16);
        b.set16(ranges_at + 4 * k + 2, strings[k].1 as u16);
    }
    if n > 0 {
        let k = rng.below(n as u64) as usize;
        let l = b.len();
        match mode {
            LtagMode::RangesAtEnd => {
                let (off, ln) = *rng.pick(&[(l, 0usize), (l, 1), (l - 1, 1), (l - 1, 2), (l + 1, 0), (0, l), (0, l + 1), (0xFFFF, 0xFFFF), (0xFFFF, 1), (1, 0xFFFF), (l - 2, 2)]);
                b.set16(ranges_at + 4 * k, off as u16);
                b.set16(ranges_at + 4 * k + 2, ln as u16);
            }
            LtagMode::Overlap => {
                let j = rng.below(n as u64) as usize;
                let (off, ln) = strings[j];
                b.set16(ranges_at + 4 * k, off as u16);
                b.set16(ranges_at + 4 * k + 2, (ln + rng.below(2) as usize) as u16);
            }
            _ => {}
        }
    }
    b
}

fn ltag_case(ctx: &mut Ctx, bytes: &[u8]) {
    // tags to ask for: the strings of the first ranges + fixed ones (hex; "." = the empty tag)
    let n = w32(bytes, 8) as usize;
    let mut asks: Vec<Vec<u8>> = vec![];
    for i in 0..n.min(6) {
        let (o, l) = (w16(bytes, 12 + 4 * i) as usize, w16(bytes, 14 + 4 * i) as usize);
        if let Some(s) = bytes.get(o..o + l) {
            if l <= 24 && std::str::from_utf8(s).is_ok() {
                asks.push(s.to_vec());
            }
        }
    }
    asks.extend([b"".to_vec(), b"en".to_vec(), b"zz".to_vec(), b"zh-Hant".to_vec(), "\u{20ac}".as_bytes().to_vec()]);
    let req = format!("ha.ltag {} | {}", hex(bytes), asks.iter().map(|a| if a.is_empty() { ".".to_string() } else { hex(a) }).collect::<Vec<_>>().join(" "));
    let len = bytes.len();
    let mut bounded = true;
    let mut inside_ok = true;
    let mut yielded = 0usize;
    let resp = ask(ctx, req, bytes, || match Ltag::read(FontData::new(bytes)) {
        Err(_) => "err".into(),
        Ok(t) => {
            let mut xs: Vec<u64> = vec![];
            let mut cnt = 0usize;
            for (i, s) in t.tag_indices() {
                cnt += 1;
                if cnt > len / 4 + 1 {
                    bounded = false;
                    break;
                }
                inside_ok &= inside(s.as_bytes(), bytes);
                let off = if s.is_empty() {
                    // the address of an empty sub-slice is still `data + start`
                    (s.as_ptr() as usize).wrapping_sub(bytes.as_ptr() as usize)
                } else {
                    s.as_ptr() as usize - bytes.as_ptr() as usize
                };
                xs.extend([i as u64, off as u64, s.len() as u64]);
            }
            yielded = cnt;
            let ixs: Vec<String> = asks.iter().map(|a| t.index_for_tag(std::str::from_utf8(a).unwrap()).map(|i| i.to_string()).unwrap_or("n".into())).collect();
            format!("{} {} | {}", cnt, fnv(&xs), join(&ixs))
        }
    });
    if let Some(resp) = resp {
        ctx.oracle("ltag.iter-bounded", bounded, || hex(bytes), || "tag_indices yields more than one item per range record".into());
        ctx.oracle("ltag.strings-inside-data", inside_ok, || hex(bytes), || "tag string outside the table data".into());
        ctx.count(if resp == "err" {
            "ltag.read-err"
        } else if yielded == 0 {
            "ltag.none-yielded"
        } else if yielded == n {
            "ltag.all-yielded"
        } else {
            "ltag.some-filtered"
        });
    }
}

fn run_misc(ctx: &mut Ctx) {
    let rounds = if ctx.thorough { 10 } else { 2 };
    for _ in 0..rounds {
        for mode in [AnkrMode::Clean, AnkrMode::DataOffset, AnkrMode::LookupOffset, AnkrMode::NumPoints, AnkrMode::EntryAtEnd] {
            let b = gen_ankr(&mut ctx.rng, mode);
            ctx.count("ankr.bases");
            for v in variants(&mut ctx.rng, &b, 4) {
                ankr_case(ctx, &v);
            }
        }
        for mode in [FeatMode::Clean, FeatMode::Unsorted, FeatMode::Duplicates, FeatMode::CountBeyond, FeatMode::Empty] {
            let b = gen_feat(&mut ctx.rng, mode);
            ctx.count("feat.bases");
            for v in variants(&mut ctx.rng, &b, 4) {
                feat_case(ctx, &v);
            }
        }
        for mode in [LtagMode::Clean, LtagMode::RangesAtEnd, LtagMode::BadUtf8, LtagMode::CountBeyond, LtagMode::Overlap, LtagMode::Empty] {
            let b = gen_ltag(&mut ctx.rng, mode);
            ctx.count("ltag.bases");
            for v in variants(&mut ctx.rng, &b, 4) {
                ltag_case(ctx, &v);
            }
        }
    }
    // feat: flag words of interest
    for flags in [0u16, 1, 0xFF, 0x3FFF, 0x4000, 0x4001, 0x40FF, 0x41FF, 0x7FFF, 0x8000, 0x80FF, 0xBFFF, 0xC000, 0xC001, 0xC0FF, 0xFFFF] {
        let mut b = B::new();
        b.u32(0x0001_0000).u16(1).u16(0).u32(0);
        b.u16(7).u16(1).u32(24).u16(flags).u16(256);
        b.u16(0).u16(257);
        feat_case(ctx, &b.v);
    }
    // ltag: one range sweeping over the end of the data
    {
        let mut base = B::new();
        base.u32(1).u32(0).u32(1).u16(0).u16(0);
        base.bytes(b"en-GB");
        let l = base.len();
        for off in [0usize, 1, 15, 16, l - 2, l - 1, l, l + 1, 0xFFFE, 0xFFFF] {
            for ln in [0usize, 1, 2, 5, 6, l, l + 1, 0xFFFE, 0xFFFF] {
                let mut v = base.v.clone();
                v[12..14].copy_from_slice(&(off as u16).to_be_bytes());
                v[14..16].copy_from_slice(&(ln as u16).to_be_bytes());
                ltag_case(ctx, &v);
            }
        }
    }
    // ltag: every 1–4 byte sequence class of UTF-8 as the single tag
    for _ in 0..if ctx.thorough { 2000 } else { 400 } {
        let k = 1 + ctx.rng.below(4) as usize;
        let mut s: Vec<u8> = vec![];
        for j in 0..k {
            s.push(if j == 0 {
                *ctx.rng.pick(&[0x00u8, 0x41, 0x7F, 0x80, 0xBF, 0xC0, 0xC1, 0xC2, 0xDF, 0xE0, 0xE1, 0xEC, 0xED, 0xEE, 0xEF, 0xF0, 0xF1, 0xF3, 0xF4, 0xF5, 0xFF])
            } else {
                *ctx.rng.pick(&[0x00u8, 0x41, 0x7F, 0x80, 0x8F, 0x90, 0x9F, 0xA0, 0xBF, 0xC0, 0xC2, 0xE0, 0xFF])
            });
        }
        let mut b = B::new();
        b.u32(1).u32(0).u32(1).u16(16).u16(k as u16);
        b.bytes(&s);
        ltag_case(ctx, &b.v);
    }
}

// ------------------------------------------------------------------------------------------------
// IFT (generators after hand/ift.rs)

const MAX_ENTRY_INDEXES: [u16; 8] = [0, 1, 7, 8, 255, 256, 257, 0xFFFF];

struct F1Spec {
    max_entry_index: u16,
    glyph_count: u32,
    first_mapped: u16,
    entries: Vec<u16>,
    feature_map: bool,
    field_flags: u8,
}

fn put_id(b: &mut B, wide: bool, v: u16) {
    if wide {
        b.u16(v);
    } else {
        b.u8(v as u8);
    }
}

fn format1(rng: &mut Rng, s: &F1Spec) -> B {
    let wide = s.max_entry_index >= 256;
    let mut b = B::new();
    b.f8(1).u8(0).u8(0).u8(0).f8(s.field_flags);
    b.bytes(&rng.bytes(16));
    b.f16(s.max_entry_index).f16(s.max_entry_index.min(rng.below(300) as u16));
    b.f24(s.glyph_count);
    let gm_at = b.len();
    b.f32(0);
    let fm_at = b.len();
    b.f32(0);
    let bitmap_len = s.max_entry_index as usize / 8 + 1;
    let mut bitmap = rng.bytes(bitmap_len);
    if rng.chance(1, 3) {
        bitmap.fill(0xFF);
    }
    b.bytes(&bitmap);
    let uri: &[u8] = match rng.below(5) {
        0 => b"",
        1 => b"//foo.bar/{id}",
        2 => b"\xFF\xFE{id}",
        3 => "//\u{e9}\u{20ac}/{id}".as_bytes(),
        _ => b"a",
    };
    b.f16(uri.len() as u16);
    b.bytes(uri);
    b.u8(rng.below(4) as u8);
    if s.field_flags & 1 != 0 {
        b.u32(rng.next() as u32);
    }
    if s.field_flags & 2 != 0 {
        b.u32(rng.next() as u32);
    }
    let at = b.len();
    b.set32(gm_at, at as u32);
    b.f16(s.first_mapped);
    for e in &s.entries {
        put_id(&mut b, wide, *e);
    }
    if s.feature_map {
        let at = b.len();
        b.set32(fm_at, at as u32);
        let n = rng.below(4) as u16;
        b.f16(n);
        let mut counts = vec![];
        for k in 0..n {
            b.tag(&[b'l', b'i', b'g', b'a' + k as u8]);
            put_id(&mut b, wide, rng.below(s.max_entry_index as u64 + 1) as u16);
            let c = match rng.below(6) {
                0 => 0xFFFF,
                c => c as u16 % 3,
            };
            counts.push((c as usize).min(3));
            put_id(&mut b, wide, c);
        }
        for c in counts {
            for _ in 0..c {
                put_id(&mut b, wide, rng.below(s.max_entry_index as u64 + 1) as u16);
                put_id(&mut b, wide, rng.below(s.max_entry_index as u64 + 1) as u16);
            }
        }
        if rng.chance(1, 3) {
            let n = 1 + rng.below(3) as usize;
            b.bytes(&rng.bytes(n));
        }
    }
    b
}

fn f1_spec(rng: &mut Rng, mei: u16) -> F1Spec {
    let glyph_count = match rng.below(8) {
        0 => 0,
        1 => 1,
        _ => 2 + rng.below(10) as u32,
    };
    let first_mapped = match rng.below(8) {
        0 => glyph_count as u16,
        1 => glyph_count as u16 + 1,
        2 => 0,
        3 => 0xFFFF,
        _ => rng.below(glyph_count as u64 + 1) as u16,
    };
    let mut n = (glyph_count as usize).saturating_sub(first_mapped as usize);
    match rng.below(10) {
        0 => n += 1,
        1 => n = n.saturating_sub(1),
        _ => {}
    }
    let entries = (0..n).map(|_| if rng.chance(1, 3) { 0 } else { rng.below(mei as u64 + 1) as u16 }).collect();
    F1Spec { max_entry_index: mei, glyph_count, first_mapped, entries, feature_map: rng.chance(2, 3), field_flags: rng.below(4) as u8 | if rng.chance(1, 8) { 0x80 } else { 0 } }
}

fn ers_str(fm: &FeatureMap, arg: u16) -> String {
    fm.entry_records_size(arg).map(|v| v.to_string()).unwrap_or_else(|e| err_str(&e))
}

fn f1_case(ctx: &mut Ctx, bytes: &[u8]) {
    let mei = w16(bytes, 21);
    let ixs = cap(&mut ctx.rng, edge16(&[mei, (mei / 8 + 1) * 8, (mei / 8) * 8, 7, 8, 9, 15, 16]), 24);
    let req = format!("ha.f1 {} | {}", hex(bytes), join(&ixs));
    let len = bytes.len();
    let mut bounded = true;
    let mut in_range = true;
    let mut labels: Vec<String> = vec![];
    let resp = ask(ctx, req, bytes, || match PatchMapFormat1::read(FontData::new(bytes)) {
        Err(_) => "err".into(),
        Ok(t) => {
            let gc = t.glyph_count().to_u32();
            let uri = t.uri_template_as_string().is_ok();
            labels.push(format!("f1.uri.{}", if uri { "utf8" } else { "invalid" }));
            let gm = t.glyph_map();
            let (gms, first) = match &gm {
                Ok(g) => {
                    let size = U8Or16::compute_size(&t.max_entry_index()).unwrap();
                    labels.push("f1.glyph-map.ok".into());
                    (format!("{}:{}", g.first_mapped_glyph(), g.entry_index().len() * size), g.first_mapped_glyph() as u32)
                }
                Err(e) => {
                    labels.push(format!("f1.glyph-map.{}", err_str(e)));
                    (err_str(e), 0)
                }
            };
            let mut xs: Vec<u64> = vec![];
            let mut n = 0usize;
            let mut last = "-".to_string();
            let mut prev: Option<u32> = None;
            for (g, e) in t.gid_to_entry_iter() {
                n += 1;
                if n > len + 1 {
                    bounded = false;
                    break;
                }
                let g = g.to_u32();
                in_range &= e > 0 && g >= first && g < gc && prev.map(|p| p < g).unwrap_or(true);
                prev = Some(g);
                xs.extend([g as u64, e as u64]);
                last = format!("{g}:{e}");
            }
            if gm.is_ok() {
                let mapped = gc.saturating_sub(first) as usize;
                labels.push(format!("f1.iter.{}", if mapped == 0 { "no-mapped-glyph" } else if n == 0 { "all-entries-zero" } else if n < mapped { "some-entries-zero" } else { "all-yielded" }));
            }
            let bits: String = ixs.iter().map(|i| if t.is_entry_applied(*i) { '1' } else { '0' }).collect();
            let fm = match t.feature_map() {
                None => {
                    labels.push("f1.feature-map.none".into());
                    "none".to_string()
                }
                Some(Err(e)) => {
                    labels.push(format!("f1.feature-map.{}", err_str(&e)));
                    err_str(&e)
                }
                Some(Ok(fm)) => {
                    labels.push("f1.feature-map.ok".into());
                    [t.max_entry_index(), 0, 255, 256, 65535].iter().map(|a| ers_str(&fm, *a)).collect::<Vec<_>>().join(",")
                }
            };
            format!("{} {} | {} | {} {} {} | {} | {}", t.entry_count(), uri as u8, gms, n, fnv(&xs), last, if bits.is_empty() { "-".into() } else { bits }, fm)
        }
    });
    if let Some(resp) = resp {
        ctx.oracle("f1.iter-bounded", bounded, || hex(bytes), || "gid_to_entry_iter yields more items than the table has bytes".into());
        ctx.oracle("f1.iter-items-in-range", in_range, || hex(bytes), || "gid_to_entry_iter: zero entry, glyph outside first_mapped_glyph..glyph_count, or not ascending".into());
        if resp == "err" {
            ctx.count("f1.read-err");
        }
        labels.sort();
        labels.dedup();
        for l in labels {
            ctx.count(&l);
        }
    }
}

/// `[max_entry_index u16][feature map]`: `FeatureMap::read` with several own arguments,
/// `entry_records_size` with several arguments
fn fm_case(ctx: &mut Ctx, bytes: &[u8]) {
    let Some(mei) = rd(bytes, 0, 2) else { return };
    let data = &bytes[2..];
    let mut owns = vec![mei as u16, 0, 256];
    owns.dedup();
    for own in owns {
        let args = [own, 0, 255, 256, 0xFFFF];
        let req = format!("ha.fm {} {} | {}", own, hex(data), join(&args));
        let mut sum_ok = true;
        let resp = ask(ctx, req, data, || match FeatureMap::read(FontData::new(data), own) {
            Err(e) => err_str(&e),
            Ok(fm) => {
                // reference: Σ count · width · 2 over the records
                let mut want: [usize; 5] = [0; 5];
                let mut all_ok = true;
                for r in fm.feature_records().iter() {
                    match r {
                        Ok(r) => {
                            for (k, a) in args.iter().enumerate() {
                                want[k] += r.entry_map_count().get() as usize * if *a < 256 { 2 } else { 4 };
                            }
                        }
                        Err(_) => all_ok = false,
                    }
                }
                let got: Vec<String> = args.iter().map(|a| ers_str(&fm, *a)).collect();
                if all_ok {
                    sum_ok &= got.iter().zip(want.iter()).all(|(g, w)| *g == w.to_string());
                }
                format!("{} | {}", fm.feature_count(), join(&got))
            }
        });
        if let Some(resp) = resp {
            ctx.oracle("fm.entry-records-size-is-sum", sum_ok, || format!("own={own} {}", hex(data)), || resp.clone());
            ctx.count(if resp.starts_with('e') { "fm.read-err" } else if resp.starts_with("0 ") { "fm.no-records" } else { "fm.records" });
        }
    }
}

struct GkSpec {
    wide: bool,
    gids: Vec<u32>,
    n_tables: u8,
}

fn glyph_patches(rng: &mut Rng, s: &GkSpec) -> B {
    let mut b = B::new();
    b.f32(s.gids.len() as u32).f8(s.n_tables);
    for g in &s.gids {
        if s.wide {
            b.u24(*g);
        } else {
            b.u16(*g as u16);
        }
    }
    for k in 0..s.n_tables {
        b.tag(&[b'g', b'l', b'y', b'a' + k % 26]);
    }
    let n_off = s.gids.len() * s.n_tables as usize + 1;
    let offs = b.len();
    for _ in 0..n_off {
        b.f32(0);
    }
    let mut k = 0;
    for _ in 0..s.n_tables {
        for _ in 0..s.gids.len() {
            let d = rbytes(rng, 5);
            let at = b.len();
            b.set32(offs + 4 * k, at as u32);
            b.bytes(&d);
            k += 1;
        }
    }
    let at = b.len();
    b.set32(offs + 4 * k, at as u32);
    b
}

fn gp_case(ctx: &mut Ctx, bytes: &[u8], wide: bool) {
    let gc = w32(bytes, 0) as usize;
    let tc = rd(bytes, 4, 1).unwrap_or(0) as usize;
    let mut tis: Vec<usize> = vec![0, 1, 2, tc, tc.saturating_sub(1), tc + 1, gc, gc.saturating_mul(tc), 0xFFFF_FFFF, 1 << 33, usize::MAX / 2, usize::MAX / 2 + 1, usize::MAX / 3 + 1, usize::MAX - 1, usize::MAX];
    tis.sort();
    tis.dedup();
    let req = format!("ha.gp {} {} | {}", wide as u8, hex(bytes), join(&tis));
    let len = bytes.len();
    let mut bounded = true;
    let mut inside_ok = true;
    let mut after_err = false;
    let mut labels: Vec<String> = vec![];
    let resp = ask(ctx, req, bytes, || match GlyphPatches::read(FontData::new(bytes), GlyphKeyedFlags::from_bits_truncate(wide as u8)) {
        Err(_) => "err".into(),
        Ok(t) => {
            let gc = t.glyph_count() as usize;
            join(
                &tis.iter()
                    .map(|ti| {
                        let mut xs: Vec<u64> = vec![];
                        let mut n = 0usize;
                        let mut last = "-".to_string();
                        let mut failed = false;
                        for r in t.glyph_data_for_table(*ti) {
                            n += 1;
                            if n > gc.min(len / 2) + 1 {
                                bounded = false;
                                break;
                            }
                            after_err |= failed;
                            match r {
                                Ok((g, d)) => {
                                    inside_ok &= inside(d, bytes);
                                    let st = (d.as_ptr() as usize).wrapping_sub(bytes.as_ptr() as usize);
                                    xs.extend([1, g.to_u32() as u64, st as u64, d.len() as u64]);
                                    last = format!("{}.{}.{}", g.to_u32(), st, d.len());
                                    labels.push("gp.item.ok".into());
                                }
                                Err(e) => {
                                    failed = true;
                                    let (code, l) = match &e {
                                        ReadError::OutOfBounds => (vec![2u64, 1], "eO".to_string()),
                                        ReadError::NullOffset => (vec![2, 2], "eN".to_string()),
                                        ReadError::MalformedData(m) => (vec![2, 3], format!("eM.{}", if m.contains("unsorted") { "gids" } else { "offsets" })),
                                        other => (vec![2, 9], format!("{other:?}")),
                                    };
                                    xs.extend(code);
                                    last = err_str(&e);
                                    labels.push(format!("gp.item.{l}"));
                                }
                            }
                        }
                        labels.push(format!("gp.table.{}", if n == 0 { "empty" } else if failed { "ends-with-error" } else if n == gc { "all-glyphs" } else { "short" }));
                        format!("{}:{}:{}", n, fnv(&xs), last)
                    })
                    .collect::<Vec<_>>(),
            )
        }
    });
    if let Some(resp) = resp {
        ctx.oracle("gp.iter-bounded", bounded, || format!("wide={wide} {}", hex(bytes)), || "glyph_data_for_table yields more than glyph_count / len/2 items".into());
        ctx.oracle("gp.data-inside-table", inside_ok, || format!("wide={wide} {}", hex(bytes)), || "glyph data slice outside the table".into());
        ctx.oracle("gp.nothing-after-error", !after_err, || format!("wide={wide} {}", hex(bytes)), || "an item follows an Err item".into());
        if resp == "err" {
            ctx.count("gp.read-err");
        }
        labels.sort();
        labels.dedup();
        for l in labels {
            ctx.count(&l);
        }
    }
}

fn run_ift(ctx: &mut Ctx) {
    let rounds = if ctx.thorough { 80 } else { 16 };
    for round in 0..rounds {
        let mei = MAX_ENTRY_INDEXES[round % MAX_ENTRY_INDEXES.len()];
        if mei == 0xFFFF && round >= 8 && !ctx.thorough {
            continue;
        }
        let spec = f1_spec(&mut ctx.rng, mei);
        let b = format1(&mut ctx.rng, &spec);
        ctx.count("f1.bases");
        if b.v.len() > 600 {
            // max_entry_index 0xFFFF: an 8 KiB bitmap — the base, field values and a few cuts only
            f1_case(ctx, &b.v);
            for c in [0usize, 5, 22, 23, 36, 40, b.v.len() - 1, b.v.len() - 2] {
                f1_case(ctx, &b.v[..c]);
            }
            continue;
        }
        for v in variants(&mut ctx.rng, &b, 4) {
            f1_case(ctx, &v);
        }
    }
    // feature maps with independent arguments
    for round in 0..if ctx.thorough { 60 } else { 12 } {
        let mei = MAX_ENTRY_INDEXES[round % MAX_ENTRY_INDEXES.len()];
        let wide = mei >= 256;
        let mut b = B::new();
        b.f16(mei);
        let n = ctx.rng.below(4) as u16;
        b.f16(n);
        let mut total = 0;
        for _ in 0..n {
            b.tag(b"liga");
            put_id(&mut b, wide, 1);
            let c = match ctx.rng.below(5) {
                0 => 0xFFFF,
                c => c as u16,
            };
            total += (c as usize).min(6);
            put_id(&mut b, wide, c);
        }
        for _ in 0..total {
            put_id(&mut b, wide, ctx.rng.below(9) as u16);
            put_id(&mut b, wide, ctx.rng.below(9) as u16);
        }
        ctx.count("fm.bases");
        for v in variants(&mut ctx.rng, &b, 3) {
            fm_case(ctx, &v);
        }
    }
    // glyph keyed patches
    for round in 0..if ctx.thorough { 100 } else { 21 } {
        let wide = round % 2 == 1;
        let n = match round % 7 {
            0 => 0,
            1 => 1,
            _ => 1 + ctx.rng.below(5) as usize,
        };
        let mut gids: Vec<u32> = vec![];
        let mut g = 0u32;
        for _ in 0..n {
            g += 1 + ctx.rng.below(if wide { 70000 } else { 300 }) as u32;
            gids.push(g);
        }
        match round % 5 {
            3 if n > 1 => gids[n - 1] = gids[0],
            4 if n > 1 => gids.reverse(),
            _ => {}
        }
        let spec = GkSpec { wide, gids, n_tables: (round % 4) as u8 };
        let mut b = glyph_patches(&mut ctx.rng, &spec);
        // descending / null / beyond-the-end glyph data offsets
        if round % 3 == 2 && n > 0 && spec.n_tables > 0 {
            let offs = 5 + n * if wide { 3 } else { 2 } + 4 * spec.n_tables as usize;
            let k = ctx.rng.below((n * spec.n_tables as usize + 1) as u64) as usize;
            let l = b.v.len() as u32;
            let v = *ctx.rng.pick(&[0u32, 1, l, l + 1, l - 1, 0xFFFF_FFFF]);
            b.set32(offs + 4 * k, v);
        }
        ctx.count(if wide { "gp.bases.wide" } else { "gp.bases.narrow" });
        for (k, v) in variants(&mut ctx.rng, &b, 4).iter().enumerate() {
            gp_case(ctx, v, wide ^ (k % 16 == 15));
        }
    }
    // counts whose products overflow: glyph_count × table_count, × 4, × 3
    for gc in [0x4000_0000u32, 0x5555_5556, 0x7FFF_FFFF, 0x8000_0000, 0xFFFF_FFFF, 0x0101_0102] {
        for tc in [0u8, 1, 2, 4, 255] {
            let mut b = B::new();
            b.u32(gc).u8(tc);
            b.zeros(40);
            gp_case(ctx, &b.v, gc % 2 == 0);
        }
    }
    // CompatibilityId::from_u32s, U8Or16
    let mut quads: Vec<[u32; 4]> = vec![[0; 4], [u32::MAX; 4], [1, 2, 3, 4], [0x0102_0304, 0x0506_0708, 0x090A_0B0C, 0x0D0E_0F10], [0x8000_0000, 0x7FFF_FFFF, 0xFF, 0xFF00]];
    for _ in 0..24 {
        quads.push([ctx.rng.next() as u32, ctx.rng.next() as u32, ctx.rng.next() as u32, ctx.rng.next() as u32]);
    }
    for q in quads {
        let req = format!("ha.cid {} {} {} {}", q[0], q[1], q[2], q[3]);
        let r = ask(ctx, req, &[], || hex(CompatibilityId::from_u32s(q).as_slice()));
        if let Some(r) = r {
            let mut want = vec![];
            for v in q {
                want.extend(v.to_be_bytes());
            }
            ctx.oracle("cid.big-endian-words", r == hex(&want), || format!("{q:?}"), || r.clone());
            ctx.count("cid");
        }
    }
    for n in 0..4usize {
        for _ in 0..4 {
            let v = ctx.rng.bytes(n);
            for mei in [0u16, 1, 254, 255, 256, 257, 0xFFFF] {
                let req = format!("ha.u8or16 {} {}", mei, hex(&v));
                ask(ctx, req, &v, || format!("{} {}", U8Or16::compute_size(&mei).unwrap(), U8Or16::read_with_args(FontData::new(&v), &mei).map(|x| x.get().to_string()).unwrap_or_else(|e| err_str(&e))));
                ctx.count("u8or16");
            }
        }
    }
}

pub fn run(ctx: &mut Ctx) {
    run_lookups(ctx);
    run_state(ctx);
    run_stx(ctx);
    run_misc(ctx);
    run_ift(ctx);
}
