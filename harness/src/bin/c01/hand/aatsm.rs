//! group `aats.model` — correspondence of the real hand-written functions of
//! aat.rs state tables (StateTable / ExtendedStateTable class / entry), kern.rs, ankr.rs / feat.rs / ltag.rs / trak.rs accessors, ift.rs patch-map header helpers
//! with Model/HandAat.lean (`ha.*` driver commands), on generator-based inputs with truncations and
//! boundary fields; plus the group's own byte-level oracles.
use super::*;

pub fn run(_ctx: &mut Ctx) {}
