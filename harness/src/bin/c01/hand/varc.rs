//! VARC (read-fonts/src/tables/varc.rs): `Varc::{axis_indices,glyph}`, `VarcGlyph::components`
//! (`VarcComponentIter` / `VarcComponent::parse`), `MultiItemVariationData::{delta_sets,delta_set}`,
//! sparse variation regions, condition lists.  `hd.varc` compares the Ok/Err sequence of the
//! component iterator with Model/HandIter.lean (`varcStep`).
use super::*;
use read_fonts::tables::varc::Varc;
use read_fonts::{FontData, FontRead};

/// packed deltas holding `vals` (byte / word / long runs chosen per value size, zero runs for 0s)
pub fn packed_deltas(vals: &[i32], rng: &mut Rng) -> Vec<u8> {
    let mut out = vec![];
    let mut i = 0;
    while i < vals.len() {
        let max_run = (vals.len() - i).min(64);
        let run = 1 + rng.below(max_run as u64) as usize;
        let chunk = &vals[i..i + run];
        let all_zero = chunk.iter().all(|v| *v == 0);
        let fits8 = chunk.iter().all(|v| (-128..=127).contains(v));
        let fits16 = chunk.iter().all(|v| (-32768..=32767).contains(v));
        if all_zero && rng.chance(3, 4) {
            out.push(0x80 | (run as u8 - 1));
        } else if fits8 && rng.chance(3, 4) {
            out.push(run as u8 - 1);
            for v in chunk {
                out.push(*v as i8 as u8);
            }
        } else if fits16 && rng.chance(3, 4) {
            out.push(0x40 | (run as u8 - 1));
            for v in chunk {
                out.extend_from_slice(&(*v as i16).to_be_bytes());
            }
        } else {
            out.push(0xC0 | (run as u8 - 1));
            for v in chunk {
                out.extend_from_slice(&v.to_be_bytes());
            }
        }
        i += run;
    }
    out
}

/// CFF2-style INDEX (`Index2`): u32 count, u8 offSize, (count+1) offsets, data
pub fn index2(items: &[Vec<u8>], off_size: u8) -> B {
    // the offsets must be representable: widen the offset size if the object data is too large
    let total: usize = 1 + items.iter().map(|i| i.len()).sum::<usize>();
    let need: u8 = if total < 0x100 { 1 } else if total < 0x1_0000 { 2 } else if total < 0x100_0000 { 3 } else { 4 };
    let off_size = off_size.max(need);
    let mut b = B::new();
    b.f32(items.len() as u32);
    b.f8(off_size);
    let mut off = 1u32;
    for k in 0..=items.len() {
        match off_size {
            1 => b.f8(off as u8),
            2 => b.f16(off as u16),
            3 => b.f24(off),
            _ => b.f32(off),
        };
        if k < items.len() {
            off += items[k].len() as u32;
        }
    }
    for it in items {
        b.bytes(it);
    }
    b
}

pub fn u32var(v: u32) -> Vec<u8> {
    if v < 0x80 {
        vec![v as u8]
    } else if v < 0x4000 {
        vec![0x80 | (v >> 8) as u8, v as u8]
    } else if v < 0x20_0000 {
        vec![0xC0 | (v >> 16) as u8, (v >> 8) as u8, v as u8]
    } else if v < 0x1000_0000 {
        vec![0xE0 | (v >> 24) as u8, (v >> 16) as u8, (v >> 8) as u8, v as u8]
    } else {
        vec![0xF0, (v >> 24) as u8, (v >> 16) as u8, (v >> 8) as u8, v as u8]
    }
}

/// one variable component record, flags chosen at random; `axis_counts[i]` = number of axis values
/// of axis-indices list item `i`
fn component(rng: &mut Rng, axis_counts: &[usize], flag_bits: &FlagBits) -> Vec<u8> {
    let mut flags: u32 = 0;
    for bit in flag_bits.all {
        if rng.chance(1, 3) {
            flags |= bit;
        }
    }
    if rng.chance(1, 6) {
        // reserved bits: one uint32var each
        flags |= flag_bits.reserved & (rng.next() as u32);
    }
    if axis_counts.is_empty() {
        flags &= !flag_bits.have_axes;
    }
    let mut v = u32var(flags);
    if flags & flag_bits.gid24 != 0 {
        v.extend_from_slice(&(rng.below(1 << 24) as u32).to_be_bytes()[1..]);
    } else {
        v.extend_from_slice(&(rng.below(1 << 16) as u16).to_be_bytes());
    }
    if flags & flag_bits.have_condition != 0 {
        v.extend(u32var(rng.below(5) as u32));
    }
    if flags & flag_bits.have_axes != 0 {
        let ix = if rng.chance(1, 8) { axis_counts.len() + rng.below(3) as usize } else { rng.below(axis_counts.len() as u64) as usize };
        v.extend(u32var(ix as u32));
        if let Some(n) = axis_counts.get(ix) {
            let vals: Vec<i32> = (0..*n).map(|_| rng.range(-300, 300) as i32).collect();
            v.extend(packed_deltas(&vals, rng));
        }
    }
    if flags & flag_bits.axis_values_have_variation != 0 {
        v.extend(u32var(rng.next() as u32 >> rng.below(32)));
    }
    if flags & flag_bits.transform_has_variation != 0 {
        v.extend(u32var(rng.next() as u32 >> rng.below(32)));
    }
    for bit in flag_bits.transform_fields {
        if flags & bit != 0 {
            v.extend_from_slice(&(rng.next() as u16).to_be_bytes());
        }
    }
    for _ in 0..(flags & flag_bits.reserved).count_ones() {
        v.extend(u32var(rng.below(300) as u32));
    }
    v
}

struct FlagBits {
    all: &'static [u32],
    gid24: u32,
    have_condition: u32,
    have_axes: u32,
    axis_values_have_variation: u32,
    transform_has_variation: u32,
    transform_fields: &'static [u32],
    reserved: u32,
}

fn flag_bits() -> FlagBits {
    use read_fonts::tables::varc::VarcFlags as F;
    // leak small static tables built from the real flag constants (so a renumbering is followed)
    let tf: Vec<u32> = vec![
        F::HAVE_TRANSLATE_X.bits(),
        F::HAVE_TRANSLATE_Y.bits(),
        F::HAVE_ROTATION.bits(),
        F::HAVE_SCALE_X.bits(),
        F::HAVE_SCALE_Y.bits(),
        F::HAVE_SKEW_X.bits(),
        F::HAVE_SKEW_Y.bits(),
        F::HAVE_TCENTER_X.bits(),
        F::HAVE_TCENTER_Y.bits(),
    ];
    let mut all = tf.clone();
    all.extend([
        F::RESET_UNSPECIFIED_AXES.bits(),
        F::HAVE_AXES.bits(),
        F::AXIS_VALUES_HAVE_VARIATION.bits(),
        F::TRANSFORM_HAS_VARIATION.bits(),
        F::GID_IS_24BIT.bits(),
        F::HAVE_CONDITION.bits(),
    ]);
    FlagBits {
        all: Box::leak(all.into_boxed_slice()),
        gid24: F::GID_IS_24BIT.bits(),
        have_condition: F::HAVE_CONDITION.bits(),
        have_axes: F::HAVE_AXES.bits(),
        axis_values_have_variation: F::AXIS_VALUES_HAVE_VARIATION.bits(),
        transform_has_variation: F::TRANSFORM_HAS_VARIATION.bits(),
        transform_fields: Box::leak(tf.into_boxed_slice()),
        reserved: F::RESERVED_MASK.bits(),
    }
}

/// coverage format 1 with `n` glyphs
fn coverage1(n: u16) -> B {
    let mut b = B::new();
    b.u16(1).f16(n);
    for g in 0..n {
        b.u16(g * 2 + 1);
    }
    b
}

fn sparse_region(rng: &mut Rng) -> B {
    let mut b = B::new();
    let n = rng.below(4) as u16;
    b.f16(n);
    for _ in 0..n {
        b.u16(rng.below(4) as u16).u16(0xC000).u16(0).u16(0x4000);
    }
    b
}

fn multi_var_store(rng: &mut Rng) -> B {
    // format, regionListOffset, variationDataCount, offsets[]
    let nd = 1 + rng.below(3) as usize;
    let mut b = B::new();
    b.u16(1).f32(0).f16(nd as u16);
    let offs_at = b.len();
    for _ in 0..nd {
        b.f32(0);
    }
    // region list
    let rl_at = b.len();
    b.set32(2, rl_at as u32);
    let nr = rng.below(4) as usize;
    let mut rl = B::new();
    rl.f16(nr as u16);
    for _ in 0..nr {
        rl.f32(0);
    }
    for k in 0..nr {
        let at = rl.len();
        rl.set32(2 + 4 * k, at as u32);
        let r = sparse_region(rng);
        rl.append(&r);
    }
    b.append(&rl);
    for k in 0..nd {
        let at = b.len();
        b.set32(offs_at + 4 * k, at as u32);
        // MultiItemVariationData: format u8, regionIndexCount u16, indices, raw delta sets (Index2)
        let nri = rng.below(3) as u16;
        let mut d = B::new();
        d.u8(1).f16(nri);
        for i in 0..nri {
            d.u16(i);
        }
        let sets: Vec<Vec<u8>> = (0..rng.below(4)).map(|_| {
            let vals: Vec<i32> = (0..nri as usize * (1 + rng.below(2) as usize)).map(|_| rng.range(-1000, 1000) as i32).collect();
            packed_deltas(&vals, rng)
        }).collect();
        let ix = index2(&sets, 1 + rng.below(4) as u8);
        d.append(&ix);
        b.append(&d);
    }
    b
}

fn condition_list(rng: &mut Rng) -> B {
    let n = rng.below(4) as usize;
    let mut b = B::new();
    b.f32(n as u32);
    for _ in 0..n {
        b.f32(0);
    }
    for k in 0..n {
        let at = b.len();
        b.set32(4 + 4 * k, at as u32);
        // Condition format 1: format, axisIndex, min, max
        b.u16(1).u16(rng.below(3) as u16).u16(0xC000).u16(0x4000);
    }
    b
}

pub struct VarcParts {
    pub axis_counts: Vec<usize>,
    pub glyphs: Vec<Vec<u8>>,
}

/// a whole VARC table
pub fn varc_table(rng: &mut Rng, parts: &VarcParts, off_size: u8, with_store: bool) -> B {
    let mut b = B::new();
    b.u16(1).u16(0);
    for _ in 0..5 {
        b.f32(0);
    }
    let cov = coverage1(parts.glyphs.len() as u16);
    let at = b.append(&cov);
    b.set32(4, at as u32);
    if with_store {
        let st = multi_var_store(rng);
        let at = b.append(&st);
        b.set32(8, at as u32);
        let cl = condition_list(rng);
        let at = b.append(&cl);
        b.set32(12, at as u32);
    }
    if !parts.axis_counts.is_empty() || rng.chance(1, 2) {
        let items: Vec<Vec<u8>> = parts
            .axis_counts
            .iter()
            .map(|n| {
                let vals: Vec<i32> = (0..*n).map(|i| i as i32).collect();
                packed_deltas(&vals, rng)
            })
            .collect();
        let ix = index2(&items, off_size);
        let at = b.append(&ix);
        b.set32(16, at as u32);
    }
    let gl = index2(&parts.glyphs, off_size);
    let at = b.append(&gl);
    b.set32(20, at as u32);
    b
}

/// every hand-written accessor reachable from a VARC table
fn walk(bytes: &[u8], o: &mut Obs) {
    let Ok(varc) = Varc::read(FontData::new(bytes)) else {
        o.note(0);
        return;
    };
    let len = bytes.len();
    if let Ok(cov) = varc.coverage() {
        o.drain("coverage.iter", 65536 * (len / 6 + 1) + 1, cov.iter(), |o, g| o.note(g.to_u32() as u64));
    }
    if let Some(Ok(store)) = varc.multi_var_store() {
        if let Ok(rl) = store.region_list() {
            o.drain("regions.iter", len / 4 + 1, rl.regions().iter(), |o, r| {
                if let Ok(r) = r {
                    for a in r.region_axis_offsets() {
                        o.note(a.axis_index() as u64);
                    }
                }
            });
        }
        o.drain("variation_data.iter", len / 4 + 1, store.variation_data().iter(), |o, d| {
            if let Ok(d) = d {
                let r = d.delta_sets();
                o.res(&r);
                let n = r.map(|ix| ix.count() as usize).unwrap_or(0);
                for i in edge_usize(&[n]) {
                    let r = d.delta_set(i);
                    if o.res(&r) {
                        o.drain("delta_set.iter", 64 * len + 1, r.unwrap().iter(), |o, v| o.note(v as u64));
                    }
                }
            }
        });
    }
    if let Some(Ok(cl)) = varc.condition_list() {
        o.drain("conditions.iter", len / 4 + 1, cl.conditions().iter(), |o, c| {
            o.note(c.is_ok() as u64);
        });
    }
    let n_axis = match varc.axis_indices_list() {
        Some(Ok(ix)) => ix.count() as usize,
        _ => 0,
    };
    for i in edge_usize(&[n_axis]) {
        let r = varc.axis_indices(i);
        if o.res(&r) {
            o.drain("axis_indices.iter", 64 * len + 1, r.unwrap().iter(), |o, v| o.note(v as u64));
        }
    }
    let n_glyphs = varc.var_composite_glyphs().map(|ix| ix.count() as usize).unwrap_or(0);
    let mut ids = edge_usize(&[n_glyphs]);
    ids.extend(0..n_glyphs.min(12));
    for i in ids {
        let r = varc.glyph(i);
        if let Ok(g) = r {
            // proved bound (Props/C01Hand.lean varc_components_bounded): at most one component per
            // byte of the glyph record
            o.drain("components", len + 1, g.components(), |o, c| o.note(c.is_ok() as u64));
        } else {
            o.note(3);
        }
    }
}

/// `hd.varc`: Ok/Err sequence of `components()` for arbitrary glyph bytes inside a valid frame
fn correspondence(ctx: &mut Ctx, parts: &VarcParts, table: &[u8]) {
    let Ok(varc) = Varc::read(FontData::new(table)) else {
        return;
    };
    for (i, g) in parts.glyphs.iter().enumerate() {
        let what = format!("hd.varc {} {}", hex(g), join(&parts.axis_counts));
        PROGRESS.fetch_add(1, Ordering::Relaxed);
        let r = catch(|| {
            let mut s = String::new();
            if let Ok(gl) = varc.glyph(i) {
                for (k, c) in gl.components().enumerate() {
                    if k > g.len() + 2 {
                        s.push('!');
                        break;
                    }
                    s.push(if c.is_ok() { 'o' } else { 'e' });
                }
            } else {
                s.push('x');
            }
            if s.is_empty() {
                s.push('-');
            }
            s
        });
        match r {
            Ok(s) => ctx.case(what, s),
            Err(m) => ctx.oracle("no-panic", false, || what.clone(), || m.clone()),
        }
    }
}

pub fn run(ctx: &mut Ctx) {
    let fb = flag_bits();
    let rounds = if ctx.thorough { 160 } else { 28 };
    for round in 0..rounds {
        let n_axis = ctx.rng.below(4) as usize;
        let axis_counts: Vec<usize> = (0..n_axis).map(|_| ctx.rng.below(if round % 5 == 0 { 70 } else { 6 }) as usize).collect();
        let n_glyphs = 1 + ctx.rng.below(4) as usize;
        let mut glyphs: Vec<Vec<u8>> = vec![];
        for _ in 0..n_glyphs {
            let mut g = vec![];
            for _ in 0..ctx.rng.below(4) {
                g.extend(component(&mut ctx.rng, &axis_counts, &fb));
            }
            // half of the glyph records end inside a component / inside a multi-byte field
            match ctx.rng.below(6) {
                0 if !g.is_empty() => {
                    let cut = ctx.rng.below(g.len() as u64) as usize;
                    g.truncate(cut);
                }
                1 => g.push(ctx.rng.next() as u8),
                2 => {
                    g.extend(rbytes(&mut ctx.rng, 6));
                    g.push(0x80);
                }
                _ => {}
            }
            glyphs.push(g);
        }
        let parts = VarcParts { axis_counts, glyphs };
        let off_size = 1 + (round % 4) as u8;
        let table = varc_table(&mut ctx.rng, &parts, off_size, round % 2 == 0);
        correspondence(ctx, &parts, &table.v);
        ctx.drive("varc", &table, &walk);
        ctx.count(&format!("off_size{off_size}"));
    }
    // glyph records: every prefix of valid component sequences and short exhaustive records,
    // inside a fixed frame (this is where a truncated multi-byte field leaves the cursor past the end)
    let axis_counts = vec![0usize, 1, 3, 65];
    let mut recs: Vec<Vec<u8>> = vec![];
    for a in 0..=255u8 {
        recs.push(vec![a]);
    }
    for a in [0u8, 1, 2, 3, 0x40, 0x7F, 0x80, 0xC0, 0xE0, 0xF0, 0xFF] {
        for b in 0..=255u8 {
            recs.push(vec![a, b]);
            recs.push(vec![a, b, 0]);
            recs.push(vec![a, 0, b]);
            recs.push(vec![a, 0, 1, b]);
        }
    }
    for _ in 0..(if ctx.thorough { 3000 } else { 400 }) {
        let mut g = vec![];
        for _ in 0..1 + ctx.rng.below(3) {
            g.extend(component(&mut ctx.rng, &axis_counts, &fb));
        }
        for cut in 0..g.len() {
            if ctx.rng.chance(1, 3) {
                recs.push(g[..cut].to_vec());
            }
        }
        recs.push(g);
    }
    for chunk in recs.chunks(64) {
        let parts = VarcParts { axis_counts: axis_counts.clone(), glyphs: chunk.to_vec() };
        let table = varc_table(&mut ctx.rng, &parts, 2, false);
        correspondence(ctx, &parts, &table.v);
        ctx.call("varc", &table.v, &walk_all_glyphs);
        ctx.count("record-chunks");
    }
    ctx.drive_random("varc", if ctx.thorough { 4000 } else { 600 }, 96, &walk);
}

fn walk_all_glyphs(bytes: &[u8], o: &mut Obs) {
    let Ok(varc) = Varc::read(FontData::new(bytes)) else {
        return;
    };
    let n = varc.var_composite_glyphs().map(|ix| ix.count() as usize).unwrap_or(0);
    for i in 0..n.min(80) {
        if let Ok(g) = varc.glyph(i) {
            o.drain("components", bytes.len() + 1, g.components(), |o, c| o.note(c.is_ok() as u64));
        }
    }
}
