//! glyf / loca / TrueType bytecode hand-written code (read-fonts/src/tables/{glyf.rs, loca.rs,
//! glyf/bytecode/{decode,instruction,opcode}.rs}).
//!
//! group `glyf`:
//!   * `Loca::{read, len, is_empty, all_offsets_are_ascending, get_raw, get_glyf}` + its traversal
//!     impls (`SomeTable`/`SomeArray`/`Debug`), short and long, declared and mismatched `is_long`;
//!   * `SimpleGlyph::{num_points, has_overlapping_contours, read_points_fast<C>, points}`
//!     (`PointIter`, `resolve_coords_len`), caller slices of every length around `num_points`;
//!   * `CompositeGlyph::{components, component_glyphs_and_flags, count_and_instructions,
//!     instructions}` (`ComponentIter`, `ComponentGlyphIdFlagsIter`), `Anchor::compute_flags`,
//!     `Transform::{default, compute_flags}`, `Component` traversal (`SomeTable::get_field`);
//!   * `PointFlags` / `PointMarker` / `CurvePoint` helpers, `PointCoord` impls (i32, f32, Fixed,
//!     F26Dot6: `from_fixed`, `from_i32`, `to_f32`, `midpoint`).
//!   Besides no-panic / iter-bounded every call is compared with small independent models written
//!   here (`hand.glyf.model.*` relational oracles).
//! group `glyf.bytecode`: `Opcode::{from_byte, name, is_push, Display}` (and through the decoder
//!   `len`, `is_push_words`), `Decoder::{new, decode}`, `decode_all`, `Instruction` (Display),
//!   `InlineOperands::{len, is_empty, values}` against a model decoder.
use super::*;
use font_types::{F26Dot6, Fixed, GlyphId, Point};
use read_fonts::tables::glyf::bytecode::{decode_all, Decoder, Opcode};
use read_fonts::tables::glyf::{Anchor, Component, CompositeGlyph, CurvePoint, Glyf, Glyph, PointCoord, PointFlags, PointMarker, SimpleGlyph, Transform};
use read_fonts::tables::loca::Loca;
use read_fonts::traversal::SomeTable;
use read_fonts::{FontData, FontRead};
use std::cell::RefCell;

// ------------------------------------------------------------------------------------------------
// relational oracles evaluated INSIDE walk functions (which only see `Obs`): failures are parked in
// a thread local and turned into `ctx.oracle` failures by `flush_rel` after each drive.

thread_local! {
    static REL: RefCell<(u64, Vec<(String, String, String)>)> = RefCell::new((0, vec![]));
}

pub(super) fn rel(name: &str, ok: bool, what: &str, bytes: &[u8], detail: impl FnOnce() -> String) {
    REL.with(|r| {
        let mut r = r.borrow_mut();
        r.0 += 1;
        if !ok && r.1.len() < 256 {
            let input = format!("{what} {}", hex(bytes));
            if !r.1.iter().any(|(n, i, _)| n == name && *i == input) {
                r.1.push((name.to_string(), input, detail()));
            }
        }
    });
}

pub(super) fn flush_rel(ctx: &mut Ctx) {
    let (n, fails) = REL.with(|r| std::mem::take(&mut *r.borrow_mut()));
    ctx.rec.checks += n.saturating_sub(fails.len() as u64);
    for (name, input, detail) in fails {
        ctx.oracle(&name, false, || input, || detail);
    }
}

fn be16(b: &[u8], p: usize) -> Option<u16> {
    let s = b.get(p..p.checked_add(2)?)?;
    Some(u16::from_be_bytes([s[0], s[1]]))
}

fn be32(b: &[u8], p: usize) -> Option<u32> {
    let s = b.get(p..p.checked_add(4)?)?;
    Some(u32::from_be_bytes([s[0], s[1], s[2], s[3]]))
}

// ------------------------------------------------------------------------------------------------
// simple glyphs

/// strict model of `points()`: Some(points) iff the flag runs cover exactly `n` points and all
/// coordinate bytes are present
fn model_points(gd: &[u8], n: usize) -> Option<Vec<(i16, i16, bool)>> {
    model_points_fb(gd, n).map(|r| r.0)
}

/// ... and the number of flag bytes used
fn model_points_fb(gd: &[u8], n: usize) -> Option<(Vec<(i16, i16, bool)>, usize)> {
    if n == 0 || n > 65535 {
        return None;
    }
    let mut flags: Vec<u8> = Vec::with_capacity(n);
    let mut p = 0usize;
    while flags.len() < n {
        let f = *gd.get(p)?;
        p += 1;
        let mut rep = 1usize;
        if f & 8 != 0 {
            rep = *gd.get(p)? as usize + 1;
            p += 1;
        }
        if flags.len() + rep > n {
            return None;
        }
        for _ in 0..rep {
            flags.push(f);
        }
    }
    let flag_bytes = p;
    let mut xs: Vec<i16> = Vec::with_capacity(n);
    let mut x = 0i16;
    for f in &flags {
        let d: i16 = if f & 2 != 0 {
            let v = *gd.get(p)? as i16;
            p += 1;
            if f & 0x10 != 0 { v } else { -v }
        } else if f & 0x10 == 0 {
            let v = be16(gd, p)? as i16;
            p += 2;
            v
        } else {
            0
        };
        x = x.wrapping_add(d);
        xs.push(x);
    }
    let mut out = Vec::with_capacity(n);
    let mut y = 0i16;
    for (i, f) in flags.iter().enumerate() {
        let d: i16 = if f & 4 != 0 {
            let v = *gd.get(p)? as i16;
            p += 1;
            if f & 0x20 != 0 { v } else { -v }
        } else if f & 0x20 == 0 {
            let v = be16(gd, p)? as i16;
            p += 2;
            v
        } else {
            0
        };
        y = y.wrapping_add(d);
        out.push((xs[i], y, f & 1 != 0));
    }
    Some((out, flag_bytes))
}

/// model of `read_points_fast` on zero-initialised caller buffers of the right length (repeat
/// counts are clamped, at most `2 * n` flag bytes are looked at — two per point, `fix:` d12a1b2 —
/// and flags that end before every point has one are an error)
fn model_fast(gd: &[u8], n: usize) -> Option<Vec<(i32, i32, u8)>> {
    let avail = n.saturating_mul(2).min(gd.len());
    let mut flags = vec![0u8; n];
    let mut it = gd[..avail].iter().copied();
    let mut rb = 0usize;
    let mut i = 0usize;
    while let Some(f) = it.next() {
        rb += 1;
        if f & 8 != 0 {
            let c = (it.next()? as usize + 1).min(n - i);
            rb += 1;
            for k in i..i + c {
                flags[k] = f;
            }
            i += c;
        } else {
            flags[i] = f;
            i += 1;
        }
        if i == n {
            break;
        }
    }
    if i != n {
        return None;
    }
    let mut p = rb;
    let mut xs = Vec::with_capacity(n);
    let mut x = 0i32;
    for f in &flags {
        let mut d = 0i32;
        if f & 2 != 0 {
            d = *gd.get(p)? as i32;
            p += 1;
            if f & 0x10 == 0 {
                d = -d;
            }
        } else if f & 0x10 == 0 {
            d = be16(gd, p)? as i16 as i32;
            p += 2;
        }
        x = x.wrapping_add(d);
        xs.push(x);
    }
    let mut out = Vec::with_capacity(n);
    let mut y = 0i32;
    for (i, f) in flags.iter().enumerate() {
        let mut d = 0i32;
        if f & 4 != 0 {
            d = *gd.get(p)? as i32;
            p += 1;
            if f & 0x20 == 0 {
                d = -d;
            }
        } else if f & 0x20 == 0 {
            d = be16(gd, p)? as i16 as i32;
            p += 2;
        }
        y = y.wrapping_add(d);
        out.push((xs[i], y, *f));
    }
    Some(out)
}

fn fast_other<C: PointCoord + Default>(g: &SimpleGlyph, n: usize, o: &mut Obs, bits: impl Fn(C) -> u64) {
    let mut pts: Vec<Point<C>> = vec![Point::default(); n];
    let mut fl: Vec<PointFlags> = vec![PointFlags::default(); n];
    let r = g.read_points_fast(&mut pts, &mut fl);
    if o.res(&r) {
        for (p, f) in pts.iter().zip(&fl).take(64) {
            o.note(bits(p.x));
            o.note(bits(p.y));
            o.note(f.to_bits() as u64);
        }
    }
}

fn walk_simple(g: &SimpleGlyph, bytes: &[u8], o: &mut Obs) {
    const W: &str = "glyf.simple";
    let n = g.num_points();
    let ends = g.end_pts_of_contours();
    let gd = g.glyph_data();
    o.note(n as u64);
    o.note(ends.len() as u64);
    o.note(g.instruction_length() as u64);
    o.note_bytes(&g.instructions()[..g.instructions().len().min(16)]);
    o.note(gd.len() as u64);
    let model_n = ends.last().map(|e| e.get() as usize + 1).unwrap_or(0);
    rel("model.num_points", n == model_n && n <= 65536, W, bytes, || format!("num_points {n} model {model_n}"));
    let ov = g.has_overlapping_contours();
    o.note(ov as u64);
    rel("model.overlap", ov == gd.first().map(|f| f & 0x40 != 0).unwrap_or(false), W, bytes, || format!("has_overlapping_contours {ov}"));

    // points(): at most num_points items, at most 256 points per 2 flag bytes
    let cap = n.min(128usize.saturating_mul(gd.len()));
    let mut pts: Vec<CurvePoint> = vec![];
    let cnt = o.drain("points", cap, g.points(), |o, p| {
        o.note(p.x as u16 as u64);
        o.note(p.y as u16 as u64);
        o.note(p.on_curve as u64);
        pts.push(p);
    });
    let model_fb = model_points_fb(gd, n);
    let model = model_points(gd, n);
    match &model {
        None => rel("model.points", cnt == 0, W, bytes, || format!("points() yielded {cnt} items, model says none (num_points {n})")),
        Some(m) => {
            let same = cnt == m.len() && m.iter().zip(&pts).all(|(a, b)| a.0 == b.x && a.1 == b.y && a.2 == b.on_curve);
            rel("model.points", same, W, bytes, || format!("points() yielded {cnt} items, model {} (first difference at {:?})", m.len(), m.iter().zip(&pts).position(|(a, b)| !(a.0 == b.x && a.1 == b.y && a.2 == b.on_curve))));
        }
    }
    // CurvePoint constructors on what we saw
    if let Some(p) = pts.first() {
        let a = CurvePoint::new(p.x, p.y, p.on_curve);
        let b = if p.on_curve { CurvePoint::on_curve(p.x, p.y) } else { CurvePoint::off_curve(p.x, p.y) };
        rel("model.curvepoint", a == *p && b == *p, W, bytes, || "CurvePoint constructors disagree".into());
    }

    // read_points_fast: every combination of slice lengths 0, n-1, n, n+1 (one pair of buffers)
    let mut lens = vec![0usize, n.saturating_sub(1), n, n + 1];
    lens.sort();
    lens.dedup();
    let mut pbuf: Vec<Point<i32>> = vec![Point::default(); n + 1];
    let mut fbuf: Vec<PointFlags> = vec![PointFlags::default(); n + 1];
    let fast = model_fast(gd, n);
    for &pl in &lens {
        for &fl in &lens {
            let r = g.read_points_fast(&mut pbuf[..pl], &mut fbuf[..fl]);
            let ok = o.res(&r);
            if pl != n || fl != n {
                rel("model.fast-len", !ok, W, bytes, || format!("read_points_fast accepted slices of {pl} / {fl} for {n} points"));
                continue;
            }
            match &fast {
                None => rel("model.fast", !ok, W, bytes, || format!("read_points_fast Ok, model Err ({n} points)")),
                Some(m) => {
                    // the flags keep the on-curve bit (and the cubic bit with feature spec_next)
                    let coords = ok && m.iter().enumerate().all(|(i, e)| pbuf[i].x == e.0 && pbuf[i].y == e.1);
                    let same = coords && [0x01u8, 0x81].iter().any(|mask| m.iter().enumerate().all(|(i, e)| fbuf[i].to_bits() == e.2 & mask));
                    rel("model.fast", same, W, bytes, || format!("read_points_fast ok={ok}, differs from the model ({n} points)"));
                }
            }
            if ok {
                for i in 0..n.min(64) {
                    o.note(pbuf[i].x as u32 as u64);
                    o.note(pbuf[i].y as u32 as u64);
                    o.note(fbuf[i].to_bits() as u64);
                }
                // when both decoders succeed they agree (i16 wrap of the i32 sums) — as long as the
                // glyph does not use more flag bytes than points (see below)
                // (read_points_fast looks at no more than num_points flag bytes, so it rejects or
                // misreads glyphs that spend two bytes `flag|REPEAT, 0` on one point although
                // points() decodes them; `model_fast` mirrors that — a functional difference, not a
                // C01 matter)
                if let Some((m, fb)) = &model_fb {
                    let same = *fb > n || m.iter().enumerate().all(|(i, e)| pbuf[i].x as i16 == e.0 && pbuf[i].y as i16 == e.1 && fbuf[i].is_on_curve() == e.2);
                    rel("points-agree", same, W, bytes, || "read_points_fast and points() disagree".into());
                }
            } else if let Some((_, fb)) = &model_fb {
                rel("points-agree", *fb > n, W, bytes, || "points() decodes the glyph, read_points_fast fails".into());
            }
            // the buffers must be zero again for the next (n, n) call
            for f in fbuf.iter_mut() {
                *f = PointFlags::default();
            }
        }
    }
    if n <= 4096 {
        fast_other::<F26Dot6>(g, n, o, |v| v.to_bits() as u32 as u64);
        fast_other::<Fixed>(g, n, o, |v| v.to_bits() as u32 as u64);
        fast_other::<f32>(g, n, o, |v| v.to_bits() as u64);
    }
}

// ------------------------------------------------------------------------------------------------
// composite glyphs

/// reading `CompositeGlyphFlags` drops the undefined bits (0xE010)
const DEFINED_COMPOSITE_FLAGS: u16 = 0x1FEF;

#[derive(Debug, PartialEq, Clone)]
struct MComp {
    flags: u16,
    glyph: u16,
    /// (is_offset, a, b)
    anchor: (bool, i32, i32),
    /// xx, yx, xy, yy
    t: [i16; 4],
}

fn model_components(cd: &[u8]) -> Vec<MComp> {
    fn go(cd: &[u8], out: &mut Vec<MComp>) -> Option<()> {
        let mut p = 0usize;
        loop {
            let flags = be16(cd, p)? & DEFINED_COMPOSITE_FLAGS;
            let glyph = be16(cd, p + 2)?;
            p += 4;
            let words = flags & 1 != 0;
            let xy = flags & 2 != 0;
            let anchor = match (xy, words) {
                (true, true) => {
                    let a = (true, be16(cd, p)? as i16 as i32, be16(cd, p + 2)? as i16 as i32);
                    p += 4;
                    a
                }
                (true, false) => {
                    let a = (true, *cd.get(p)? as i8 as i32, *cd.get(p + 1)? as i8 as i32);
                    p += 2;
                    a
                }
                (false, true) => {
                    let a = (false, be16(cd, p)? as i32, be16(cd, p + 2)? as i32);
                    p += 4;
                    a
                }
                (false, false) => {
                    let a = (false, *cd.get(p)? as i32, *cd.get(p + 1)? as i32);
                    p += 2;
                    a
                }
            };
            let mut t = [0x4000i16, 0, 0, 0x4000];
            if flags & 0x08 != 0 {
                t[0] = be16(cd, p)? as i16;
                t[3] = t[0];
                p += 2;
            } else if flags & 0x40 != 0 {
                t[0] = be16(cd, p)? as i16;
                t[3] = be16(cd, p + 2)? as i16;
                p += 4;
            } else if flags & 0x80 != 0 {
                t[0] = be16(cd, p)? as i16;
                t[1] = be16(cd, p + 2)? as i16;
                t[2] = be16(cd, p + 4)? as i16;
                t[3] = be16(cd, p + 6)? as i16;
                p += 8;
            }
            out.push(MComp { flags, glyph, anchor, t });
            if flags & 0x20 == 0 {
                return Some(());
            }
        }
    }
    let mut out = vec![];
    let _ = go(cd, &mut out);
    out
}

/// model of `ComponentGlyphIdFlagsIter` + `count_and_instructions` (the cursor advances over
/// missing bytes; the flags of a record whose glyph id is missing still count as "current")
fn model_gids_instr(cd: &[u8]) -> (Vec<(u16, u16)>, Option<Vec<u8>>) {
    let mut out = vec![];
    let mut p = 0usize;
    let mut cur = 0u16;
    loop {
        let Some(flags) = be16(cd, p) else {
            p += 2;
            break;
        };
        p += 2;
        let flags = flags & DEFINED_COMPOSITE_FLAGS;
        cur = flags;
        let Some(glyph) = be16(cd, p) else {
            p += 2;
            break;
        };
        p += 2;
        p += if flags & 1 != 0 { 4 } else { 2 };
        if flags & 0x08 != 0 {
            p += 2;
        } else if flags & 0x40 != 0 {
            p += 4;
        } else if flags & 0x80 != 0 {
            p += 8;
        }
        out.push((glyph, flags));
        if flags & 0x20 == 0 {
            break;
        }
    }
    let instr = if cur & 0x100 != 0 {
        be16(cd, p).and_then(|n| cd.get(p + 2..p + 2 + n as usize)).map(|s| s.to_vec())
    } else {
        None
    };
    (out, instr)
}

fn comp_matches(c: &Component, m: &MComp) -> bool {
    let anchor = match c.anchor {
        Anchor::Offset { x, y } => (true, x as i32, y as i32),
        Anchor::Point { base, component } => (false, base as i32, component as i32),
    };
    c.flags.bits() == m.flags
        && c.glyph.to_u16() == m.glyph
        && anchor == m.anchor
        && [c.transform.xx.to_bits(), c.transform.yx.to_bits(), c.transform.xy.to_bits(), c.transform.yy.to_bits()] == m.t
}

fn walk_composite(g: &CompositeGlyph, bytes: &[u8], o: &mut Obs) {
    const W: &str = "glyf.composite";
    let cd = g.component_data();
    let cap = cd.len() / 4 + 1;
    o.note(cd.len() as u64);
    let mut comps: Vec<Component> = vec![];
    let nc = o.drain("components", cap, g.components(), |o, c| {
        o.note(c.flags.bits() as u64);
        o.note(c.glyph.to_u16() as u64);
        match c.anchor {
            Anchor::Offset { x, y } => {
                o.note(1);
                o.note(x as u16 as u64);
                o.note(y as u16 as u64);
            }
            Anchor::Point { base, component } => {
                o.note(2);
                o.note(base as u64);
                o.note(component as u64);
            }
        }
        for v in [c.transform.xx, c.transform.yx, c.transform.xy, c.transform.yy] {
            o.note(v.to_bits() as u16 as u64);
        }
        comps.push(c);
    });
    let model = model_components(cd);
    let same = nc == model.len() && comps.iter().zip(&model).all(|(c, m)| comp_matches(c, m));
    rel("model.components", same, W, bytes, || format!("components() yielded {nc}, model {} (first difference at {:?})", model.len(), comps.iter().zip(&model).position(|(c, m)| !comp_matches(c, m))));

    let mut gf: Vec<(u16, u16)> = vec![];
    let ng = o.drain("component_glyphs_and_flags", cap, g.component_glyphs_and_flags(), |o, (gid, f)| {
        o.note(gid.to_u16() as u64);
        o.note(f.bits() as u64);
        gf.push((gid.to_u16(), f.bits()));
    });
    let (mgf, minstr) = model_gids_instr(cd);
    rel("model.component_glyphs_and_flags", gf == mgf, W, bytes, || format!("component_glyphs_and_flags() yielded {ng}, model {}", mgf.len()));
    // the light iterator sees every complete component, plus at most one truncated record
    let prefix = nc <= ng && ng <= nc + 1 && comps.iter().zip(&gf).all(|(c, g)| c.glyph.to_u16() == g.0 && c.flags.bits() == g.1);
    rel("components-prefix", prefix, W, bytes, || format!("components() {nc} items vs component_glyphs_and_flags() {ng} items"));

    let (count, instr) = g.count_and_instructions();
    o.note(count as u64);
    match instr {
        Some(i) => o.note_bytes(i),
        None => o.note(0xFFFF_FFFF),
    }
    rel("model.count_and_instructions", count == mgf.len() && instr.map(|i| i.to_vec()) == minstr, W, bytes, || format!("count {count} (model {}), instructions {:?} (model {:?})", mgf.len(), instr.map(|i| i.len()), minstr.as_ref().map(|i| i.len())));
    let i2 = g.instructions();
    rel("model.instructions", i2 == instr, W, bytes, || "instructions() != count_and_instructions().1".into());

    for (c, m) in comps.iter().zip(&model).take(24) {
        // Anchor / Transform flag computation
        let af = c.anchor.compute_flags().bits();
        let (is_off, a, b) = m.anchor;
        let want = if is_off {
            2 | if !(-128..=127).contains(&a) || !(-128..=127).contains(&b) { 1 } else { 0 }
        } else if a > 255 || b > 255 {
            1
        } else {
            0
        };
        o.note(af as u64);
        rel("model.anchor-flags", af == want && (af & !m.flags & 1) == 0 && (af & 2) == (m.flags & 2), W, bytes, || format!("Anchor::compute_flags {af:#x}, model {want:#x}, record flags {:#x}", m.flags));
        let tf = c.transform.compute_flags().bits();
        let want = if m.t[1] != 0 || m.t[2] != 0 {
            0x80
        } else if m.t[0] != m.t[3] {
            0x40
        } else if m.t[0] != 0x4000 {
            0x08
        } else {
            0
        };
        o.note(tf as u64);
        rel("model.transform-flags", tf == want, W, bytes, || format!("Transform::compute_flags {tf:#x}, model {want:#x}"));
        // traversal
        o.note_str(c.type_name());
        for i in [0usize, 1, 2, 3, 4, 5, usize::MAX] {
            match c.get_field(i) {
                Some(f) => o.note_str(f.name),
                None => o.note(0),
            }
            rel("model.component-fields", c.get_field(i).is_some() == (i < 4), W, bytes, || format!("Component::get_field({i})"));
        }
    }
}

fn walk_glyph(bytes: &[u8], o: &mut Obs) {
    let r = Glyph::read(FontData::new(bytes));
    o.res(&r);
    let nc = be16(bytes, 0).map(|v| v as i16);
    match &r {
        Ok(Glyph::Simple(g)) => {
            o.note(1);
            rel("model.dispatch", nc.map(|n| n >= 0) == Some(true), "glyf.glyph", bytes, || "Glyph::read chose Simple".into());
            walk_simple(g, bytes, o);
        }
        Ok(Glyph::Composite(g)) => {
            o.note(2);
            rel("model.dispatch", nc.map(|n| n < 0) == Some(true), "glyf.glyph", bytes, || "Glyph::read chose Composite".into());
            walk_composite(g, bytes, o);
        }
        Err(_) => {}
    }
    if let Ok(g) = &r {
        o.note(g.number_of_contours() as u16 as u64);
        for v in [g.x_min(), g.y_min(), g.x_max(), g.y_max()] {
            o.note(v as u16 as u64);
        }
        o.note(g.offset_data().len() as u64);
    }
    // the typed readers directly, whatever the sign of numberOfContours says
    if !matches!(r, Ok(Glyph::Simple(_))) {
        if let Ok(g) = SimpleGlyph::read(FontData::new(bytes)) {
            // a negative contour count reads as an empty end point array
            walk_simple(&g, bytes, o);
        }
    }
    if !matches!(r, Ok(Glyph::Composite(_))) {
        if let Ok(g) = CompositeGlyph::read(FontData::new(bytes)) {
            walk_composite(&g, bytes, o);
        }
    }
}

// ------------------------------------------------------------------------------------------------
// loca + glyf; container: [flags: u8 (bit 0 = long)] [loca length: u16] [loca] [glyf]

fn split_container(bytes: &[u8]) -> Option<(bool, &[u8], &[u8])> {
    let ll = be16(bytes, 1)? as usize;
    let rest = &bytes[3..];
    let ll = ll.min(rest.len());
    Some((bytes[0] & 1 != 0, &rest[..ll], &rest[ll..]))
}

fn walk_loca(bytes: &[u8], o: &mut Obs) {
    const W: &str = "glyf.loca";
    let Some((declared_long, loca_b, glyf_b)) = split_container(bytes) else {
        return;
    };
    let Ok(glyf) = Glyf::read(FontData::new(glyf_b)) else {
        rel("glyf-reads", false, W, bytes, || "Glyf::read failed".into());
        return;
    };
    for is_long in [declared_long, !declared_long] {
        let r = Loca::read(FontData::new(loca_b), is_long);
        if !o.res(&r) {
            continue;
        }
        let loca = r.unwrap();
        let w = if is_long { 4 } else { 2 };
        let entries = loca_b.len() / w;
        let raw = |i: usize| -> Option<u32> {
            if i >= entries {
                return None;
            }
            if is_long { be32(loca_b, i * 4) } else { be16(loca_b, i * 2).map(|v| v as u32 * 2) }
        };
        let len = loca.len();
        o.note(len as u64);
        o.note(loca.is_empty() as u64);
        rel("model.loca-len", len == entries.saturating_sub(1) && loca.is_empty() == (len == 0) && matches!(loca, Loca::Long(_)) == is_long, W, bytes, || format!("len {len} for {entries} entries"));
        let asc = loca.all_offsets_are_ascending();
        o.note(asc as u64);
        let masc = (1..entries).all(|i| raw(i - 1) <= raw(i));
        rel("model.loca-ascending", asc == masc, W, bytes, || format!("all_offsets_are_ascending {asc}, model {masc} (long={is_long})"));
        let mut ids = edge_usize(&[len, entries]);
        ids.extend(0..(entries + 2).min(40));
        for i in ids {
            let v = loca.get_raw(i);
            o.note(v.map(|v| v as u64 + 1).unwrap_or(0));
            rel("model.loca-get_raw", v == raw(i), W, bytes, || format!("get_raw({i}) = {v:?}, model {:?} (long={is_long})", raw(i)));
        }
        let mut gids = edge32(&[len as u64, entries as u64]);
        gids.extend(0..(entries as u32 + 2).min(40));
        for gid in gids {
            let r = loca.get_glyf(GlyphId::new(gid), &glyf);
            o.res(&r);
            // model
            let idx = gid as usize;
            let want: Result<bool, ()> = match (raw(idx), raw(idx + 1)) {
                (Some(s), Some(e)) => {
                    if s == e {
                        Ok(false)
                    } else if s <= e && e as usize <= glyf_b.len() {
                        match Glyph::read(FontData::new(&glyf_b[s as usize..e as usize])) {
                            Ok(_) => Ok(true),
                            Err(_) => Err(()),
                        }
                    } else {
                        Err(())
                    }
                }
                _ => Err(()),
            };
            let got: Result<bool, ()> = match &r {
                Ok(Some(_)) => Ok(true),
                Ok(None) => Ok(false),
                Err(_) => Err(()),
            };
            rel("model.loca-get_glyf", got == want, W, bytes, || format!("get_glyf({gid}) = {got:?}, model {want:?} (long={is_long})"));
            if let Ok(Some(g)) = r {
                let data = g.offset_data().as_bytes();
                o.note(data.len() as u64);
                if gid < 24 {
                    walk_glyph(data, o);
                }
            }
        }
        if entries <= 48 {
            // traversal impls (SomeTable / SomeArray / Debug)
            o.note_str(&format!("{loca:?}"));
            o.note_str(SomeTable::type_name(&loca));
            for i in [0usize, 1, usize::MAX] {
                rel("model.loca-fields", loca.get_field(i).is_some() == (i == 0), W, bytes, || format!("Loca::get_field({i})"));
            }
            use read_fonts::traversal::SomeArray;
            o.note(SomeArray::len(&loca) as u64);
            o.note_str(SomeArray::type_name(&loca));
            for i in edge_usize(&[len, entries]) {
                o.note(SomeArray::get(&loca, i).is_some() as u64);
                rel("model.loca-array", SomeArray::get(&loca, i).is_some() == (i < entries), W, bytes, || format!("SomeArray::get({i})"));
            }
        }
    }
}

// ------------------------------------------------------------------------------------------------
// generators

/// one point delta in an encoding of the generator's choice: returns (flag bits, coordinate bytes)
fn coord(rng: &mut Rng, short_bit: u8, same_bit: u8) -> (u8, Vec<u8>, i16) {
    match rng.below(6) {
        0 => (same_bit, vec![], 0),
        1 | 2 => {
            let v = *rng.pick(&[0u8, 1, 2, 100, 127, 128, 254, 255]);
            if rng.chance(1, 2) { (short_bit | same_bit, vec![v], v as i16) } else { (short_bit, vec![v], -(v as i16)) }
        }
        _ => {
            let v: i16 = match rng.below(5) {
                0 => i16::MAX,
                1 => i16::MIN,
                2 => rng.next() as i16,
                _ => rng.range(-600, 600) as i16,
            };
            (0, v.to_be_bytes().to_vec(), v)
        }
    }
}

/// a well formed simple glyph; returns the bytes (count / length fields registered) and its points
fn simple_glyph(rng: &mut Rng, n_points: usize, n_contours: usize, instr_len: usize) -> (B, Vec<(i16, i16, bool)>) {
    let mut b = B::new();
    b.f16(n_contours as u16);
    for _ in 0..4 {
        b.i16(rng.range(-2000, 2000) as i16);
    }
    // contour ends: ascending, last = n_points - 1
    let mut ends: Vec<u16> = vec![];
    if n_contours > 0 {
        let mut cuts: Vec<usize> = (0..n_contours - 1).map(|_| rng.below(n_points.max(1) as u64) as usize).collect();
        cuts.sort();
        for c in cuts {
            ends.push(c as u16);
        }
        ends.push(n_points.saturating_sub(1) as u16);
    }
    for e in &ends {
        b.f16(*e);
    }
    b.f16(instr_len as u16);
    b.bytes(&rng.bytes(instr_len));
    let n = if n_contours > 0 { n_points.max(1) } else { 0 };
    // flags + deltas
    let mut flags: Vec<u8> = vec![];
    let mut xs: Vec<Vec<u8>> = vec![];
    let mut ys: Vec<Vec<u8>> = vec![];
    let mut pts = vec![];
    let (mut x, mut y) = (0i16, 0i16);
    let mut i = 0;
    while i < n {
        let (fx, bx, dx) = coord(rng, 2, 0x10);
        let (fy, by, dy) = coord(rng, 4, 0x20);
        let mut f = fx | fy | (rng.below(2) as u8);
        if i == 0 && rng.chance(1, 3) {
            f |= 0x40;
        }
        if rng.chance(1, 8) {
            f |= 0x80;
        }
        // a run of identical points (same flag, same deltas)
        let run = if rng.chance(1, 3) { 1 + rng.below(((n - i).min(300)) as u64) as usize } else { 1 };
        for _ in 0..run {
            flags.push(f);
            xs.push(bx.clone());
            ys.push(by.clone());
            x = x.wrapping_add(dx);
            y = y.wrapping_add(dy);
            pts.push((x, y, f & 1 != 0));
        }
        i += run;
    }
    // flag bytes with repeat runs
    let mut k = 0;
    while k < flags.len() {
        let mut run = 1;
        while k + run < flags.len() && flags[k + run] == flags[k] && run < 256 {
            run += 1;
        }
        if run > 1 && rng.chance(3, 4) {
            let run = if rng.chance(1, 4) { 1 + rng.below(run as u64) as usize } else { run };
            if run > 1 {
                b.u8(flags[k] | 8).f8((run - 1) as u8);
            } else {
                b.u8(flags[k]);
            }
            k += run;
        } else {
            b.u8(flags[k]);
            k += 1;
        }
    }
    for v in &xs {
        b.bytes(v);
    }
    for v in &ys {
        b.bytes(v);
    }
    (b, pts)
}

/// one component record for the given structural flag bits (values random, boundary biased)
fn component_record(rng: &mut Rng, flags: u16) -> Vec<u8> {
    let mut v = vec![];
    v.extend_from_slice(&flags.to_be_bytes());
    v.extend_from_slice(&(*rng.pick(&[0u16, 1, 5, 0xFFFE, 0xFFFF])).to_be_bytes());
    if flags & 1 != 0 {
        for _ in 0..2 {
            v.extend_from_slice(&(*rng.pick(&[0u16, 1, 127, 128, 255, 256, 0x7FFF, 0x8000, 0xFF80, 0xFF7F, 0xFFFF])).to_be_bytes());
        }
    } else {
        for _ in 0..2 {
            v.push(*rng.pick(&[0u8, 1, 127, 128, 255]));
        }
    }
    let n = if flags & 0x08 != 0 {
        1
    } else if flags & 0x40 != 0 {
        2
    } else if flags & 0x80 != 0 {
        4
    } else {
        0
    };
    for _ in 0..n {
        v.extend_from_slice(&(*rng.pick(&[0x4000u16, 0, 0x2000, 0xC000, 0x7FFF, 0x8000])).to_be_bytes());
    }
    v
}

const STRUCT_BITS: [u16; 6] = [0x0001, 0x0002, 0x0008, 0x0040, 0x0080, 0x0100];

fn composite_glyph(rng: &mut Rng, comp_flags: &[u16], instr: Option<usize>, dangling_more: bool) -> B {
    let mut b = B::new();
    b.f16(0xFFFF);
    for _ in 0..4 {
        b.i16(rng.range(-2000, 2000) as i16);
    }
    let n = comp_flags.len();
    for (i, f) in comp_flags.iter().enumerate() {
        let last = i + 1 == n;
        let mut flags = *f & !0x0020;
        if !last || dangling_more {
            flags |= 0x0020;
        }
        if last && instr.is_some() {
            flags |= 0x0100;
        }
        let c = component_record(rng, flags);
        let at = b.len();
        b.bytes(&c);
        b.mark(at, 2);
    }
    if let Some(n) = instr {
        b.f16(n as u16);
        b.bytes(&rng.bytes(n));
    }
    b
}

fn random_comp_flags(rng: &mut Rng) -> u16 {
    let mut f = 0u16;
    for bit in STRUCT_BITS {
        if rng.chance(1, 3) {
            f |= bit;
        }
    }
    // non structural bits
    if rng.chance(1, 3) {
        f |= (rng.next() as u16) & 0xFE14;
    }
    f
}

/// loca + glyf container
fn loca_container(rng: &mut Rng, glyphs: &[Vec<u8>], long: bool, style: u64) -> B {
    let mut offs: Vec<u32> = vec![0];
    let mut glyf: Vec<u8> = vec![];
    for g in glyphs {
        glyf.extend_from_slice(g);
        if !long && glyf.len() % 2 == 1 {
            glyf.push(0);
        }
        offs.push(glyf.len() as u32);
    }
    match style {
        1 => offs.reverse(),                                  // descending
        2 => offs.push(glyf.len() as u32 + 2),                // last offset beyond glyf
        3 if offs.len() > 2 => offs.swap(1, 2),               // one inversion
        4 => offs.push(if long { u32::MAX } else { 0x1FFFE }), // maximum
        _ => {}
    }
    let mut loca = B::new();
    for o in &offs {
        if long {
            loca.f32(*o);
        } else {
            loca.f16((*o / 2) as u16);
        }
    }
    if style == 5 {
        loca.u8(rng.next() as u8); // odd length
    }
    let mut b = B::new();
    b.u8(long as u8).f16(loca.len() as u16);
    b.append(&loca);
    b.bytes(&glyf);
    b
}

// ------------------------------------------------------------------------------------------------
// point helper types

fn walk_point_helpers(bytes: &[u8], o: &mut Obs) {
    const W: &str = "glyf.pointflags";
    let Some(&bits) = bytes.first() else {
        return;
    };
    let f = PointFlags::from_bits(bits);
    o.note(f.to_bits() as u64);
    rel("model.pointflags", f.to_bits() == bits & 0x81, W, bytes, || "from_bits".into());
    rel(
        "model.pointflags",
        f.is_on_curve() == (bits & 1 != 0)
            && f.is_off_curve_quad() == (bits & 0x81 == 0)
            && f.is_off_curve_cubic() == (bits & 0x80 != 0)
            && f.is_off_curve() == (f.is_off_curve_quad() || f.is_off_curve_cubic())
            && f.without_markers() == f,
        W,
        bytes,
        || "curve predicates".into(),
    );
    rel(
        "model.pointflags",
        PointFlags::on_curve().to_bits() == 1 && PointFlags::off_curve_quad().to_bits() == 0 && PointFlags::off_curve_cubic().to_bits() == 0x80 && PointFlags::default().to_bits() == 0,
        W,
        bytes,
        || "constructors".into(),
    );
    let td = Transform::default();
    rel("model.transform-default", [td.xx.to_bits(), td.yx.to_bits(), td.xy.to_bits(), td.yy.to_bits()] == [0x4000, 0, 0, 0x4000] && td.compute_flags().bits() == 0, W, bytes, || "Transform::default".into());
    let markers = [
        (PointMarker::HAS_DELTA, 0x04u8),
        (PointMarker::TOUCHED_X, 0x10),
        (PointMarker::TOUCHED_Y, 0x20),
        (PointMarker::TOUCHED, 0x30),
        (PointMarker::WEAK_INTERPOLATION, 0x02),
        (PointMarker::NEAR, 0x08),
        (PointMarker::TOUCHED_X | PointMarker::NEAR, 0x18),
        (PointMarker::default(), 0),
    ];
    for (m, mb) in markers {
        let mut g = f;
        rel("model.pointflags", !g.has_marker(m), W, bytes, || "fresh flags carry a marker".into());
        g.set_marker(m);
        rel("model.pointflags", g.to_bits() == (bits & 0x81) | mb && g.has_marker(m) == (mb != 0) && g.without_markers() == f, W, bytes, || format!("set_marker {mb:#x}"));
        g.flip_on_curve();
        rel("model.pointflags", g.to_bits() == ((bits & 0x81) | mb) ^ 1, W, bytes, || "flip_on_curve".into());
        g.set_on_curve();
        rel("model.pointflags", g.is_on_curve(), W, bytes, || "set_on_curve".into());
        g.clear_on_curve();
        rel("model.pointflags", !g.is_on_curve(), W, bytes, || "clear_on_curve".into());
        g.clear_marker(m);
        rel("model.pointflags", g.to_bits() == bits & 0x80, W, bytes, || format!("clear_marker {mb:#x}"));
        o.note(g.to_bits() as u64);
    }
}

fn walk_point_coord(bytes: &[u8], o: &mut Obs) {
    const W: &str = "glyf.pointcoord";
    let (Some(a), Some(b)) = (be32(bytes, 0), be32(bytes, 4)) else {
        return;
    };
    let (a, b) = (a as i32, b as i32);
    let mid = a.wrapping_add(b) / 2;
    let m_i32 = <i32 as PointCoord>::midpoint(a, b);
    let m_fx = <Fixed as PointCoord>::midpoint(Fixed::from_bits(a), Fixed::from_bits(b));
    let m_f26 = <F26Dot6 as PointCoord>::midpoint(F26Dot6::from_bits(a), F26Dot6::from_bits(b));
    let m_f32 = <f32 as PointCoord>::midpoint(a as f32, b as f32);
    rel("model.midpoint", m_i32 == mid && m_fx.to_bits() == mid && m_f26.to_bits() == mid, W, bytes, || format!("midpoint({a}, {b})"));
    for v in [m_i32, m_fx.to_bits(), m_f26.to_bits()] {
        o.note(v as u32 as u64);
    }
    o.note(m_f32.to_bits() as u64);
    let fx = Fixed::from_bits(a);
    o.note(<i32 as PointCoord>::from_fixed(fx) as u32 as u64);
    o.note(<Fixed as PointCoord>::from_fixed(fx).to_bits() as u32 as u64);
    o.note(<F26Dot6 as PointCoord>::from_fixed(fx).to_bits() as u32 as u64);
    o.note(<f32 as PointCoord>::from_fixed(fx).to_bits() as u64);
    o.note(<i32 as PointCoord>::from_i32(a) as u32 as u64);
    o.note(<Fixed as PointCoord>::from_i32(a).to_bits() as u32 as u64);
    o.note(<F26Dot6 as PointCoord>::from_i32(a).to_bits() as u32 as u64);
    o.note(<f32 as PointCoord>::from_i32(a).to_bits() as u64);
    o.note(<i32 as PointCoord>::to_f32(a).to_bits() as u64);
    o.note(<Fixed as PointCoord>::to_f32(fx).to_bits() as u64);
    o.note(<F26Dot6 as PointCoord>::to_f32(F26Dot6::from_bits(a)).to_bits() as u64);
    o.note(<f32 as PointCoord>::to_f32(a as f32).to_bits() as u64);
    rel("model.from_i32", <Fixed as PointCoord>::from_i32(a).to_bits() == a << 16 && <F26Dot6 as PointCoord>::from_i32(a).to_bits() == a << 6 && <i32 as PointCoord>::from_i32(a) == a, W, bytes, || format!("from_i32({a})"));
}

// ------------------------------------------------------------------------------------------------

pub fn run(ctx: &mut Ctx) {
    let t = ctx.thorough;
    // --- simple glyphs
    let rounds = if t { 1200 } else { 200 };
    for round in 0..rounds {
        let n_points = match round % 10 {
            0 => 1,
            1 => 2,
            2 => 255 + ctx.rng.below(4) as usize,
            3 => 511 + ctx.rng.below(4) as usize,
            4 if round % 20 == 4 => 4000 + ctx.rng.below(200) as usize,
            _ => 1 + ctx.rng.below(24) as usize,
        };
        let n_contours = match round % 7 {
            0 => 0,
            1 => 1,
            _ => 1 + ctx.rng.below(4) as usize,
        };
        let instr_len = if round % 3 == 0 { ctx.rng.below(6) as usize } else { 0 };
        let (mut b, pts) = simple_glyph(&mut ctx.rng, n_points, n_contours, instr_len);
        if round % 4 == 1 {
            b.bytes(&rbytes(&mut ctx.rng, 5)); // padding after the coordinates
        }
        // ground truth on the unmodified glyph
        let got: Option<Vec<(i16, i16, bool)>> = catch(|| SimpleGlyph::read(FontData::new(&b.v)).ok().map(|g| g.points().take(70000).map(|p| (p.x, p.y, p.on_curve)).collect())).ok().flatten();
        let want = if n_contours == 0 { vec![] } else { pts.clone() };
        ctx.oracle("generator.points", got.as_ref() == Some(&want), || format!("glyf.simple {}", hex(&b.v)), || format!("points() of a generated glyph: {} items, expected {}", got.as_ref().map(|g| g.len()).unwrap_or(0), want.len()));
        ctx.drive("glyf.glyph", &b, &walk_glyph);
        flush_rel(ctx);
        ctx.count(if n_contours == 0 { "simple.empty" } else if pts.len() > 256 { "simple.large" } else { "simple.small" });
    }
    // hostile end point arrays / repeat runs in a few bytes
    {
        let mut specials: Vec<Vec<u8>> = vec![];
        for last in [0u16, 1, 254, 255, 256, 257, 511, 512, 0x7FFF, 0xFFFD, 0xFFFE, 0xFFFF] {
            for flag in [0x39u8, 0x38, 0x08, 0x3F, 0x0E, 0x1A, 0x2C] {
                for rep in [0u8, 1, 254, 255] {
                    // one contour ending at `last`, flag runs `[flag, rep]` repeated to cover it
                    let mut v = vec![0, 1, 0, 0, 0, 0, 0, 0, 0, 0];
                    v.extend_from_slice(&last.to_be_bytes());
                    v.extend_from_slice(&[0, 0]);
                    let runs = (last as usize + 1).div_ceil(rep as usize + 1);
                    for _ in 0..runs.min(300) {
                        v.push(flag);
                        v.push(rep);
                    }
                    // coordinates for short vectors: one byte each
                    if flag & 2 != 0 || flag & 4 != 0 {
                        let per = (flag & 2 != 0) as usize + (flag & 4 != 0) as usize;
                        v.resize(v.len() + per * (last as usize + 1).min(600), 1);
                    }
                    specials.push(v);
                }
            }
        }
        // non monotone and duplicated contour ends
        for ends in [[5u16, 2, 9], [9, 9, 9], [0xFFFF, 0, 3], [3, 0xFFFF, 0], [0, 0, 0]] {
            let mut v = vec![0, 3, 0, 0, 0, 0, 0, 0, 0, 0];
            for e in ends {
                v.extend_from_slice(&e.to_be_bytes());
            }
            v.extend_from_slice(&[0, 0]);
            v.extend_from_slice(&[0x37; 12]);
            specials.push(v);
        }
        for v in &specials {
            ctx.call("glyf.glyph", v, &walk_glyph);
            // and with the tail cut at a few places
            for cut in [v.len().saturating_sub(1), v.len().saturating_sub(2), 15, 14, 13] {
                if cut < v.len() {
                    ctx.call("glyf.glyph", &v[..cut], &walk_glyph);
                }
            }
        }
        ctx.count_n("simple.special", specials.len() as u64);
        flush_rel(ctx);
    }
    // every flag byte x every repeat byte on a 3 point glyph (exhaustive small sweep)
    for flag in 0..=255u8 {
        for rep in [0u8, 1, 2, 3, 255] {
            let mut v = vec![0, 1, 0, 0, 0, 0, 0, 0, 0, 0, 0, 2, 0, 0];
            v.push(flag);
            v.push(rep);
            v.extend_from_slice(&[0x31, 0x31, 1, 2, 3, 4, 5, 6, 7, 8, 9, 10, 11, 12]);
            ctx.call("glyf.glyph", &v, &walk_glyph);
            ctx.call("glyf.glyph", &v[..v.len() - 9], &walk_glyph);
        }
    }
    flush_rel(ctx);
    ctx.count("simple.flag-sweep");

    // --- composite glyphs
    // every structural flag combination, alone and followed by a second component
    for combo in 0..64u16 {
        let mut f = 0u16;
        for (i, bit) in STRUCT_BITS.iter().enumerate() {
            if combo & (1 << i) != 0 {
                f |= bit;
            }
        }
        for shape in 0..3 {
            let b = match shape {
                0 => composite_glyph(&mut ctx.rng, &[f], (f & 0x100 != 0).then_some(3), false),
                1 => composite_glyph(&mut ctx.rng, &[f, f ^ 0x3], (f & 0x100 != 0).then_some(0), false),
                _ => composite_glyph(&mut ctx.rng, &[f], None, true),
            };
            ctx.drive("glyf.glyph", &b, &walk_glyph);
            flush_rel(ctx);
        }
        ctx.count("composite.flag-combo");
    }
    let rounds = if t { 900 } else { 150 };
    for round in 0..rounds {
        let n = 1 + ctx.rng.below(if round % 6 == 0 { 40 } else { 5 }) as usize;
        let flags: Vec<u16> = (0..n).map(|_| random_comp_flags(&mut ctx.rng)).collect();
        let instr = match round % 4 {
            0 => Some(ctx.rng.below(8) as usize),
            1 => Some(0),
            _ => None,
        };
        let b = composite_glyph(&mut ctx.rng, &flags, instr, round % 5 == 4);
        ctx.drive("glyf.glyph", &b, &walk_glyph);
        flush_rel(ctx);
        ctx.count("composite.random");
    }
    // anchors: every byte pair value class, both interpretations, bytes and words
    for flags in [0x0000u16, 0x0002, 0x0001, 0x0003] {
        for a in 0..=255u8 {
            let mut v = vec![0xFF, 0xFF, 0, 0, 0, 0, 0, 0, 0, 0];
            v.extend_from_slice(&flags.to_be_bytes());
            v.extend_from_slice(&[0, 7]);
            if flags & 1 != 0 {
                v.extend_from_slice(&[a, 0x80, 0x7F ^ a, a]);
            } else {
                v.extend_from_slice(&[a, 255 - a]);
            }
            ctx.call("glyf.glyph", &v, &walk_glyph);
        }
    }
    flush_rel(ctx);
    ctx.count("composite.anchor-sweep");

    // --- loca + glyf
    let rounds = if t { 960 } else { 160 };
    for round in 0..rounds {
        let n = ctx.rng.below(7) as usize;
        let mut glyphs: Vec<Vec<u8>> = vec![];
        for _ in 0..n {
            let g = match ctx.rng.below(5) {
                0 => vec![],
                1 | 2 => {
                    let np = 1 + ctx.rng.below(6) as usize;
                    let nc = 1 + ctx.rng.below(2) as usize;
                    simple_glyph(&mut ctx.rng, np, nc, 0).0.v
                }
                3 => {
                    let f = random_comp_flags(&mut ctx.rng);
                    composite_glyph(&mut ctx.rng, &[f], None, false).v
                }
                _ => rbytes(&mut ctx.rng, 14),
            };
            glyphs.push(g);
        }
        let long = round % 2 == 0;
        let style = (round / 2) as u64 % 8;
        let b = loca_container(&mut ctx.rng, &glyphs, long, style);
        ctx.drive("glyf.loca", &b, &walk_loca);
        flush_rel(ctx);
        ctx.count(if long { "loca.long" } else { "loca.short" });
        ctx.count(&format!("loca.style{style}"));
    }
    // exhaustive tiny locas: 0..=4 entries, every entry from a small value set (in / at the end of /
    // beyond an 8 byte glyf), short and long, with and without a trailing odd byte
    for long in [false, true] {
        for n_entries in 0..=4usize {
            for pat in 0..4u32.pow(n_entries as u32) {
                for odd in [false, true] {
                    let mut loca = vec![];
                    for i in 0..n_entries {
                        let d = (pat >> (2 * i)) & 3;
                        if long {
                            loca.extend_from_slice(&[0u32, 2, 8, 9][d as usize].to_be_bytes());
                        } else {
                            loca.extend_from_slice(&[0u16, 1, 4, 5][d as usize].to_be_bytes());
                        }
                    }
                    if odd {
                        loca.push(1);
                    }
                    let mut v = vec![long as u8, 0, loca.len() as u8];
                    v.extend_from_slice(&loca);
                    v.extend_from_slice(&[0, 0, 0, 0, 0, 0, 0, 0]);
                    ctx.call("glyf.loca", &v, &walk_loca);
                }
            }
        }
    }
    flush_rel(ctx);
    ctx.count("loca.tiny-sweep");

    // --- helpers
    for b in 0..=255u8 {
        ctx.call("glyf.pointflags", &[b], &walk_point_helpers);
    }
    let edge = boundary_i32();
    let picks: Vec<i32> = edge.iter().copied().filter(|v| v.unsigned_abs() < 3 || v.unsigned_abs() > 0x3FFF_FFF0 || v.count_ones() == 1).collect();
    for a in &picks {
        for b in &picks {
            let mut v = a.to_be_bytes().to_vec();
            v.extend_from_slice(&b.to_be_bytes());
            ctx.call("glyf.pointcoord", &v, &walk_point_coord);
        }
    }
    ctx.drive_random("glyf.pointcoord", if t { 2000 } else { 300 }, 8, &walk_point_coord);
    flush_rel(ctx);
    ctx.count("helpers");

    // --- random bytes
    ctx.drive_random("glyf.glyph", if t { 24000 } else { 4000 }, 64, &walk_glyph);
    // random bytes behind a plausible header
    for _ in 0..(if t { 24000 } else { 4000 }) {
        let nc: i16 = *ctx.rng.pick(&[-1i16, 0, 1, 1, 2, 3]);
        let mut v = nc.to_be_bytes().to_vec();
        v.extend_from_slice(&[0; 8]);
        let n = ctx.rng.below(40) as usize;
        for _ in 0..n {
            let x = if ctx.rng.chance(2, 3) { ctx.rng.below(12) as u8 } else { ctx.rng.next() as u8 };
            v.push(x);
        }
        ctx.call("glyf.glyph", &v, &walk_glyph);
    }
    ctx.drive_random("glyf.loca", if t { 18000 } else { 3000 }, 48, &walk_loca);
    flush_rel(ctx);
}

// ================================================================================================
// bytecode

type MIns = (usize, u8, Vec<i32>);

/// model decoder: instructions from `pc` up to the end or the first truncated instruction
fn model_decode(bc: &[u8], mut pc: usize) -> (Vec<MIns>, bool) {
    let mut out = vec![];
    loop {
        let Some(&op) = bc.get(pc) else {
            return (out, false);
        };
        let (count_len, n_ops, words) = match op {
            0x40 | 0x41 => {
                let Some(&n) = bc.get(pc + 1) else {
                    return (out, true);
                };
                (1usize, n as usize, op == 0x41)
            }
            0xB0..=0xB7 => (0, (op - 0xB0) as usize + 1, false),
            0xB8..=0xBF => (0, (op - 0xB8) as usize + 1, true),
            _ => (0, 0, false),
        };
        let start = pc + 1 + count_len;
        let size = n_ops * if words { 2 } else { 1 };
        let Some(b) = bc.get(start..start + size) else {
            return (out, true);
        };
        let vals: Vec<i32> = if words { b.chunks(2).map(|c| i16::from_be_bytes([c[0], c[1]]) as i32).collect() } else { b.iter().map(|x| *x as i32).collect() };
        out.push((pc, op, vals));
        pc = start + size;
    }
}

fn walk_bytecode(bytes: &[u8], o: &mut Obs) {
    const W: &str = "bytecode";
    let len = bytes.len();
    let mut pcs = edge_usize(&[len]);
    pcs.extend(0..len.min(6));
    pcs.sort();
    pcs.dedup();
    for pc in pcs {
        let (model, model_err) = model_decode(bytes, pc);
        // decode_all up to (and including) the first error
        let mut it = decode_all(bytes, pc);
        let mut stopped = false;
        let mut got: Vec<MIns> = vec![];
        let mut got_err = false;
        let guarded = std::iter::from_fn(|| {
            if stopped {
                return None;
            }
            let x = it.next()?;
            stopped = x.is_err();
            Some(x)
        });
        o.drain("decode_all", len + 1, guarded, |o, r| match r {
            Ok(ins) => {
                let ops = ins.inline_operands;
                let n = ops.len();
                let mut vals: Vec<i32> = vec![];
                o.drain("values", len, ops.values(), |o, v| {
                    o.note(v as u32 as u64);
                    vals.push(v);
                });
                o.note(ins.pc as u64);
                o.note(ins.opcode as u8 as u64);
                o.note(ops.is_empty() as u64);
                rel("model.operands", n == vals.len() && ops.is_empty() == (n == 0) && ins.opcode.is_push() == is_push_model(ins.opcode as u8) && (n == 0 || ins.opcode.is_push()), W, bytes, || format!("pc {}: len() {n}, values() {} items", ins.pc, vals.len()));
                if got.len() < 8 {
                    o.note_str(&format!("{ins}"));
                    o.note_str(&format!("{ins:?}"));
                }
                got.push((ins.pc, ins.opcode as u8, vals));
            }
            Err(e) => {
                o.note_str(&format!("{e} {e:?}"));
                got_err = true;
            }
        });
        rel("model.decode_all", got == model && got_err == model_err, W, bytes, || format!("pc {pc}: decoded {} instructions err={got_err}, model {} err={model_err}", got.len(), model.len()));
        // the same through Decoder::decode; after an error the decoder must not have moved
        let mut d = Decoder::new(bytes, pc);
        let mut k = 0usize;
        let mut err_pc = None;
        while k <= len + 1 {
            let before = d.pc;
            match d.decode() {
                None => break,
                Some(Ok(ins)) => {
                    let ok = model.get(k).map(|m| m.0 == ins.pc && m.1 == ins.opcode as u8) == Some(true) && ins.pc == before && d.pc > before && d.bytecode.len() == len;
                    rel("model.decoder", ok, W, bytes, || format!("pc {pc}: instruction {k} at {} opcode {:#x}", ins.pc, ins.opcode as u8));
                    k += 1;
                }
                Some(Err(_)) => {
                    err_pc = Some(d.pc);
                    rel("model.decoder", d.pc == before, W, bytes, || format!("pc {pc}: decoder moved from {before} to {} on an error", d.pc));
                    break;
                }
            }
        }
        o.note(k as u64);
        rel("model.decoder", k == model.len() && err_pc.is_some() == model_err, W, bytes, || format!("pc {pc}: Decoder::decode gave {k} instructions err={}, model {} err={model_err}", err_pc.is_some(), model.len()));
    }
}

fn is_push_model(b: u8) -> bool {
    matches!(b, 0x40 | 0x41 | 0xB0..=0xBF)
}

fn walk_opcode(bytes: &[u8], o: &mut Obs) {
    let Some(&b) = bytes.first() else {
        return;
    };
    let op = Opcode::from_byte(b);
    o.note(op as u8 as u64);
    o.note_str(op.name());
    o.note(op.is_push() as u64);
    let shown = format!("{op}");
    rel("model.opcode", op as u8 == b && !op.name().is_empty() && shown == op.name() && op.is_push() == is_push_model(b), "opcode", bytes, || format!("from_byte({b:#x}) = {op:?}"));
}

/// the known shape of an unbounded iterator: `decode_all` drained WITHOUT stopping at the first
/// error (a truncated instruction is reported again and again because the decoder does not move)
fn walk_decode_all_raw(bytes: &[u8], o: &mut Obs) {
    o.drain("decode_all(raw)", bytes.len() + 1, decode_all(bytes, 0), |o, r| o.note(r.is_ok() as u64));
}

fn program(rng: &mut Rng, n: usize) -> B {
    let mut b = B::new();
    for _ in 0..n {
        match rng.below(8) {
            0 => {
                let k = rng.below(8) as u8;
                b.u8(0xB0 + k).bytes(&rng.bytes(k as usize + 1));
            }
            1 => {
                let k = rng.below(8) as u8;
                b.u8(0xB8 + k).bytes(&rng.bytes(2 * (k as usize + 1)));
            }
            2 => {
                let k = *rng.pick(&[0u8, 1, 2, 3, 7, 8, 9]);
                b.u8(0x40).f8(k).bytes(&rng.bytes(k as usize));
            }
            3 => {
                let k = *rng.pick(&[0u8, 1, 2, 3, 7, 8]);
                b.u8(0x41).f8(k).bytes(&rng.bytes(2 * k as usize));
            }
            _ => {
                let mut op = rng.next() as u8;
                while is_push_model(op) {
                    op = rng.next() as u8;
                }
                b.u8(op);
            }
        }
    }
    b
}

pub fn run_bytecode(ctx: &mut Ctx) {
    let t = ctx.thorough;
    for b in 0..=255u8 {
        ctx.call("opcode", &[b], &walk_opcode);
    }
    flush_rel(ctx);
    // every opcode byte followed by truncated / exact / overlong operand bytes
    for op in 0..=255u8 {
        let need: usize = match op {
            0x40 | 0x41 => 1,
            0xB0..=0xB7 => (op - 0xB0) as usize + 1,
            0xB8..=0xBF => 2 * ((op - 0xB8) as usize + 1),
            _ => 0,
        };
        if op == 0x40 || op == 0x41 {
            let w = if op == 0x41 { 2 } else { 1 };
            for count in [0u8, 1, 2, 3, 127, 128, 254, 255] {
                let full = count as usize * w;
                let mut lens = vec![0usize, 1, full.saturating_sub(2), full.saturating_sub(1), full, full + 1, full + 2];
                lens.sort();
                lens.dedup();
                for n in lens {
                    let mut v = vec![op, count];
                    v.extend((0..n).map(|i| (i as u8).wrapping_mul(37) ^ 0x80));
                    ctx.call("bytecode", &v, &walk_bytecode);
                    // followed by another (possibly truncated) push
                    v.push(0xB8);
                    ctx.call("bytecode", &v, &walk_bytecode);
                }
            }
            ctx.call("bytecode", &[op], &walk_bytecode);
        } else {
            for n in 0..=need + 2 {
                let mut v = vec![op];
                v.extend((0..n).map(|i| 0xF0 ^ (i as u8)));
                ctx.call("bytecode", &v, &walk_bytecode);
                // the same instruction after a one byte instruction (pc 1) and before a push
                let mut w = vec![0x01];
                w.extend_from_slice(&v);
                w.push(0x40);
                ctx.call("bytecode", &w, &walk_bytecode);
            }
        }
    }
    flush_rel(ctx);
    ctx.count("opcode-sweep");
    let rounds = if t { 1800 } else { 300 };
    for round in 0..rounds {
        let n = 1 + ctx.rng.below(if round % 5 == 0 { 60 } else { 8 }) as usize;
        let b = program(&mut ctx.rng, n);
        // ground truth: a generated program decodes completely, without error
        let (all_ok, count) = catch(|| (decode_all(&b.v, 0).take(b.v.len() + 2).all(|r| r.is_ok()), decode_all(&b.v, 0).take(b.v.len() + 2).count())).unwrap_or((false, usize::MAX));
        ctx.oracle("generator.program", all_ok && count == n, || format!("bytecode {}", hex(&b.v)), || format!("{count} instructions decoded, {n} generated, all ok: {all_ok}"));
        ctx.drive("bytecode", &b, &walk_bytecode);
        flush_rel(ctx);
        ctx.count("programs");
    }
    ctx.drive_random("bytecode", if t { 36000 } else { 6000 }, 40, &walk_bytecode);
    // push-heavy random bytes
    for _ in 0..(if t { 36000 } else { 6000 }) {
        let n = ctx.rng.below(24) as usize;
        let v: Vec<u8> = (0..n)
            .map(|_| match ctx.rng.below(6) {
                0 => 0x40,
                1 => 0x41,
                2 => 0xB0 + ctx.rng.below(16) as u8,
                3 => ctx.rng.below(4) as u8,
                _ => ctx.rng.next() as u8,
            })
            .collect();
        ctx.call("bytecode", &v, &walk_bytecode);
    }
    flush_rel(ctx);
    // `decode_all` as a plain iterator (not stopping at the first error)
    for v in [vec![0xB0u8], vec![0x01, 0xB8, 0x00], vec![0x40], vec![0x41, 0x01, 0x00]] {
        ctx.call("bytecode.decode_all-raw", &v, &walk_decode_all_raw);
    }
    // complete programs are fine
    for v in [vec![], vec![0x01u8], vec![0xB0, 0x05], vec![0x40, 0x00], vec![0x41, 0x01, 0x00, 0x07, 0x2F]] {
        ctx.call("bytecode.decode_all-raw", &v, &walk_decode_all_raw);
    }
}
