//! `FontData` / `Cursor` primitives (read-fonts/src/font_data.rs) on exhaustive small buffers,
//! compared with Model/HandRead.lean (`hd.cur`, `hd.fd.*`) and checked against the end-of-data
//! relations proved in Props/C01Hand.lean.
use super::*;
use font_types::{BigEndian, Uint24};
use read_fonts::font_data_verif_hooks::VerifCursor;
use read_fonts::{FontData, ReadError};

fn re(e: &ReadError) -> &'static str {
    match e {
        ReadError::OutOfBounds => "eO",
        ReadError::InvalidArrayLen => "eL",
        _ => "e?",
    }
}

#[derive(Clone, Copy, Debug)]
enum Op {
    Read(u8),
    Adv(u8),
    AdvBy(usize),
    Var,
    Arr(u8, usize),
}

impl Op {
    fn tok(&self) -> String {
        match self {
            Op::Read(w) => format!("r{w}"),
            Op::Adv(w) => format!("s{w}"),
            Op::AdvBy(n) => format!("a{n}"),
            Op::Var => "v".into(),
            Op::Arr(w, n) => format!("A{w}:{n}"),
        }
    }
}

/// run the ops on the real cursor; returns (per-op results, final observation) and evaluates the
/// end-of-data oracles after every op
fn run_ops(ctx: &mut Ctx, bytes: &[u8], ops: &[Op]) -> String {
    let len = bytes.len();
    let data = FontData::new(bytes);
    let mut c = VerifCursor::new(data);
    let mut out: Vec<String> = vec![];
    let input = |ops: &[Op]| format!("cursor {} {}", hex(bytes), ops.iter().map(|o| o.tok()).collect::<Vec<_>>().join(" "));
    for (i, op) in ops.iter().enumerate() {
        let before_empty = c.is_empty();
        let r = match op {
            Op::Read(w) => {
                let r: Result<u64, ReadError> = match w {
                    1 => c.read::<u8>().map(|v| v as u64),
                    2 => c.read::<u16>().map(|v| v as u64),
                    3 => c.read::<Uint24>().map(|v| v.to_u32() as u64),
                    _ => c.read::<u32>().map(|v| v as u64),
                };
                // a failed read leaves the cursor at / past the end; a one byte read succeeds
                // exactly when the cursor was not empty
                if r.is_err() {
                    ctx.oracle("end-predicate", c.is_empty(), || input(&ops[..=i]), || "read failed but is_empty() is false afterwards".into());
                }
                if *w == 1 {
                    ctx.oracle("end-predicate", r.is_ok() == !before_empty, || input(&ops[..=i]), || format!("read::<u8> ok={} but is_empty() before was {}", r.is_ok(), before_empty));
                }
                match r {
                    Ok(v) => v.to_string(),
                    Err(e) => re(&e).into(),
                }
            }
            Op::Adv(w) => {
                match w {
                    1 => c.advance::<u8>(),
                    2 => c.advance::<u16>(),
                    3 => c.advance::<Uint24>(),
                    _ => c.advance::<u32>(),
                }
                ".".into()
            }
            Op::AdvBy(n) => {
                c.advance_by(*n);
                ".".into()
            }
            Op::Var => {
                let r = c.read_u32_var();
                if r.is_err() {
                    ctx.oracle("end-predicate", c.is_empty(), || input(&ops[..=i]), || "read_u32_var failed but is_empty() is false afterwards".into());
                }
                match r {
                    Ok(v) => v.to_string(),
                    Err(e) => re(&e).into(),
                }
            }
            Op::Arr(w, n) => {
                let r = match w {
                    1 => c.read_array::<u8>(*n).map(|a| a.len()),
                    2 => c.read_array::<BigEndian<u16>>(*n).map(|a| a.len()),
                    3 => c.read_array::<BigEndian<Uint24>>(*n).map(|a| a.len()),
                    _ => c.read_array::<BigEndian<u32>>(*n).map(|a| a.len()),
                };
                match r {
                    Ok(v) => format!("ok{v}"),
                    Err(e) => re(&e).into(),
                }
            }
        };
        out.push(r);
        // relations between the observers, after every op
        let pos = c.raw_pos();
        let empty = c.is_empty();
        let rem = c.remaining_bytes();
        let position = c.position();
        let remaining = c.remaining().map(|d| d.len());
        let fin = c.finish();
        let ok = empty == (pos >= len)
            && empty == (rem == 0)
            && rem == len.saturating_sub(pos)
            && position.is_ok() == (pos <= len)
            && position.clone().ok().map(|p| p == pos).unwrap_or(true)
            && remaining.is_some() == (pos <= len)
            && remaining.map(|r| r == rem).unwrap_or(true)
            && fin.is_ok() == (pos <= len);
        ctx.oracle("end-predicate", ok, || input(&ops[..=i]), || format!("pos={pos} len={len} is_empty={empty} remaining_bytes={rem} position={position:?} remaining={remaining:?} finish={fin:?}"));
    }
    let fin = format!(
        "| {} {} {} {} {} {}",
        c.raw_pos(),
        c.position().map(|p| p.to_string()).unwrap_or_else(|e| re(&e).into()),
        c.remaining_bytes(),
        c.remaining().map(|d| d.len().to_string()).unwrap_or("none".into()),
        c.is_empty() as u8,
        c.finish().map(|_| "ok".to_string()).unwrap_or_else(|e| re(&e).into())
    );
    format!("{} {}", join(&out), fin)
}

pub fn run(ctx: &mut Ctx) {
    // buffers: every length 0..=7, three fillings (ascending, high bits, var-int leading bytes)
    let mut bufs: Vec<Vec<u8>> = vec![];
    for n in 0..=7usize {
        bufs.push((0..n).map(|i| (i as u8) + 1).collect());
        bufs.push((0..n).map(|i| 0xFF - i as u8).collect());
        for lead in [0x7Fu8, 0x80, 0xBF, 0xC0, 0xDF, 0xE0, 0xEF, 0xF0, 0xFF] {
            if n > 0 {
                let mut v: Vec<u8> = (0..n).map(|i| 0x10 + i as u8).collect();
                v[0] = lead;
                bufs.push(v);
            }
        }
    }
    for b in &bufs {
        let len = b.len();
        let mut ops: Vec<Op> = vec![Op::Read(1), Op::Read(2), Op::Read(3), Op::Read(4), Op::Adv(1), Op::Adv(2), Op::Adv(4), Op::Var];
        for n in [0usize, 1, 2, 3, len.wrapping_sub(1), len, len + 1, len + 2, usize::MAX / 2, usize::MAX / 2 + 1, usize::MAX - 1, usize::MAX] {
            ops.push(Op::AdvBy(n));
        }
        for w in [1u8, 2, 3, 4] {
            for n in [0usize, 1, 2, len / w as usize, len / w as usize + 1, usize::MAX / w as usize, (usize::MAX / w as usize).wrapping_add(1), usize::MAX] {
                ops.push(Op::Arr(w, n));
            }
        }
        ops.sort_by_key(|o| o.tok());
        ops.dedup_by_key(|o| o.tok());
        // all scripts of length 1 and 2, sampled scripts of length 3..5
        let mut scripts: Vec<Vec<Op>> = vec![vec![]];
        for a in &ops {
            scripts.push(vec![*a]);
            for c in &ops {
                scripts.push(vec![*a, *c]);
            }
        }
        let extra = if ctx.thorough { 1500 } else { 150 };
        for _ in 0..extra {
            let k = 3 + ctx.rng.below(3) as usize;
            scripts.push((0..k).map(|_| *ctx.rng.pick(&ops)).collect());
        }
        for sc in scripts {
            let what = format!("hd.cur {} {}", hex(b), if sc.is_empty() { "-".to_string() } else { sc.iter().map(|o| o.tok()).collect::<Vec<_>>().join(" ") });
            PROGRESS.fetch_add(1, Ordering::Relaxed);
            let b2 = b.clone();
            let r = catch(|| run_ops(ctx, &b2, &sc));
            match r {
                Ok(resp) => {
                    ctx.oracle("no-panic", true, String::new, String::new);
                    ctx.case(what, resp);
                }
                Err(msg) => ctx.oracle("no-panic", false, || what.clone(), || format!("panicked: {msg}")),
            }
            ctx.count("scripts");
        }
    }
    // a VARC-style consumer loop on the real cursor: `while !is_empty() { read … }` must stop within
    // len + 1 rounds whatever is read (this is the loop shape of VarcComponentIter, dict::tokens, …)
    for b in &bufs {
        for w in [1u8, 2, 3, 4, 0] {
            let mut c = VerifCursor::new(FontData::new(b));
            let mut rounds = 0usize;
            while !c.is_empty() && rounds <= b.len() + 2 {
                rounds += 1;
                match w {
                    1 => drop(c.read::<u8>()),
                    2 => drop(c.read::<u16>()),
                    3 => drop(c.read::<Uint24>()),
                    4 => drop(c.read::<u32>()),
                    _ => drop(c.read_u32_var()),
                }
            }
            ctx.oracle("iter-bounded", rounds <= b.len(), || format!("cursor-loop w={w} {}", hex(b)), || format!("`while !is_empty() {{ read }}` made {rounds} rounds on {} bytes", b.len()));
        }
    }
}

// ------------------------------------------------------------------------------------------------

fn opt_len(d: Option<FontData>) -> String {
    d.map(|d| d.len().to_string()).unwrap_or("none".into())
}

pub fn run_fontdata(ctx: &mut Ctx) {
    let mut bufs: Vec<Vec<u8>> = vec![];
    for n in 0..=9usize {
        bufs.push((0..n).map(|i| (i as u8).wrapping_mul(37).wrapping_add(0x81)).collect());
    }
    bufs.push((0..64u8).collect());
    for b in &bufs {
        let len = b.len();
        let offs = {
            let mut v = vec![0usize, 1, 2, 3, 4, 5, len.wrapping_sub(4), len.wrapping_sub(3), len.wrapping_sub(2), len.wrapping_sub(1), len, len + 1, usize::MAX / 2, usize::MAX - 4, usize::MAX - 3, usize::MAX - 2, usize::MAX - 1, usize::MAX];
            v.sort();
            v.dedup();
            v
        };
        let bb = b.clone();
        let offs2 = offs.clone();
        let r = catch(move || {
            let d = FontData::new(&bb);
            let mut out: Vec<(String, String)> = vec![];
            for &o in &offs2 {
                for w in [1u8, 2, 3, 4] {
                    let r: Result<u64, ReadError> = match w {
                        1 => d.read_at::<u8>(o).map(|v| v as u64),
                        2 => d.read_at::<u16>(o).map(|v| v as u64),
                        3 => d.read_at::<Uint24>(o).map(|v| v.to_u32() as u64),
                        _ => d.read_at::<u32>(o).map(|v| v as u64),
                    };
                    let rb: Result<u64, ReadError> = match w {
                        1 => d.read_be_at::<u8>(o).map(|v| v.get() as u64),
                        2 => d.read_be_at::<u16>(o).map(|v| v.get() as u64),
                        3 => d.read_be_at::<Uint24>(o).map(|v| v.get().to_u32() as u64),
                        _ => d.read_be_at::<u32>(o).map(|v| v.get() as u64),
                    };
                    let rr: Result<u64, ReadError> = match w {
                        1 => d.read_ref_at::<u8>(o).map(|v| *v as u64),
                        2 => d.read_ref_at::<BigEndian<u16>>(o).map(|v| v.get() as u64),
                        3 => d.read_ref_at::<BigEndian<Uint24>>(o).map(|v| v.get().to_u32() as u64),
                        _ => d.read_ref_at::<BigEndian<u32>>(o).map(|v| v.get() as u64),
                    };
                    let s = |r: &Result<u64, ReadError>| r.as_ref().map(|v| v.to_string()).unwrap_or_else(|e| re(e).into());
                    out.push((format!("hd.fd.read {} {o} {w}", hex(&bb)), format!("{} {} {}", s(&r), s(&rb), s(&rr))));
                }
                out.push((format!("hd.fd.split {} {o}", hex(&bb)), opt_len(d.split_off(o))));
                let mut d2 = d;
                let head = d2.take_up_to(o);
                out.push((format!("hd.fd.take {} {o}", hex(&bb)), format!("{} {}", opt_len(head), d2.len())));
                for &e in &offs2 {
                    out.push((
                        format!("hd.fd.slice {} {o} {e}", hex(&bb)),
                        format!("{} {} {} {}", opt_len(d.slice(o..e)), opt_len(d.slice(o..=e)), opt_len(d.slice(o..)), opt_len(d.slice(..e))),
                    ));
                    let arr = |w: u8| -> String {
                        let r = match w {
                            1 => d.read_array::<u8>(o..e).map(|a| a.len()),
                            2 => d.read_array::<BigEndian<u16>>(o..e).map(|a| a.len()),
                            3 => d.read_array::<BigEndian<Uint24>>(o..e).map(|a| a.len()),
                            _ => d.read_array::<BigEndian<u32>>(o..e).map(|a| a.len()),
                        };
                        r.map(|n| format!("ok{n}")).unwrap_or_else(|e| re(&e).into())
                    };
                    out.push((format!("hd.fd.array {} {o} {e}", hex(&bb)), format!("{} {} {} {}", arr(1), arr(2), arr(3), arr(4))));
                }
            }
            out
        });
        PROGRESS.fetch_add(1, Ordering::Relaxed);
        match r {
            Ok(out) => {
                ctx.oracle("no-panic", true, String::new, String::new);
                for (q, a) in out {
                    ctx.case(q, a);
                }
            }
            Err(msg) => ctx.oracle("no-panic", false, || format!("fontdata {}", hex(b)), || format!("panicked: {msg}")),
        }
    }
}
