//! AAT lookup formats 0/2/4/6/8/10 (`tables/aat.rs` `LookupN::value`) vs Model/HandIter.lean
//! (`hd.aat`): well-formed tables with strictly increasing keys, where the result of the binary
//! searches is determined.  The hostile shapes (unsorted keys, unit sizes that do not match, counts
//! beyond the data) are driven by the `aat.lookup` group for the no-panic oracle.
use super::*;
use read_fonts::tables::aat::Lookup;
use read_fonts::{FontData, FontRead};

fn vals<T: Copy + Into<u64>>(r: Vec<Result<T, read_fonts::ReadError>>) -> String {
    join(&r.into_iter().map(|x| x.map(|v| v.into().to_string()).unwrap_or("e".into())).collect::<Vec<_>>())
}

fn ask(ctx: &mut Ctx, what: String, bytes: &[u8], wide: bool, gids: &[u16]) {
    PROGRESS.fetch_add(1, Ordering::Relaxed);
    let r = catch(|| match Lookup::read(FontData::new(bytes)) {
        Err(_) => "err".to_string(),
        Ok(l) => {
            if wide {
                vals(gids.iter().map(|g| l.value::<u32>(*g)).collect())
            } else {
                vals(gids.iter().map(|g| l.value::<u16>(*g)).collect())
            }
        }
    });
    match r {
        Ok(s) => {
            ctx.oracle("no-panic", true, String::new, String::new);
            ctx.case(what, s)
        }
        Err(m) => ctx.oracle("no-panic", false, || format!("{what} {}", hex(bytes)), || m.clone()),
    }
}

pub fn run(ctx: &mut Ctx) {
    let rounds = if ctx.thorough { 12000 } else { 2400 };
    for round in 0..rounds {
        let wide = round % 2 == 1;
        let size: usize = if wide { 4 } else { 2 };
        let fmt = [0u16, 2, 4, 6, 8, 10][round / 2 % 6];
        let n = ctx.rng.below(6) as usize;
        let mut b = B::new();
        let mut interesting: Vec<u32> = vec![];
        let val = |rng: &mut Rng| -> u32 { if wide { rng.next() as u32 } else { rng.next() as u16 as u32 } };
        let push_val = |b: &mut B, v: u32| {
            if wide {
                b.u32(v);
            } else {
                b.u16(v as u16);
            }
        };
        let req: String;
        match fmt {
            0 => {
                b.u16(0);
                let count = ctx.rng.below(9) as usize;
                let start = b.len();
                for _ in 0..count {
                    let v = val(&mut ctx.rng);
                    push_val(&mut b, v);
                }
                // a trailing partial element
                b.bytes(&rbytes(&mut ctx.rng, size as u64));
                interesting.push(count as u32);
                req = format!("{}", hex(&b.v[start..]));
            }
            2 | 6 => {
                // strictly increasing keys
                let mut keys: Vec<u16> = (0..n).map(|_| ctx.rng.below(400) as u16 * 3).collect();
                keys.sort();
                keys.dedup();
                let unit = if fmt == 2 { 4 + size } else { 2 + size };
                b.u16(fmt).u16(unit as u16).u16(keys.len() as u16).u16(0).u16(0).u16(0);
                let mut parts: Vec<u32> = vec![];
                for (i, k) in keys.iter().enumerate() {
                    let v = val(&mut ctx.rng);
                    if fmt == 2 {
                        // segment [first, last], last below the next first (or not: overlapping is fine for the model)
                        let next = keys.get(i + 1).copied().unwrap_or(0xFFFF);
                        let last = match ctx.rng.below(4) {
                            0 => *k,
                            1 => next,
                            2 => k.wrapping_sub(1),
                            _ => k.saturating_add(ctx.rng.below(3) as u16),
                        };
                        b.u16(last).u16(*k);
                        push_val(&mut b, v);
                        parts.extend([last as u32, *k as u32, v]);
                        interesting.extend([*k as u32, last as u32]);
                    } else {
                        b.u16(*k);
                        push_val(&mut b, v);
                        parts.extend([*k as u32, v]);
                        interesting.push(*k as u32);
                    }
                }
                req = join(&parts);
            }
            4 => {
                let mut keys: Vec<u16> = (0..n).map(|_| ctx.rng.below(300) as u16 * 4).collect();
                keys.sort();
                keys.dedup();
                b.u16(4).u16(6).u16(keys.len() as u16).u16(0).u16(0).u16(0);
                let seg_at = b.len();
                let mut parts: Vec<u32> = vec![];
                let table_len_guess = seg_at + 6 * keys.len() + 24;
                for k in &keys {
                    let last = k + ctx.rng.below(4) as u16;
                    let off = match ctx.rng.below(5) {
                        0 => ctx.rng.below(table_len_guess as u64 + 4) as u16,
                        1 => 0xFFFF,
                        _ => (seg_at + 6 * keys.len() + ctx.rng.below(16) as usize) as u16,
                    };
                    b.u16(last).u16(*k).u16(off);
                    parts.extend([last as u32, *k as u32, off as u32]);
                    interesting.extend([*k as u32, last as u32]);
                }
                b.bytes(&ctx.rng.bytes(24));
                req = format!("{} {}", hex(&b.v), join(&parts));
            }
            8 => {
                let first = *ctx.rng.pick(&[0u16, 1, 100, 0xFFF0, 0xFFFF]);
                let count = ctx.rng.below(6) as usize;
                b.u16(8).u16(first).u16(count as u16);
                let mut parts = vec![first as u32];
                for _ in 0..count {
                    let v = ctx.rng.next() as u16;
                    b.u16(v);
                    parts.push(v as u32);
                }
                interesting.extend([first as u32, first as u32 + count as u32]);
                req = join(&parts);
            }
            _ => {
                let unit = *ctx.rng.pick(&[1u16, 2, 4, 4, 2, 0, 3, 8]);
                let first = *ctx.rng.pick(&[0u16, 1, 100, 0xFFF0, 0xFFFF]);
                let count = ctx.rng.below(6) as usize;
                b.u16(10).u16(unit).u16(first).u16(count as u16);
                let start = b.len();
                let extra = ctx.rng.below(3) as usize;
                b.bytes(&ctx.rng.bytes(count * unit as usize + extra));
                interesting.extend([first as u32, first as u32 + count as u32]);
                req = format!("{} {} {}", first, unit, hex(&b.v[start..]));
            }
        }
        let gids = edge16(&interesting);
        ask(ctx, format!("hd.aat {} {} {} | {}", fmt, size, join(&gids), req), &b.v, wide, &gids);
        ctx.count(&format!("format{fmt}"));
    }
}
