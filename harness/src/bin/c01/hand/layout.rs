//! (stub)
use super::*;
pub fn run(_ctx: &mut Ctx) {}
pub fn run_closure(_ctx: &mut Ctx) {}
pub fn run_colr(_ctx: &mut Ctx) {}
