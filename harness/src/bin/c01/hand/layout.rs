//! OpenType layout + COLR hand-written code:
//! `layout.rs` (Coverage / ClassDef / RangeRecord / Device / Subtables / FeatureParams),
//! `layout/{script,feature,lookup_flag,closure}.rs`, `gsub.rs`, `gsub/closure.rs`, `gpos.rs`,
//! `gpos/closure.rs`, `value_record.rs`, `colr.rs`, `colr/closure.rs`.
//! Groups: `layout` (fn run), `layout.closure` (fn run_closure), `colr` (fn run_colr).
use super::*;
use font_types::{GlyphId, GlyphId16, Tag};
use read_fonts::collections::IntSet;
use read_fonts::tables::colr::Colr;
use read_fonts::tables::gpos::{self, Gpos, PositionSubtables, ValueFormat, ValueRecord};
use read_fonts::tables::gsub::{self, Gsub, SubstitutionSubtables};
use read_fonts::tables::layout::{self as lay, ClassDef, CoverageTable, Device, DeviceOrVariationIndex, LookupFlag};
use read_fonts::tables::variations::DeltaSetIndex;
use read_fonts::traversal::{FieldType, SomeRecord, SomeTable};
use read_fonts::{FontData, FontRead, FontReadWithArgs};

// ------------------------------------------------------------------------------------------------
// byte-level builders

/// a table with child tables behind offsets; `flat` lays the children out behind the parent and
/// patches the offsets (which stay registered as fields)
#[derive(Clone, Default)]
pub struct T {
    pub b: B,
    kids: Vec<(usize, u8, T)>,
}

impl T {
    fn new() -> T {
        T::default()
    }
    fn of(b: B) -> T {
        T { b, kids: vec![] }
    }
    fn off(&mut self, w: u8, kid: T) -> &mut Self {
        let p = self.b.len();
        match w {
            2 => self.b.f16(0),
            3 => self.b.f24(0),
            _ => self.b.f32(0),
        };
        self.kids.push((p, w, kid));
        self
    }
    fn off16(&mut self, kid: T) -> &mut Self {
        self.off(2, kid)
    }
    fn off24(&mut self, kid: T) -> &mut Self {
        self.off(3, kid)
    }
    fn off32(&mut self, kid: T) -> &mut Self {
        self.off(4, kid)
    }
    /// nullable offset: the child or a (registered) null
    fn opt16(&mut self, kid: Option<T>) -> &mut Self {
        match kid {
            Some(k) => self.off16(k),
            None => {
                self.b.f16(0);
                self
            }
        }
    }
    fn flat(&self) -> B {
        let mut out = self.b.clone();
        for (pos, w, kid) in &self.kids {
            let kb = kid.flat();
            let at = out.append(&kb);
            put_be(&mut out.v, *pos, *w, at as u64);
        }
        out
    }
}

fn r16(b: &[u8], at: usize) -> Option<u16> {
    b.get(at..at + 2).map(|s| u16::from_be_bytes([s[0], s[1]]))
}

fn cov1(gl: &[u16], reg: bool) -> B {
    let mut b = B::new();
    b.u16(1).f16(gl.len() as u16);
    for g in gl {
        if reg {
            b.f16(*g);
        } else {
            b.u16(*g);
        }
    }
    b
}

fn cov2(r: &[(u16, u16, u16)], reg: bool) -> B {
    let mut b = B::new();
    b.u16(2).f16(r.len() as u16);
    for (s, e, i) in r {
        if reg {
            b.f16(*s).f16(*e).f16(*i);
        } else {
            b.u16(*s).u16(*e).u16(*i);
        }
    }
    b
}

/// sorted distinct glyphs below `uni`
fn sorted_glyphs(rng: &mut Rng, uni: u32, n: usize) -> Vec<u16> {
    let mut v: Vec<u16> = (0..n).map(|_| rng.below(uni as u64) as u16).collect();
    v.sort();
    v.dedup();
    v
}

/// sorted, non overlapping ranges below `uni` (mostly short)
fn sorted_ranges(rng: &mut Rng, uni: u32, n: usize) -> Vec<(u16, u16)> {
    let mut out = vec![];
    let mut at = rng.below(4) as u32;
    for _ in 0..n {
        let len = if rng.chance(1, 12) { rng.below(300) as u32 } else { rng.below(5) as u32 };
        let end = at + len;
        if end >= uni {
            break;
        }
        out.push((at as u16, end as u16));
        at = end + 1 + rng.below(4) as u32;
    }
    out
}

/// well formed coverage over a small universe (both formats)
fn cov_good(rng: &mut Rng, uni: u32, reg: bool) -> (B, Vec<u16>) {
    if rng.chance(1, 2) {
        let n = rng.below(9) as usize;
        let g = sorted_glyphs(rng, uni, n);
        (cov1(&g, reg), g)
    } else {
        let n = rng.below(6) as usize;
        let r = sorted_ranges(rng, uni, n);
        let mut recs = vec![];
        let mut all = vec![];
        let mut ix = 0u32;
        for (s, e) in &r {
            recs.push((*s, *e, ix as u16));
            ix += (*e - *s) as u32 + 1;
            all.extend(*s..=*e);
        }
        (cov2(&recs, reg), all)
    }
}

/// coverage in every hostile-but-parsable shape
fn cov_any(rng: &mut Rng, uni: u32, reg: bool) -> B {
    match rng.below(12) {
        0 | 1 | 2 => cov_good(rng, uni, reg).0,
        3 => {
            // unsorted / duplicated glyph array
            let n = 1 + rng.below(8) as usize;
            let g: Vec<u16> = (0..n).map(|_| rng.below(uni as u64) as u16).collect();
            cov1(&g, reg)
        }
        4 => {
            // overlapping, unsorted ranges
            let n = 1 + rng.below(5) as usize;
            let r: Vec<(u16, u16, u16)> = (0..n)
                .map(|_| {
                    let s = rng.below(uni as u64) as u16;
                    (s, s.saturating_add(rng.below(6) as u16), rng.below(20) as u16)
                })
                .collect();
            cov2(&r, reg)
        }
        5 => {
            // reversed ranges (start > end)
            let n = 1 + rng.below(4) as usize;
            let r: Vec<(u16, u16, u16)> = (0..n)
                .map(|k| {
                    let s = rng.below(uni as u64) as u16;
                    if k % 2 == 0 {
                        (s.saturating_add(1 + rng.below(5) as u16), s, k as u16)
                    } else {
                        (s, s.saturating_add(2), k as u16)
                    }
                })
                .collect();
            cov2(&r, reg)
        }
        6 => {
            // start_coverage_index + (gid - start) around 0xFFFF
            let s = rng.below(uni as u64) as u16;
            let len = 1 + rng.below(6) as u16;
            let ix = 0xFFFFu16 - rng.below(len as u64 + 2) as u16;
            cov2(&[(s, s.saturating_add(len), ix)], reg)
        }
        7 => {
            // ranges / glyphs at the top of the glyph space
            if rng.chance(1, 2) {
                let s = 0xFFFF - rng.below(6) as u16;
                cov2(&[(0, 2, 0), (s, 0xFFFF, 3)], reg)
            } else {
                cov1(&[0, 1, 0xFFFE, 0xFFFF], reg)
            }
        }
        8 => {
            if rng.chance(1, 2) {
                cov1(&[], reg)
            } else {
                cov2(&[], reg)
            }
        }
        9 => {
            // one large range
            let e = if rng.chance(1, 4) { 0xFFFF } else { 200 + rng.below(3000) as u16 };
            cov2(&[(rng.below(3) as u16, e, rng.below(3) as u16)], reg)
        }
        10 => {
            // adjacent / touching ranges with equal bounds
            let s = rng.below(uni as u64) as u16;
            cov2(&[(s, s, 0), (s, s, 1), (s.saturating_add(1), s.saturating_add(1), 2)], reg)
        }
        _ => {
            // invalid format
            let mut b = B::new();
            b.u16(*rng.pick(&[0u16, 3, 0x100, 0xFFFF])).f16(1).u16(5).u16(6).u16(7);
            b
        }
    }
}

fn class1(start: u16, vals: &[u16], reg: bool) -> B {
    let mut b = B::new();
    b.u16(1);
    if reg {
        b.f16(start);
    } else {
        b.u16(start);
    }
    b.f16(vals.len() as u16);
    for v in vals {
        b.u16(*v);
    }
    b
}

fn class2(r: &[(u16, u16, u16)], reg: bool) -> B {
    let mut b = B::new();
    b.u16(2).f16(r.len() as u16);
    for (s, e, c) in r {
        if reg {
            b.f16(*s).f16(*e).u16(*c);
        } else {
            b.u16(*s).u16(*e).u16(*c);
        }
    }
    b
}

/// well formed class def + its model (glyph, class) list
fn class_good(rng: &mut Rng, uni: u32, n_classes: u16, reg: bool) -> (B, Vec<(u16, u16)>) {
    if rng.chance(1, 2) {
        let start = rng.below(uni as u64 / 2 + 1) as u16;
        let n = rng.below(10) as usize;
        let vals: Vec<u16> = (0..n).map(|_| rng.below(n_classes as u64 + 1) as u16).collect();
        let model = vals.iter().enumerate().map(|(i, c)| (start + i as u16, *c)).collect();
        (class1(start, &vals, reg), model)
    } else {
        let n = rng.below(6) as usize;
        let r = sorted_ranges(rng, uni, n);
        let mut recs = vec![];
        let mut model = vec![];
        for (s, e) in r {
            let c = rng.below(n_classes as u64 + 1) as u16;
            recs.push((s, e, c));
            for g in s..=e {
                model.push((g, c));
            }
        }
        (class2(&recs, reg), model)
    }
}

fn class_any(rng: &mut Rng, uni: u32, n_classes: u16, reg: bool) -> B {
    match rng.below(9) {
        0 | 1 | 2 => class_good(rng, uni, n_classes, reg).0,
        3 => {
            // start_glyph_id + glyph_count beyond 0xFFFF
            let n = 1 + rng.below(8) as u16;
            let start = 0xFFFFu16 - rng.below(n as u64 + 1) as u16;
            let vals: Vec<u16> = (0..n).map(|k| k % (n_classes + 1)).collect();
            class1(start, &vals, reg)
        }
        4 => {
            // reversed + overlapping + unsorted ranges
            let n = 1 + rng.below(5) as usize;
            let r: Vec<(u16, u16, u16)> = (0..n)
                .map(|k| {
                    let s = rng.below(uni as u64) as u16;
                    let e = if k % 2 == 0 { s.saturating_sub(rng.below(4) as u16) } else { s.saturating_add(rng.below(6) as u16) };
                    (s, e, rng.below(n_classes as u64 + 2) as u16)
                })
                .collect();
            class2(&r, reg)
        }
        5 => class2(&[(0, 1, 1), (0xFFFF - rng.below(4) as u16, 0xFFFF, 2)], reg),
        6 => {
            if rng.chance(1, 2) {
                class1(rng.below(uni as u64) as u16, &[], reg)
            } else {
                class2(&[], reg)
            }
        }
        7 => class2(&[(rng.below(3) as u16, if rng.chance(1, 4) { 0xFFFF } else { 500 + rng.below(2000) as u16 }, 1)], reg),
        _ => {
            let mut b = B::new();
            b.u16(*rng.pick(&[0u16, 3, 0x200, 0xFFFF])).f16(1).f16(1).u16(1).u16(2);
            b
        }
    }
}

/// pack deltas MSB first, `bits` per value
fn pack_deltas(vals: &[i8], bits: u32) -> Vec<u16> {
    let per = (16 / bits) as usize;
    let mask = (1u32 << bits) - 1;
    vals.chunks(per)
        .map(|c| {
            let mut w = 0u32;
            for (i, v) in c.iter().enumerate() {
                w |= ((*v as i32 as u32) & mask) << (16 - bits * (i as u32 + 1));
            }
            w as u16
        })
        .collect()
}

fn device(start: u16, end: u16, fmt: u16, words: &[u16]) -> B {
    let mut b = B::new();
    b.f16(start).f16(end).f16(fmt);
    for w in words {
        b.u16(*w);
    }
    b
}

fn variation_index(rng: &mut Rng) -> B {
    let mut b = B::new();
    b.u16(rng.next() as u16).u16(rng.next() as u16).f16(0x8000);
    b
}

/// Device (formats 1..3, possibly hostile) or VariationIndex
fn device_any(rng: &mut Rng) -> B {
    let fmt = *rng.pick(&[1u16, 1, 2, 2, 3, 3, 0x8000, 0, 4, 0x7FFF, 0xFFFF]);
    if fmt == 0x8000 && rng.chance(2, 3) {
        return variation_index(rng);
    }
    let (start, end) = match rng.below(8) {
        0 => {
            // start_size > end_size
            let e = rng.below(40) as u16;
            (e + 1 + rng.below(5) as u16, e)
        }
        1 => (0, 0xFFFF),
        2 => (0xFFFF, 0xFFFF),
        3 => {
            let s = 0xFFFF - rng.below(20) as u16;
            (s, 0xFFFF)
        }
        _ => {
            let s = rng.below(30) as u16;
            (s, s + rng.below(20) as u16)
        }
    };
    let n = (end as usize + 1).saturating_sub(start as usize);
    let bits = match fmt {
        1 => 2,
        2 => 4,
        3 => 8,
        _ => 0,
    };
    let words: Vec<u16> = if bits == 0 || n > 200 {
        (0..rng.below(5)).map(|_| rng.next() as u16).collect()
    } else {
        let vals: Vec<i8> = (0..n).map(|_| rng.next() as i8 >> (8 - bits)).collect();
        let mut w = pack_deltas(&vals, bits);
        if rng.chance(1, 6) {
            w.pop(); // delta_value array one word short
        }
        w
    };
    device(start, end, fmt, &words)
}

// ------------------------------------------------------------------------------------------------
// walks: Coverage / ClassDef / Device

const ITER_BUDGET: usize = 300_000;

fn gset(gids: &[u32]) -> IntSet<GlyphId> {
    gids.iter().map(|g| GlyphId::new(*g)).collect()
}

/// glyph sets around the values a table mentions
fn glyph_sets(vals: &[u32]) -> Vec<IntSet<GlyphId>> {
    let mut sets = vec![IntSet::empty()];
    sets.push(gset(&vals.iter().take(3).copied().collect::<Vec<_>>()));
    if let Some(v) = vals.first() {
        sets.push(gset(&[v.wrapping_add(1)]));
        sets.push(gset(&[v.wrapping_sub(1), 0x1_0000, u32::MAX]));
    }
    if let Some(v) = vals.last() {
        sets.push(gset(&[*v]));
    }
    let mut full = IntSet::empty();
    full.insert_range(GlyphId::new(0)..=GlyphId::new(0xFFFF));
    sets.push(full);
    // many glyphs, none of them in the table (the `glyphs.len() * num_bits` branch choice)
    let mut many = IntSet::empty();
    many.insert_range(GlyphId::new(0x1_0000)..=GlyphId::new(0x1_0400));
    sets.push(many);
    sets
}

/// (format, record values, independently computed population)
fn cov_raw(bytes: &[u8]) -> (u16, Vec<u32>, usize) {
    let fmt = r16(bytes, 0).unwrap_or(0);
    let n = r16(bytes, 2).unwrap_or(0) as usize;
    let mut vals = vec![];
    let mut pop = 0usize;
    match fmt {
        1 => {
            pop = n;
            for k in 0..n.min(10) {
                if let Some(g) = r16(bytes, 4 + 2 * k) {
                    vals.push(g as u32);
                }
            }
        }
        2 => {
            for k in 0..n {
                let (Some(s), Some(e)) = (r16(bytes, 4 + 6 * k), r16(bytes, 6 + 6 * k)) else { break };
                if e >= s {
                    pop += (e - s) as usize + 1;
                }
                if k < 6 {
                    vals.push(s as u32);
                    vals.push(e as u32);
                }
            }
        }
        _ => {}
    }
    (fmt, vals, pop)
}

fn note_opt16(o: &mut Obs, v: Option<u16>) {
    o.note(v.map(|x| x as u64 + 1).unwrap_or(0));
}

fn walk_cov_table(cov: &CoverageTable, bytes: &[u8], o: &mut Obs) {
    let (_, vals, pop) = cov_raw(bytes);
    let mut gids: Vec<u32> = edge16(&vals).into_iter().map(|g| g as u32).collect();
    gids.extend([0x1_0000, 0x1_0001, 0x7FFF_FFFF, u32::MAX]);
    for g in &gids {
        note_opt16(o, cov.get(GlyphId::new(*g)));
    }
    for g in gids.iter().take(8) {
        note_opt16(o, cov.get(GlyphId16::new(*g as u16)));
    }
    let cap = pop.min(ITER_BUDGET);
    o.drain("coverage.iter", cap + 1, cov.iter().take(ITER_BUDGET), |o, g| o.note(g.to_u16() as u64));
    let sets = glyph_sets(&vals);
    for s in &sets {
        o.note(cov.intersects(s) as u64);
    }
    match cov {
        CoverageTable::Format1(t) => {
            o.note(t.population() as u64);
            for g in gids.iter().take(24) {
                note_opt16(o, t.get(GlyphId::new(*g)));
            }
            for s in &sets {
                o.note(t.intersects(s) as u64);
            }
        }
        CoverageTable::Format2(t) => {
            o.note(t.population() as u64);
            for g in gids.iter().take(24) {
                note_opt16(o, t.get(GlyphId::new(*g)));
            }
            for s in &sets {
                o.note(t.intersects(s) as u64);
            }
            for rec in t.range_records().iter().take(6) {
                let (s, e) = (rec.start_glyph_id().to_u16() as usize, rec.end_glyph_id().to_u16() as usize);
                let p = if e >= s { e - s + 1 } else { 0 };
                o.note(rec.population() as u64);
                o.drain("range_record.iter", p.min(ITER_BUDGET) + 1, rec.iter().take(ITER_BUDGET), |o, g| o.note(g.to_u16() as u64));
                for s in sets.iter().take(5) {
                    o.note(rec.intersects(s) as u64);
                }
            }
        }
    }
}

fn walk_coverage(bytes: &[u8], o: &mut Obs) {
    let r = CoverageTable::read(FontData::new(bytes));
    if o.res(&r) {
        walk_cov_table(&r.unwrap(), bytes, o);
    }
    // the concrete formats directly (no format check in front of the hand-written methods)
    if let Ok(t) = lay::CoverageFormat1::read(FontData::new(bytes)) {
        o.note(t.population() as u64);
        note_opt16(o, t.get(GlyphId::new(r16(bytes, 4).unwrap_or(0) as u32)));
    }
    if let Ok(t) = lay::CoverageFormat2::read(FontData::new(bytes)) {
        o.note(t.population() as u64);
        note_opt16(o, t.get(GlyphId::new(r16(bytes, 4).unwrap_or(0) as u32)));
    }
}

/// `intersects` with inverted (almost full) glyph sets: `glyphs.len() as u32 * num_bits`
fn walk_coverage_inverted(bytes: &[u8], o: &mut Obs) {
    let Ok(cov) = CoverageTable::read(FontData::new(bytes)) else { return };
    let mut s: IntSet<GlyphId> = IntSet::all();
    s.remove(GlyphId::new(0x2_0000));
    o.note(cov.intersects(&s) as u64);
}

fn class_raw(bytes: &[u8]) -> (Vec<u32>, usize) {
    let fmt = r16(bytes, 0).unwrap_or(0);
    let mut vals = vec![];
    let mut pop = 0usize;
    match fmt {
        1 => {
            let s = r16(bytes, 2).unwrap_or(0) as u32;
            let n = r16(bytes, 4).unwrap_or(0) as u32;
            pop = n as usize;
            vals.extend([s, s + n]);
        }
        2 => {
            let n = r16(bytes, 2).unwrap_or(0) as usize;
            for k in 0..n {
                let (Some(s), Some(e)) = (r16(bytes, 4 + 6 * k), r16(bytes, 6 + 6 * k)) else { break };
                if e >= s {
                    pop += (e - s) as usize + 1;
                }
                if k < 6 {
                    vals.push(s as u32);
                    vals.push(e as u32);
                }
            }
        }
        _ => {}
    }
    (vals, pop)
}

fn walk_class_table(cd: &ClassDef, bytes: &[u8], o: &mut Obs) {
    let (vals, pop) = class_raw(bytes);
    let gids = edge16(&vals);
    for g in &gids {
        o.note(cd.get(GlyphId16::new(*g)) as u64);
    }
    o.note(cd.population() as u64);
    let cap = pop.min(ITER_BUDGET);
    o.drain("classdef.iter", cap + 1, cd.iter().take(ITER_BUDGET), |o, (g, c)| {
        o.note(g.to_u16() as u64);
        o.note(c as u64);
    });
    match cd {
        ClassDef::Format1(t) => {
            o.note(t.population() as u64);
            for g in &gids {
                o.note(t.get(GlyphId16::new(*g)) as u64);
            }
            o.drain("classdef1.iter", cap + 1, t.iter().take(ITER_BUDGET), |o, (g, c)| o.note(((g.to_u16() as u64) << 16) | c as u64));
        }
        ClassDef::Format2(t) => {
            o.note(t.population() as u64);
            for g in &gids {
                o.note(t.get(GlyphId16::new(*g)) as u64);
            }
            o.drain("classdef2.iter", cap + 1, t.iter().take(ITER_BUDGET), |o, (g, c)| o.note(((g.to_u16() as u64) << 16) | c as u64));
            for rec in t.class_range_records().iter().take(8) {
                o.note(rec.population() as u64);
            }
        }
    }
}

fn walk_classdef(bytes: &[u8], o: &mut Obs) {
    let r = ClassDef::read(FontData::new(bytes));
    if o.res(&r) {
        walk_class_table(&r.unwrap(), bytes, o);
    }
}

fn walk_device_table(d: &Device, len: usize, o: &mut Obs) {
    o.note(d.start_size() as u64);
    o.note(d.end_size() as u64);
    o.note(i64::from(d.delta_format()) as u64);
    o.drain("device.iter", (len / 2) * 8 + 1, d.iter(), |o, v| o.note(v as u8 as u64));
}

fn walk_dev_or_var(r: &DeviceOrVariationIndex, len: usize, o: &mut Obs) {
    match r {
        DeviceOrVariationIndex::Device(d) => walk_device_table(d, len, o),
        DeviceOrVariationIndex::VariationIndex(v) => {
            let ix: DeltaSetIndex = v.clone().into();
            o.note(ix.outer as u64);
            o.note(ix.inner as u64);
        }
    }
}

fn walk_device(bytes: &[u8], o: &mut Obs) {
    let fd = FontData::new(bytes);
    let r = Device::read(fd);
    if o.res(&r) {
        walk_device_table(&r.unwrap(), bytes.len(), o);
    }
    let r = DeviceOrVariationIndex::read(fd);
    if o.res(&r) {
        walk_dev_or_var(&r.unwrap(), bytes.len(), o);
    }
    let r = lay::VariationIndex::read(fd);
    if o.res(&r) {
        let ix: DeltaSetIndex = r.unwrap().into();
        o.note(ix.outer as u64);
        o.note(ix.inner as u64);
    }
}

// ------------------------------------------------------------------------------------------------
// model oracles (well formed inputs; the expected value comes from the generator)

fn model(ctx: &mut Ctx, name: &str, input: String, f: impl FnOnce() -> Result<(), String>) {
    PROGRESS.fetch_add(1, Ordering::Relaxed);
    match catch(f) {
        Ok(Ok(())) => ctx.oracle(name, true, String::new, String::new),
        Ok(Err(e)) => ctx.oracle(name, false, || input.clone(), || e.clone()),
        Err(m) => ctx.oracle("no-panic", false, || input.clone(), || format!("panicked: {m}")),
    }
}

/// one call under its own oracle name `no-panic.<name>` (minimal reproducers of known sites, so that
/// each site stays visible next to the mass of mutated inputs)
fn probe(ctx: &mut Ctx, name: &str, bytes: &[u8], f: &dyn Fn(&[u8], &mut Obs)) {
    PROGRESS.fetch_add(1, Ordering::Relaxed);
    if std::env::var_os("C01_PROBE_DUMP").is_some() {
        eprintln!("PROBE {name} {}", hex(bytes));
    }
    let mut o = Obs::new();
    let msg = catch(|| f(bytes, &mut o)).err();
    ctx.oracle(&format!("no-panic.{name}"), msg.is_none(), || format!("{name} {}", hex(bytes)), || format!("panicked: {}", msg.clone().unwrap_or_default()));
}

fn coverage_model(ctx: &mut Ctx) {
    let uni = *ctx.rng.pick(&[12u32, 40, 400, 0x1_0000]);
    let (b, glyphs) = cov_good(&mut ctx.rng, uni, false);
    let mut probe_sets: Vec<Vec<u32>> = vec![vec![], vec![0x1_0000]];
    for _ in 0..4 {
        let n = 1 + ctx.rng.below(4);
        probe_sets.push((0..n).map(|_| ctx.rng.below(uni as u64 + 3) as u32).collect());
    }
    if let Some(g) = glyphs.last() {
        probe_sets.push(vec![*g as u32]);
        probe_sets.push(vec![*g as u32 + 1]);
    }
    let input = format!("coverage-model {}", hex(&b.v));
    model(ctx, "coverage-model", input, || {
        let cov = CoverageTable::read(FontData::new(&b.v)).map_err(|e| format!("read {e:?}"))?;
        let vals: Vec<u32> = glyphs.iter().map(|g| *g as u32).collect();
        for g in edge16(&vals) {
            let want = glyphs.iter().position(|x| *x == g).map(|i| i as u16);
            let got = cov.get(GlyphId16::new(g));
            if got != want {
                return Err(format!("get({g}) = {got:?}, expected {want:?}"));
            }
        }
        if cov.get(GlyphId::new(0x1_0000 + glyphs.first().copied().unwrap_or(0) as u32)).is_some() {
            return Err("get(gid > 0xFFFF) is Some".into());
        }
        let it: Vec<u16> = cov.iter().take(glyphs.len() + 2).map(|g| g.to_u16()).collect();
        if it != glyphs {
            return Err(format!("iter {it:?} expected {glyphs:?}"));
        }
        let pop = match &cov {
            CoverageTable::Format1(t) => t.population(),
            CoverageTable::Format2(t) => t.population(),
        };
        if pop != glyphs.len() {
            return Err(format!("population {pop} expected {}", glyphs.len()));
        }
        for ps in &probe_sets {
            let want = ps.iter().any(|g| *g <= 0xFFFF && glyphs.contains(&(*g as u16)));
            let got = cov.intersects(&gset(ps));
            if got != want {
                return Err(format!("intersects({ps:?}) = {got}, expected {want}"));
            }
        }
        Ok(())
    });
}

fn classdef_model(ctx: &mut Ctx) {
    let uni = *ctx.rng.pick(&[12u32, 40, 400, 0xFFF0]);
    let (b, m) = class_good(&mut ctx.rng, uni, 4, false);
    let input = format!("classdef-model {}", hex(&b.v));
    model(ctx, "classdef-model", input, || {
        let cd = ClassDef::read(FontData::new(&b.v)).map_err(|e| format!("read {e:?}"))?;
        let vals: Vec<u32> = m.iter().map(|g| g.0 as u32).collect();
        for g in edge16(&vals) {
            let want = m.iter().find(|x| x.0 == g).map(|x| x.1).unwrap_or(0);
            let got = cd.get(GlyphId16::new(g));
            if got != want {
                return Err(format!("get({g}) = {got}, expected {want}"));
            }
        }
        let it: Vec<(u16, u16)> = cd.iter().take(m.len() + 2).map(|(g, c)| (g.to_u16(), c)).collect();
        if it != m {
            return Err(format!("iter {it:?} expected {m:?}"));
        }
        if cd.population() != m.len() {
            return Err(format!("population {} expected {}", cd.population(), m.len()));
        }
        Ok(())
    });
}

fn device_model(ctx: &mut Ctx) {
    let bits = *ctx.rng.pick(&[2u32, 4, 8]);
    let start = match ctx.rng.below(4) {
        0 => 0,
        1 => 0xFFFF - ctx.rng.below(30) as u16,
        _ => ctx.rng.below(200) as u16,
    };
    let n = 1 + ctx.rng.below(40.min(0x1_0000 - start as u64)) as usize;
    let end = (start as usize + n - 1) as u16;
    let vals: Vec<i8> = (0..n).map(|_| ctx.rng.next() as i8 >> (8 - bits)).collect();
    let words = pack_deltas(&vals, bits);
    let fmt = match bits {
        2 => 1,
        4 => 2,
        _ => 3,
    };
    let b = device(start, end, fmt, &words);
    let input = format!("device-model {}", hex(&b.v));
    model(ctx, "device-model", input, || {
        let d = Device::read(FontData::new(&b.v)).map_err(|e| format!("read {e:?}"))?;
        let got: Vec<i8> = d.iter().take(n + 9).collect();
        if got != vals {
            return Err(format!("iter {got:?} expected {vals:?}"));
        }
        Ok(())
    });
}

/// explicit expected decoding under its own oracle name
fn device_expect(ctx: &mut Ctx, name: &str, start: u16, end: u16, fmt: u16, words: &[u16], want: &[i8]) {
    let b = device(start, end, fmt, words);
    let input = format!("{name} {}", hex(&b.v));
    model(ctx, &format!("device-model.{name}"), input, || {
        let d = Device::read(FontData::new(&b.v)).map_err(|e| format!("read {e:?}"))?;
        let got: Vec<i8> = d.iter().take(want.len() + 9).collect();
        if got != want {
            return Err(format!("iter {got:?} expected {want:?}"));
        }
        Ok(())
    });
}

pub fn run(ctx: &mut Ctx) {
    let k = if ctx.thorough { 6 } else { 1 };
    // Coverage
    for round in 0..90 * k {
        let uni = *ctx.rng.pick(&[8u32, 40, 300, 0x1_0000]);
        let b = cov_any(&mut ctx.rng, uni, round % 3 == 0);
        ctx.count(&format!("coverage.format{}", r16(&b.v, 0).unwrap_or(0).min(3)));
        ctx.drive("coverage", &b, &walk_coverage);
    }
    for _ in 0..200 * k {
        coverage_model(ctx);
    }
    ctx.drive_random("coverage", 500 * k, 40, &walk_coverage);
    // known-site probes (minimal inputs, one oracle name per site)
    probe(ctx, "coverage1.intersects.inverted-set", &cov1(&[3, 9], false).v, &walk_coverage_inverted);
    probe(ctx, "coverage2.intersects.inverted-set", &cov2(&[(3, 4, 0), (8, 9, 2)], false).v, &walk_coverage_inverted);
    probe(ctx, "coverage1.intersects.inverted-set.single", &cov1(&[7], false).v, &walk_coverage_inverted);
    probe(ctx, "device.iter.start-gt-end", &device(1, 0, 1, &[]).v, &walk_device);
    probe(ctx, "device.iter.minus128", &device(0, 1, 3, &[0x0080]).v, &walk_device);
    device_expect(ctx, "negative-delta-2bit", 0, 2, 1, &[0x8800], &[-2, 0, -2]);
    device_expect(ctx, "negative-delta-4bit", 0, 2, 2, &[0xBB80], &[-5, -5, -8]);
    device_expect(ctx, "negative-delta-8bit", 0, 1, 3, &[0x8101], &[-127, 1]);
    device_expect(ctx, "positive-deltas", 0, 3, 2, &[0x1234], &[1, 2, 3, 4]);
    device_expect(ctx, "end-size-ffff", 0xFFFF, 0xFFFF, 1, &[0x4000], &[1]);
    // ClassDef
    for round in 0..70 * k {
        let uni = *ctx.rng.pick(&[8u32, 40, 300, 0xFFF0]);
        let b = class_any(&mut ctx.rng, uni, 3, round % 3 == 0);
        ctx.count(&format!("classdef.format{}", r16(&b.v, 0).unwrap_or(0).min(3)));
        ctx.drive("classdef", &b, &walk_classdef);
    }
    for _ in 0..200 * k {
        classdef_model(ctx);
    }
    ctx.drive_random("classdef", 500 * k, 40, &walk_classdef);
    // Device / VariationIndex
    for _ in 0..90 * k {
        let b = device_any(&mut ctx.rng);
        ctx.count(&format!("device.format{:x}", r16(&b.v, 4).unwrap_or(0)));
        ctx.drive("device", &b, &walk_device);
    }
    // exhaustive: every format word class x small size ranges x data lengths
    for fmt in [0u16, 1, 2, 3, 4, 0x8000, 0x8001, 0xFFFF] {
        for start in [0u16, 1, 7, 8, 9, 0xFFFE, 0xFFFF] {
            for d in 0..=17u16 {
                for short in [0usize, 1] {
                    let end = start.saturating_add(d);
                    let n = (end - start) as usize + 1;
                    let per = match fmt {
                        1 => 8,
                        2 => 4,
                        3 => 2,
                        _ => 1,
                    };
                    let words: Vec<u16> = (0..((n + per - 1) / per).saturating_sub(short)).map(|_| ctx.rng.next() as u16).collect();
                    ctx.call("device", &device(start, end, fmt, &words).v, &walk_device);
                }
            }
        }
    }
    for _ in 0..300 * k {
        device_model(ctx);
    }
    ctx.drive_random("device", 400 * k, 24, &walk_device);
    run_layout_tables(ctx, k);
}


// ------------------------------------------------------------------------------------------------
// builders: script / feature / lookup lists, GSUB and GPOS subtables

const SCRIPT_TAGS: [&[u8; 4]; 10] = [b"DFLT", b"arab", b"cyrl", b"dflt", b"grek", b"latn", b"zzzz", b"    ", b"AAAA", b"thai"];
const LANG_TAGS: [&[u8; 4]; 6] = [b"DEU ", b"ENG ", b"TRK ", b"dflt", b"ZZZZ", b"AAA "];
const FEATURE_TAGS: [&[u8; 4]; 10] = [b"size", b"ss01", b"ss20", b"cv01", b"cv99", b"liga", b"kern", b"calt", b"aalt", b"ssXX"];

fn tag32(t: &[u8; 4]) -> u32 {
    u32::from_be_bytes(*t)
}

fn lang_sys(rng: &mut Rng, n_features: u16) -> T {
    let mut t = T::new();
    t.b.u16(0);
    let req = match rng.below(4) {
        0 => 0xFFFF,
        1 => n_features.wrapping_add(rng.below(2) as u16),
        _ => rng.below(n_features as u64 + 1) as u16,
    };
    t.b.f16(req);
    let n = rng.below(5) as u16;
    t.b.f16(n);
    for _ in 0..n {
        // feature indices, some beyond the list
        let ix = if rng.chance(1, 6) { n_features + rng.below(3) as u16 } else { rng.below(n_features as u64 + 1) as u16 };
        t.b.f16(ix);
    }
    t
}

fn script(rng: &mut Rng, n_features: u16, sorted: bool) -> T {
    let mut t = T::new();
    let dflt = if rng.chance(2, 3) { Some(lang_sys(rng, n_features)) } else { None };
    t.opt16(dflt);
    let mut tags: Vec<u32> = (0..rng.below(4)).map(|_| tag32(*rng.pick(&LANG_TAGS[..]))).collect();
    if sorted {
        tags.sort();
        tags.dedup();
    }
    t.b.f16(tags.len() as u16);
    for tg in tags {
        t.b.u32(tg);
        let ls = lang_sys(rng, n_features);
        t.off16(ls);
    }
    t
}

fn script_list(rng: &mut Rng, n_features: u16, sorted: bool) -> (T, Vec<u32>) {
    let mut tags: Vec<u32> = (0..rng.below(5)).map(|_| tag32(*rng.pick(&SCRIPT_TAGS[..]))).collect();
    if sorted {
        tags.sort();
        tags.dedup();
    }
    let mut t = T::new();
    t.b.f16(tags.len() as u16);
    for tg in &tags {
        t.b.u32(*tg);
        let s = script(rng, n_features, sorted);
        t.off16(s);
    }
    (t, tags)
}

fn feature_params(rng: &mut Rng, tag: u32) -> B {
    let mut b = B::new();
    let t = tag.to_be_bytes();
    if &t == b"size" {
        for _ in 0..5 {
            b.u16(rng.below(300) as u16);
        }
    } else if &t[..2] == b"ss" {
        b.u16(0).u16(256 + rng.below(10) as u16);
    } else if &t[..2] == b"cv" {
        b.u16(0).u16(256).u16(257).u16(258).u16(rng.below(3) as u16).u16(259);
        let n = rng.below(4) as u16;
        b.f16(n);
        for _ in 0..n {
            b.u24(rng.below(0x11_0000) as u32);
        }
    } else {
        b.bytes(&rng.bytes(6));
    }
    b
}

fn feature(rng: &mut Rng, tag: u32, n_lookups: u16) -> T {
    let mut t = T::new();
    let params = if rng.chance(1, 2) { Some(T::of(feature_params(rng, tag))) } else { None };
    t.opt16(params);
    let n = rng.below(4) as u16;
    t.b.f16(n);
    for _ in 0..n {
        // lookup indices, some beyond the list
        let ix = if rng.chance(1, 8) { n_lookups + rng.below(3) as u16 } else { rng.below(n_lookups as u64 + 1) as u16 };
        t.b.f16(ix);
    }
    t
}

fn feature_list(rng: &mut Rng, n: u16, n_lookups: u16) -> (T, Vec<u32>) {
    let tags: Vec<u32> = (0..n).map(|_| tag32(*rng.pick(&FEATURE_TAGS[..]))).collect();
    let mut t = T::new();
    t.b.f16(n);
    for tg in &tags {
        t.b.u32(*tg);
        let f = feature(rng, *tg, n_lookups);
        t.off16(f);
    }
    (t, tags)
}

fn condition(rng: &mut Rng, depth: u32) -> T {
    let mut t = T::new();
    let fmt = if depth >= 2 { 1 + rng.below(2) } else { 1 + rng.below(5) };
    match fmt {
        1 => {
            t.b.u16(1).f16(rng.below(4) as u16).i16(rng.range(-0x4000, 0x4000) as i16).i16(rng.range(-0x4000, 0x4000) as i16);
        }
        2 => {
            t.b.u16(2).i16(rng.next() as i16).u32(rng.next() as u32 >> rng.below(32));
        }
        3 | 4 => {
            let n = rng.below(3) as u8;
            t.b.u16(fmt as u16).f8(n);
            for _ in 0..n {
                let c = condition(rng, depth + 1);
                t.off24(c);
            }
        }
        _ => {
            t.b.u16(5);
            let c = condition(rng, depth + 1);
            t.off24(c);
        }
    }
    t
}

fn feature_variations(rng: &mut Rng, n_features: u16, n_lookups: u16) -> T {
    let mut t = T::new();
    t.b.u16(1).u16(0);
    let n = rng.below(3) as u32;
    t.b.f32(n);
    for _ in 0..n {
        if rng.chance(3, 4) {
            let mut cs = T::new();
            let nc = rng.below(3) as u16;
            cs.b.f16(nc);
            for _ in 0..nc {
                let c = condition(rng, 0);
                cs.off32(c);
            }
            t.off32(cs);
        } else {
            t.b.f32(0);
        }
        if rng.chance(3, 4) {
            let mut fs = T::new();
            fs.b.u16(1).u16(0);
            let ns = rng.below(3) as u16;
            fs.b.f16(ns);
            for _ in 0..ns {
                fs.b.f16(rng.below(n_features as u64 + 2) as u16);
                let f = feature(rng, tag32(b"NULL"), n_lookups);
                fs.off32(f);
            }
            t.off32(fs);
        } else {
            t.b.f32(0);
        }
    }
    t
}

/// lookup header around subtables (`mark_set`: USE_MARK_FILTERING_SET + trailing field)
fn lookup(rng: &mut Rng, ty: u16, subs: Vec<T>, reg_type: bool) -> T {
    let mut t = T::new();
    if reg_type {
        t.b.f16(ty);
    } else {
        t.b.u16(ty);
    }
    let mut flag = (rng.below(16) as u16) | ((rng.below(3) as u16) << 8);
    let with_set = rng.chance(1, 3);
    if with_set {
        flag |= 0x10;
    }
    if rng.chance(1, 8) {
        flag |= 0xE0 & rng.next() as u16;
    }
    t.b.f16(flag);
    t.b.f16(subs.len() as u16);
    for s in subs {
        t.off16(s);
    }
    if with_set {
        t.b.u16(rng.below(4) as u16);
    }
    t
}

/// (sequence_index, lookup_list_index) records; the sequence index is sometimes beyond the input
fn seq_lookup_records(rng: &mut Rng, b: &mut B, input_len: u16, n_lookups: u16) {
    let n = rng.below(3) as u16;
    b.f16(n);
    seq_lookup_body(rng, b, n, input_len, n_lookups);
}

fn seq_lookup_body(rng: &mut Rng, b: &mut B, n: u16, input_len: u16, n_lookups: u16) {
    seq_lookup_body_h(rng, b, n, input_len, n_lookups, 10)
}

/// `den`: one in `den / 3` sequence indices is beyond the input sequence
fn seq_lookup_body_h(rng: &mut Rng, b: &mut B, n: u16, input_len: u16, n_lookups: u16, den: u64) {
    for _ in 0..n {
        let si = match rng.below(den) {
            0 => input_len + 1,
            1 => input_len + 2 + rng.below(3) as u16,
            2 => 0xFFFF,
            _ => rng.below(input_len as u64 + 1) as u16,
        };
        let li = match rng.below(den) {
            0 => n_lookups,
            1 => 0xFFFF,
            _ => rng.below(n_lookups.max(1) as u64) as u16,
        };
        b.f16(si).f16(li);
    }
}

fn glyph_seq(rng: &mut Rng, uni: u32, b: &mut B, n: u16) {
    for _ in 0..n {
        b.u16(rng.below(uni as u64) as u16);
    }
}

struct Lk {
    uni: u32,
    n_lookups: u16,
    n_classes: u16,
    /// closure tables: one in `seq_den / 3` sequence indices lies beyond the input sequence
    seq_den: u64,
}

fn gsub_single(rng: &mut Rng, k: &Lk) -> T {
    let mut t = T::new();
    if rng.chance(1, 2) {
        t.b.u16(1);
        t.off16(T::of(cov_any(rng, k.uni, false)));
        t.b.i16(*rng.pick(&[1i16, -1, 5, 100, -100, i16::MAX, i16::MIN, 0]));
    } else {
        t.b.u16(2);
        t.off16(T::of(cov_any(rng, k.uni, false)));
        let n = rng.below(8) as u16;
        t.b.f16(n);
        glyph_seq(rng, k.uni + 8, &mut t.b, n);
    }
    t
}

/// Multiple / Alternate (same layout): coverage + offsets to glyph sequences
fn gsub_multiple(rng: &mut Rng, k: &Lk) -> T {
    let mut t = T::new();
    t.b.u16(1);
    t.off16(T::of(cov_any(rng, k.uni, false)));
    let n = rng.below(5) as u16;
    t.b.f16(n);
    for _ in 0..n {
        let mut s = T::new();
        let m = if rng.chance(1, 10) { 40 + rng.below(60) as u16 } else { rng.below(4) as u16 };
        s.b.f16(m);
        glyph_seq(rng, k.uni + 16, &mut s.b, m);
        t.off16(s);
    }
    t
}

fn gsub_ligature(rng: &mut Rng, k: &Lk) -> T {
    let mut t = T::new();
    t.b.u16(1);
    t.off16(T::of(cov_any(rng, k.uni, false)));
    let n = rng.below(4) as u16;
    t.b.f16(n);
    for _ in 0..n {
        let mut set = T::new();
        let m = rng.below(3) as u16;
        set.b.f16(m);
        for _ in 0..m {
            let mut lig = T::new();
            lig.b.u16(rng.below(k.uni as u64 + 30) as u16);
            // component_count 0 (count - 1 saturates), 1, n
            let cc = rng.below(4) as u16;
            lig.b.f16(cc);
            glyph_seq(rng, k.uni, &mut lig.b, cc.saturating_sub(1));
            set.off16(lig);
        }
        t.off16(set);
    }
    t
}

fn ctx_format1(rng: &mut Rng, k: &Lk, chained: bool, classes: bool) -> T {
    let mut t = T::new();
    t.b.u16(if classes { 2 } else { 1 });
    t.off16(T::of(cov_any(rng, k.uni, false)));
    if classes {
        let n_defs = if chained { 3 } else { 1 };
        for _ in 0..n_defs {
            t.off16(T::of(class_any(rng, k.uni, k.n_classes, false)));
        }
    }
    let n = rng.below(4) as u16;
    t.b.f16(n);
    let seq_uni = if classes { k.n_classes as u32 + 2 } else { k.uni };
    for _ in 0..n {
        if rng.chance(1, 5) {
            t.b.f16(0);
            continue;
        }
        let mut set = T::new();
        let m = rng.below(3) as u16;
        set.b.f16(m);
        for _ in 0..m {
            let mut rule = T::new();
            if chained {
                let nb = rng.below(3) as u16;
                rule.b.f16(nb);
                glyph_seq(rng, seq_uni, &mut rule.b, nb);
                let gc = rng.below(4) as u16;
                rule.b.f16(gc);
                glyph_seq(rng, seq_uni, &mut rule.b, gc.saturating_sub(1));
                let na = rng.below(3) as u16;
                rule.b.f16(na);
                glyph_seq(rng, seq_uni, &mut rule.b, na);
                seq_lookup_records(rng, &mut rule.b, gc.saturating_sub(1), k.n_lookups);
            } else {
                let gc = rng.below(4) as u16;
                let nl = rng.below(3) as u16;
                rule.b.f16(gc).f16(nl);
                glyph_seq(rng, seq_uni, &mut rule.b, gc.saturating_sub(1));
                seq_lookup_body(rng, &mut rule.b, nl, gc.saturating_sub(1), k.n_lookups);
            }
            set.off16(rule);
        }
        t.off16(set);
    }
    t
}

fn ctx_format3(rng: &mut Rng, k: &Lk, chained: bool) -> T {
    let mut t = T::new();
    t.b.u16(3);
    if chained {
        let nb = rng.below(3) as u16;
        t.b.f16(nb);
        for _ in 0..nb {
            t.off16(T::of(cov_any(rng, k.uni, false)));
        }
        let ni = rng.below(4) as u16;
        t.b.f16(ni);
        for _ in 0..ni {
            t.off16(T::of(cov_any(rng, k.uni, false)));
        }
        let na = rng.below(3) as u16;
        t.b.f16(na);
        for _ in 0..na {
            t.off16(T::of(cov_any(rng, k.uni, false)));
        }
        seq_lookup_records(rng, &mut t.b, ni.saturating_sub(1), k.n_lookups);
    } else {
        let ni = rng.below(4) as u16;
        let nl = rng.below(3) as u16;
        t.b.f16(ni).f16(nl);
        for _ in 0..ni {
            t.off16(T::of(cov_any(rng, k.uni, false)));
        }
        seq_lookup_body(rng, &mut t.b, nl, ni.saturating_sub(1), k.n_lookups);
    }
    t
}

fn context(rng: &mut Rng, k: &Lk, chained: bool) -> T {
    match rng.below(3) {
        0 => ctx_format1(rng, k, chained, false),
        1 => ctx_format1(rng, k, chained, true),
        _ => ctx_format3(rng, k, chained),
    }
}

fn gsub_reverse(rng: &mut Rng, k: &Lk) -> T {
    let mut t = T::new();
    t.b.u16(1);
    t.off16(T::of(cov_any(rng, k.uni, false)));
    for _ in 0..2 {
        let n = rng.below(3) as u16;
        t.b.f16(n);
        for _ in 0..n {
            t.off16(T::of(cov_any(rng, k.uni, false)));
        }
    }
    let n = rng.below(6) as u16;
    t.b.f16(n);
    glyph_seq(rng, k.uni + 8, &mut t.b, n);
    t
}

/// extension subtable (format 1, type, Offset32)
fn extension(ty: u16, inner: T) -> T {
    let mut t = T::new();
    t.b.u16(1).f16(ty);
    t.off32(inner);
    t
}

fn gsub_subtable(rng: &mut Rng, ty: u16, k: &Lk) -> T {
    match ty {
        1 => gsub_single(rng, k),
        2 | 3 => gsub_multiple(rng, k),
        4 => gsub_ligature(rng, k),
        5 => context(rng, k, false),
        6 => context(rng, k, true),
        8 => gsub_reverse(rng, k),
        7 => {
            // extension pointing at an extension
            let inner = gsub_single(rng, k);
            extension(1, inner)
        }
        _ => T::of({
            let mut b = B::new();
            b.bytes(&rng.bytes(8));
            b
        }),
    }
}

fn gsub_lookup(rng: &mut Rng, k: &Lk, reg_type: bool) -> T {
    let ty = *rng.pick(&[1u16, 1, 2, 3, 4, 5, 5, 6, 6, 8, 7, 7, 7, 0, 9]);
    let n = if rng.chance(1, 10) { 0 } else { 1 + rng.below(2) as usize };
    if ty == 7 {
        let ext_ty = *rng.pick(&[1u16, 2, 3, 4, 5, 6, 8, 7, 0, 9]);
        let subs: Vec<T> = (0..n)
            .map(|_| {
                let inner = gsub_subtable(rng, ext_ty, k);
                extension(ext_ty, inner)
            })
            .collect();
        lookup(rng, 7, subs, reg_type)
    } else {
        let subs: Vec<T> = (0..n).map(|_| gsub_subtable(rng, ty, k)).collect();
        lookup(rng, ty, subs, reg_type)
    }
}

/// GSUB / GPOS header + lists; `mk` builds one lookup
fn layout_table(rng: &mut Rng, k: &Lk, sorted: bool, reg_type: bool, mk: &dyn Fn(&mut Rng, &Lk, bool) -> T) -> B {
    let n_features = rng.below(5) as u16;
    let mut t = T::new();
    let v11 = rng.chance(1, 2);
    t.b.u16(1).f16(if v11 { 1 } else { 0 });
    let (sl, _) = script_list(rng, n_features, sorted);
    t.off16(sl);
    let (fl, _) = feature_list(rng, n_features, k.n_lookups);
    t.off16(fl);
    let mut ll = T::new();
    ll.b.f16(k.n_lookups);
    for _ in 0..k.n_lookups {
        let l = mk(rng, k, reg_type);
        ll.off16(l);
    }
    t.off16(ll);
    if v11 {
        if rng.chance(2, 3) {
            let fv = feature_variations(rng, n_features, k.n_lookups);
            t.off32(fv);
        } else {
            t.b.f32(0);
        }
    }
    t.flat()
}

// --- GPOS

/// value record bytes for `format`; device offsets point at child tables of `t`
fn value_record(rng: &mut Rng, t: &mut T, format: u16) {
    for bit in 0..16 {
        if format & (1 << bit) == 0 {
            continue;
        }
        if (4..8).contains(&bit) {
            if rng.chance(1, 2) {
                t.off16(T::of(device_any(rng)));
            } else {
                t.b.f16(0);
            }
        } else if bit < 4 {
            t.b.i16(rng.range(-500, 500) as i16);
        }
        // reserved bits: no data
    }
}

fn value_format(rng: &mut Rng) -> u16 {
    match rng.below(8) {
        0 => 0,
        1 => 0xFF,
        2 => 0x0F,
        3 => 0xF0,
        4 => rng.next() as u16, // reserved bits set
        _ => rng.below(256) as u16,
    }
}

fn anchor(rng: &mut Rng) -> T {
    let mut t = T::new();
    let fmt = *rng.pick(&[1u16, 2, 3, 3, 3, 0, 4]);
    t.b.u16(fmt).i16(rng.next() as i16).i16(rng.next() as i16);
    match fmt {
        2 => {
            t.b.u16(rng.below(100) as u16);
        }
        3 => {
            for _ in 0..2 {
                if rng.chance(2, 3) {
                    t.off16(T::of(device_any(rng)));
                } else {
                    t.b.f16(0);
                }
            }
        }
        _ => {}
    }
    t
}

fn gpos_single(rng: &mut Rng, k: &Lk) -> T {
    let mut t = T::new();
    let vf = value_format(rng);
    if rng.chance(1, 2) {
        t.b.u16(1);
        t.off16(T::of(cov_any(rng, k.uni, false)));
        t.b.f16(vf);
        value_record(rng, &mut t, vf);
    } else {
        t.b.u16(2);
        t.off16(T::of(cov_any(rng, k.uni, false)));
        t.b.f16(vf);
        let n = rng.below(4) as u16;
        t.b.f16(n);
        for _ in 0..n {
            value_record(rng, &mut t, vf);
        }
    }
    t
}

fn gpos_pair(rng: &mut Rng, k: &Lk) -> T {
    let mut t = T::new();
    let (vf1, vf2) = (value_format(rng) & 0x55, value_format(rng) & 0x33);
    if rng.chance(1, 2) {
        t.b.u16(1);
        t.off16(T::of(cov_any(rng, k.uni, false)));
        t.b.f16(vf1).f16(vf2);
        let n = rng.below(3) as u16;
        t.b.f16(n);
        for _ in 0..n {
            let mut ps = T::new();
            let m = rng.below(3) as u16;
            ps.b.f16(m);
            for _ in 0..m {
                ps.b.u16(rng.below(k.uni as u64) as u16);
                value_record(rng, &mut ps, vf1);
                value_record(rng, &mut ps, vf2);
            }
            t.off16(ps);
        }
    } else {
        t.b.u16(2);
        t.off16(T::of(cov_any(rng, k.uni, false)));
        t.b.f16(vf1).f16(vf2);
        t.off16(T::of(class_any(rng, k.uni, 2, false)));
        t.off16(T::of(class_any(rng, k.uni, 2, false)));
        let (c1, c2) = (rng.below(3) as u16, rng.below(3) as u16);
        t.b.f16(c1).f16(c2);
        for _ in 0..c1 * c2 {
            value_record(rng, &mut t, vf1);
            value_record(rng, &mut t, vf2);
        }
    }
    t
}

fn gpos_cursive(rng: &mut Rng, k: &Lk) -> T {
    let mut t = T::new();
    t.b.u16(1);
    t.off16(T::of(cov_any(rng, k.uni, false)));
    let n = rng.below(4) as u16;
    t.b.f16(n);
    for _ in 0..n {
        for _ in 0..2 {
            let a = if rng.chance(2, 3) { Some(anchor(rng)) } else { None };
            t.opt16(a);
        }
    }
    t
}

fn mark_array(rng: &mut Rng, classes: u16) -> T {
    let mut t = T::new();
    let n = rng.below(4) as u16;
    t.b.f16(n);
    for _ in 0..n {
        t.b.u16(rng.below(classes as u64 + 1) as u16);
        let a = anchor(rng);
        t.off16(a);
    }
    t
}

/// BaseArray / Mark2Array / LigatureAttach: count x (classes x nullable anchor offsets)
fn anchor_matrix(rng: &mut Rng, classes: u16) -> T {
    let mut t = T::new();
    let n = rng.below(3) as u16;
    t.b.f16(n);
    for _ in 0..n * classes {
        let a = if rng.chance(2, 3) { Some(anchor(rng)) } else { None };
        t.opt16(a);
    }
    t
}

fn gpos_mark(rng: &mut Rng, k: &Lk, lig: bool) -> T {
    let mut t = T::new();
    t.b.u16(1);
    t.off16(T::of(cov_any(rng, k.uni, false)));
    t.off16(T::of(cov_any(rng, k.uni, false)));
    let classes = rng.below(3) as u16;
    t.b.f16(classes);
    let ma = mark_array(rng, classes);
    t.off16(ma);
    if lig {
        let mut la = T::new();
        let n = rng.below(3) as u16;
        la.b.f16(n);
        for _ in 0..n {
            let m = anchor_matrix(rng, classes);
            la.off16(m);
        }
        t.off16(la);
    } else {
        let m = anchor_matrix(rng, classes);
        t.off16(m);
    }
    t
}

fn gpos_subtable(rng: &mut Rng, ty: u16, k: &Lk) -> T {
    match ty {
        1 => gpos_single(rng, k),
        2 => gpos_pair(rng, k),
        3 => gpos_cursive(rng, k),
        4 | 6 => gpos_mark(rng, k, false),
        5 => gpos_mark(rng, k, true),
        7 => context(rng, k, false),
        8 => context(rng, k, true),
        9 => {
            let inner = gpos_single(rng, k);
            extension(1, inner)
        }
        _ => T::of({
            let mut b = B::new();
            b.bytes(&rng.bytes(8));
            b
        }),
    }
}

fn gpos_lookup(rng: &mut Rng, k: &Lk, reg_type: bool) -> T {
    let ty = *rng.pick(&[1u16, 1, 2, 2, 3, 4, 5, 6, 7, 8, 9, 9, 9, 0, 10]);
    let n = if rng.chance(1, 10) { 0 } else { 1 + rng.below(2) as usize };
    if ty == 9 {
        let ext_ty = *rng.pick(&[1u16, 2, 3, 4, 5, 6, 7, 8, 9, 0, 10]);
        let subs: Vec<T> = (0..n)
            .map(|_| {
                let inner = gpos_subtable(rng, ext_ty, k);
                extension(ext_ty, inner)
            })
            .collect();
        lookup(rng, 9, subs, reg_type)
    } else {
        let subs: Vec<T> = (0..n).map(|_| gpos_subtable(rng, ty, k)).collect();
        lookup(rng, ty, subs, reg_type)
    }
}

// ------------------------------------------------------------------------------------------------
// walks: layout tables

fn note_tag(o: &mut Obs, t: Tag) {
    o.note(u32::from_be_bytes(t.to_be_bytes()) as u64);
}

fn note_field(o: &mut Obs, f: &FieldType) {
    match f {
        FieldType::U16(v) => o.note(*v as u64),
        FieldType::I16(v) => o.note(*v as u16 as u64),
        FieldType::ResolvedOffset(r) => {
            o.note(r.offset.to_u32() as u64);
            o.note(r.target.is_ok() as u64);
        }
        FieldType::BareOffset(off) => o.note(off.to_u32() as u64),
        FieldType::Record(_) => o.note(71),
        FieldType::Array(a) => o.note(a.len() as u64),
        _ => o.note(99),
    }
}

fn note_table_fields<'a>(o: &mut Obs, t: &dyn SomeTable<'a>, n: usize) {
    o.note_str(t.type_name());
    for i in 0..n {
        match t.get_field(i) {
            Some(f) => {
                o.note_str(f.name);
                note_field(o, &f.value);
            }
            None => o.note(0),
        }
    }
}

/// population from the (generated) record fields
fn cov_pop(cov: &CoverageTable) -> usize {
    match cov {
        CoverageTable::Format1(t) => t.glyph_count() as usize,
        CoverageTable::Format2(t) => t
            .range_records()
            .iter()
            .map(|r| {
                let (s, e) = (r.start_glyph_id().to_u16() as usize, r.end_glyph_id().to_u16() as usize);
                if e >= s {
                    e - s + 1
                } else {
                    0
                }
            })
            .sum(),
    }
}

fn class_pop(cd: &ClassDef) -> usize {
    match cd {
        ClassDef::Format1(t) => t.glyph_count() as usize,
        ClassDef::Format2(t) => t
            .class_range_records()
            .iter()
            .map(|r| {
                let (s, e) = (r.start_glyph_id().to_u16() as usize, r.end_glyph_id().to_u16() as usize);
                if e >= s {
                    e - s + 1
                } else {
                    0
                }
            })
            .sum(),
    }
}

const NESTED_BUDGET: usize = 5000;

fn touch_cov(o: &mut Obs, r: Result<CoverageTable, read_fonts::ReadError>) {
    if !o.res(&r) {
        return;
    }
    let cov = r.unwrap();
    for g in [0u16, 1, 2, 5, 0xFFFF] {
        note_opt16(o, cov.get(GlyphId16::new(g)));
    }
    let p = cov_pop(&cov).min(NESTED_BUDGET);
    o.drain("nested coverage.iter", p + 1, cov.iter().take(NESTED_BUDGET), |o, g| o.note(g.to_u16() as u64));
}

fn touch_class(o: &mut Obs, r: Result<ClassDef, read_fonts::ReadError>) {
    if !o.res(&r) {
        return;
    }
    let cd = r.unwrap();
    for g in [0u16, 1, 2, 5, 0xFFFF] {
        o.note(cd.get(GlyphId16::new(g)) as u64);
    }
    o.note(cd.population() as u64);
    let p = class_pop(&cd).min(NESTED_BUDGET);
    o.drain("nested classdef.iter", p + 1, cd.iter().take(NESTED_BUDGET), |o, (g, c)| o.note(((g.to_u16() as u64) << 16) | c as u64));
}

fn walk_lang_sys(ls: &lay::LangSys, fl: Option<&lay::FeatureList>, o: &mut Obs) {
    o.note(ls.required_feature_index() as u64);
    let Some(fl) = fl else { return };
    let mut tags: Vec<Tag> = fl.feature_records().iter().take(6).map(|r| r.feature_tag()).collect();
    tags.extend([Tag::new(b"liga"), Tag::new(b"zzzz"), Tag::new(b"\0\0\0\0")]);
    for t in tags {
        note_opt16(o, ls.feature_index_for_tag(fl, t));
    }
}

fn walk_script(s: &lay::Script, fl: Option<&lay::FeatureList>, o: &mut Obs) {
    let recs = s.lang_sys_records();
    let mut tags: Vec<Tag> = recs.iter().take(6).map(|r| r.lang_sys_tag()).collect();
    tags.extend(LANG_TAGS.iter().map(|t| Tag::new(t)));
    for t in &tags {
        note_opt16(o, s.lang_sys_index_for_tag(*t));
    }
    for (k, i) in edge16(&[recs.len() as u32]).into_iter().enumerate() {
        let r = s.lang_sys(i);
        if o.res(&r) && k < 8 {
            let te = r.unwrap();
            note_tag(o, te.tag);
            walk_lang_sys(&te, fl, o);
        }
    }
    if let Some(Ok(ls)) = s.default_lang_sys() {
        walk_lang_sys(&ls, fl, o);
    }
}

fn walk_script_list(sl: &lay::ScriptList, fl: Option<&lay::FeatureList>, o: &mut Obs) {
    let recs = sl.script_records();
    let mut tags: Vec<Tag> = recs.iter().take(8).map(|r| r.script_tag()).collect();
    tags.extend(SCRIPT_TAGS.iter().map(|t| Tag::new(t)));
    for t in &tags {
        note_opt16(o, sl.index_for_tag(*t));
    }
    for (k, i) in edge16(&[recs.len() as u32]).into_iter().enumerate() {
        let r = sl.get(i);
        if o.res(&r) && k < 8 {
            let te = r.unwrap();
            note_tag(o, te.tag);
            walk_script(&te.element, fl, o);
        }
    }
    let first: Vec<Tag> = tags.iter().take(1).copied().collect();
    let last2: Vec<Tag> = recs.iter().rev().take(2).map(|r| r.script_tag()).collect();
    for ts in [&[][..], &first[..], &last2[..], &[Tag::new(b"qqqq"), Tag::new(b"latn")][..], &tags[..]] {
        match sl.select(ts) {
            Some(s) => {
                note_tag(o, s.tag);
                o.note(s.index as u64);
                o.note(s.is_fallback as u64);
            }
            None => o.note(0),
        }
    }
}

fn walk_feature(f: &lay::Feature, o: &mut Obs) {
    for ix in f.lookup_list_indices().iter().take(8) {
        o.note(ix.get() as u64);
    }
    match f.feature_params() {
        Some(Ok(p)) => {
            o.note(match &p {
                lay::FeatureParams::StylisticSet(_) => 1,
                lay::FeatureParams::Size(_) => 2,
                lay::FeatureParams::CharacterVariant(_) => 3,
            });
            note_table_fields(o, &p, 9);
        }
        Some(Err(e)) => o.note_str(&format!("{e:?}")),
        None => o.note(0),
    }
}

fn walk_feature_list(fl: &lay::FeatureList, o: &mut Obs) {
    let n = fl.feature_records().len();
    for (k, i) in edge16(&[n as u32]).into_iter().enumerate() {
        let r = fl.get(i);
        if o.res(&r) && k < 10 {
            let te = r.unwrap();
            note_tag(o, te.tag);
            walk_feature(&te, o);
        }
    }
}

fn walk_feature_variations(fv: &lay::FeatureVariations, o: &mut Obs) {
    let data = fv.offset_data();
    for rec in fv.feature_variation_records().iter().take(6) {
        match rec.condition_set(data) {
            Some(Ok(cs)) => {
                o.drain("conditions.iter", data.len() / 4 + 1, cs.conditions().iter(), |o, c| o.note(c.is_ok() as u64));
            }
            Some(Err(_)) => o.note(2),
            None => o.note(0),
        }
        match rec.feature_table_substitution(data) {
            Some(Ok(fts)) => {
                for sub in fts.substitutions().iter().take(6) {
                    o.note(sub.feature_index() as u64);
                    let r = sub.alternate_feature(fts.offset_data());
                    if o.res(&r) {
                        walk_feature(&r.unwrap(), o);
                    }
                }
            }
            Some(Err(_)) => o.note(2),
            None => o.note(0),
        }
    }
}

fn walk_flag(o: &mut Obs, f: LookupFlag) {
    o.note(f.to_bits() as u64);
    note_opt16(o, f.mark_attachment_class());
    o.note(f.contains(LookupFlag::USE_MARK_FILTERING_SET) as u64);
}

fn walk_subtables<'a, S: FontRead<'a> + 'a, E: lay::ExtensionLookup<'a, S> + 'a>(
    o: &mut Obs,
    len: usize,
    st: &lay::Subtables<'a, S, E>,
    mut f: impl FnMut(&mut Obs, &S),
) {
    let n = st.len();
    o.note(n as u64);
    o.note(st.is_empty() as u64);
    for i in edge_usize(&[n]) {
        let r = st.get(i);
        o.res(&r);
    }
    o.drain("subtables.iter", len / 2 + 1, st.iter(), |o, r| {
        if o.res(&r) {
            f(o, &r.unwrap());
        }
    });
}

fn touch_seq_context(o: &mut Obs, c: &lay::SequenceContext) {
    match c {
        lay::SequenceContext::Format1(t) => touch_cov(o, t.coverage()),
        lay::SequenceContext::Format2(t) => {
            touch_cov(o, t.coverage());
            touch_class(o, t.class_def());
        }
        lay::SequenceContext::Format3(t) => {
            if let Ok(c) = t.coverages().get(0) {
                touch_cov(o, Ok(c));
            }
        }
    }
}

fn touch_chain_context(o: &mut Obs, c: &lay::ChainedSequenceContext) {
    match c {
        lay::ChainedSequenceContext::Format1(t) => touch_cov(o, t.coverage()),
        lay::ChainedSequenceContext::Format2(t) => {
            touch_cov(o, t.coverage());
            touch_class(o, t.input_class_def());
        }
        lay::ChainedSequenceContext::Format3(t) => {
            if let Ok(c) = t.input_coverages().get(0) {
                touch_cov(o, Ok(c));
            }
        }
    }
}

fn walk_common(
    o: &mut Obs,
    sl: Result<lay::ScriptList, read_fonts::ReadError>,
    fl: Result<lay::FeatureList, read_fonts::ReadError>,
    fv: Option<Result<lay::FeatureVariations, read_fonts::ReadError>>,
) {
    let fl_ok = fl.as_ref().ok();
    if let Ok(sl) = &sl {
        walk_script_list(sl, fl_ok, o);
    }
    if let Some(fl) = fl_ok {
        walk_feature_list(fl, o);
    }
    if let Some(Ok(fv)) = fv {
        walk_feature_variations(&fv, o);
    }
}

fn walk_gsub(bytes: &[u8], o: &mut Obs) {
    let Ok(gsub) = Gsub::read(FontData::new(bytes)) else {
        o.note(0);
        return;
    };
    let len = bytes.len();
    walk_common(o, gsub.script_list(), gsub.feature_list(), gsub.feature_variations());
    let Ok(ll) = gsub.lookup_list() else { return };
    let lookups = ll.lookups();
    let n = lookups.len();
    let mut ids = edge_usize(&[n]);
    ids.extend(0..n.min(16));
    for i in ids {
        let r = lookups.get(i);
        if !o.res(&r) {
            continue;
        }
        let l = r.unwrap();
        walk_flag(o, l.lookup_flag());
        o.note(l.lookup_type() as u64);
        note_opt16(o, l.mark_filtering_set());
        let st = l.subtables();
        if !o.res(&st) {
            continue;
        }
        match st.unwrap() {
            SubstitutionSubtables::Single(s) => walk_subtables(o, len, &s, |o, t| match t {
                gsub::SingleSubst::Format1(t) => touch_cov(o, t.coverage()),
                gsub::SingleSubst::Format2(t) => touch_cov(o, t.coverage()),
            }),
            SubstitutionSubtables::Multiple(s) => walk_subtables(o, len, &s, |o, t| touch_cov(o, t.coverage())),
            SubstitutionSubtables::Alternate(s) => walk_subtables(o, len, &s, |o, t| touch_cov(o, t.coverage())),
            SubstitutionSubtables::Ligature(s) => walk_subtables(o, len, &s, |o, t| touch_cov(o, t.coverage())),
            SubstitutionSubtables::Contextual(s) => walk_subtables(o, len, &s, |o, t| touch_seq_context(o, t)),
            SubstitutionSubtables::ChainContextual(s) => walk_subtables(o, len, &s, |o, t| touch_chain_context(o, t)),
            SubstitutionSubtables::Reverse(s) => walk_subtables(o, len, &s, |o, t| touch_cov(o, t.coverage())),
        }
    }
}

fn walk_value_record(o: &mut Obs, vr: &ValueRecord, data: FontData, len: usize) {
    for v in [vr.x_placement(), vr.y_placement(), vr.x_advance(), vr.y_advance()] {
        o.note(v.map(|x| x as u16 as u64 + 1).unwrap_or(0));
    }
    o.note(vr.format.bits() as u64);
    o.note(vr.format.record_byte_len() as u64);
    for d in [vr.x_placement_device(data), vr.y_placement_device(data), vr.x_advance_device(data), vr.y_advance_device(data)] {
        match d {
            Some(Ok(d)) => walk_dev_or_var(&d, len, o),
            Some(Err(e)) => o.note_str(&format!("{e:?}")),
            None => o.note(0),
        }
    }
    o.note_str(&format!("{vr:?}"));
    o.note((vr == &vr.clone()) as u64);
    let rr = vr.clone().traverse(data);
    note_table_fields(o, &rr, 10);
}

fn walk_anchor(o: &mut Obs, r: Result<gpos::AnchorTable, read_fonts::ReadError>, len: usize) {
    if !o.res(&r) {
        return;
    }
    let a = r.unwrap();
    for d in [a.x_device(), a.y_device()] {
        match d {
            Some(Ok(d)) => walk_dev_or_var(&d, len, o),
            Some(Err(e)) => o.note_str(&format!("{e:?}")),
            None => o.note(0),
        }
    }
}

fn walk_mark_array(o: &mut Obs, r: Result<gpos::MarkArray, read_fonts::ReadError>, len: usize) {
    if let Ok(ma) = r {
        for rec in ma.mark_records().iter().take(5) {
            o.note(rec.mark_class() as u64);
            walk_anchor(o, rec.mark_anchor(ma.offset_data()), len);
        }
    }
}

fn walk_gpos(bytes: &[u8], o: &mut Obs) {
    let Ok(gp) = Gpos::read(FontData::new(bytes)) else {
        o.note(0);
        return;
    };
    let len = bytes.len();
    walk_common(o, gp.script_list(), gp.feature_list(), gp.feature_variations());
    let Ok(ll) = gp.lookup_list() else { return };
    let lookups = ll.lookups();
    let n = lookups.len();
    let mut ids = edge_usize(&[n]);
    ids.extend(0..n.min(16));
    let rec_cap = len + 0x1_0000;
    for i in ids {
        let r = lookups.get(i);
        if !o.res(&r) {
            continue;
        }
        let l = r.unwrap();
        walk_flag(o, l.lookup_flag());
        o.note(l.lookup_type() as u64);
        note_opt16(o, l.mark_filtering_set());
        let st = l.subtables();
        if !o.res(&st) {
            continue;
        }
        match st.unwrap() {
            PositionSubtables::Single(s) => walk_subtables(o, len, &s, |o, t| match t {
                gpos::SinglePos::Format1(t) => {
                    touch_cov(o, t.coverage());
                    walk_value_record(o, &t.value_record(), t.offset_data(), len);
                    // traversal of the record field (`ValueRecord::traversal_type`)
                    note_table_fields(o, t, 5);
                }
                gpos::SinglePos::Format2(t) => {
                    touch_cov(o, t.coverage());
                    let data = t.offset_data();
                    o.drain("value_records.iter", rec_cap, t.value_records().iter(), |o, r| {
                        if let Ok(vr) = r {
                            if o.items < 4 {
                                walk_value_record(o, &vr, data, len);
                            }
                        }
                    });
                }
            }),
            PositionSubtables::Pair(s) => walk_subtables(o, len, &s, |o, t| match t {
                gpos::PairPos::Format1(t) => {
                    touch_cov(o, t.coverage());
                    for ps in t.pair_sets().iter().take(3).flatten() {
                        let data = ps.offset_data();
                        for rec in ps.pair_value_records().iter().take(4).flatten() {
                            o.note(rec.second_glyph().to_u16() as u64);
                            walk_value_record(o, rec.value_record1(), data, len);
                            walk_value_record(o, rec.value_record2(), data, len);
                        }
                    }
                }
                gpos::PairPos::Format2(t) => {
                    touch_cov(o, t.coverage());
                    touch_class(o, t.class_def1());
                    touch_class(o, t.class_def2());
                    let data = t.offset_data();
                    for c1 in t.class1_records().iter().take(3).flatten() {
                        for c2 in c1.class2_records().iter().take(3).flatten() {
                            walk_value_record(o, c2.value_record1(), data, len);
                            walk_value_record(o, c2.value_record2(), data, len);
                        }
                    }
                }
            }),
            PositionSubtables::Cursive(s) => walk_subtables(o, len, &s, |o, t| {
                touch_cov(o, t.coverage());
                let data = t.offset_data();
                for rec in t.entry_exit_record().iter().take(5) {
                    if let Some(a) = rec.entry_anchor(data) {
                        walk_anchor(o, a, len);
                    }
                    if let Some(a) = rec.exit_anchor(data) {
                        walk_anchor(o, a, len);
                    }
                }
            }),
            PositionSubtables::MarkToBase(s) => walk_subtables(o, len, &s, |o, t| {
                touch_cov(o, t.mark_coverage());
                touch_cov(o, t.base_coverage());
                walk_mark_array(o, t.mark_array(), len);
                if let Ok(ba) = t.base_array() {
                    let data = ba.offset_data();
                    for rec in ba.base_records().iter().take(3).flatten() {
                        for a in rec.base_anchors(data).iter().take(3).flatten() {
                            walk_anchor(o, a, len);
                        }
                    }
                }
            }),
            PositionSubtables::MarkToLig(s) => walk_subtables(o, len, &s, |o, t| {
                touch_cov(o, t.mark_coverage());
                walk_mark_array(o, t.mark_array(), len);
                if let Ok(la) = t.ligature_array() {
                    for att in la.ligature_attaches().iter().take(3).flatten() {
                        let data = att.offset_data();
                        for rec in att.component_records().iter().take(3).flatten() {
                            for a in rec.ligature_anchors(data).iter().take(3).flatten() {
                                walk_anchor(o, a, len);
                            }
                        }
                    }
                }
            }),
            PositionSubtables::MarkToMark(s) => walk_subtables(o, len, &s, |o, t| {
                touch_cov(o, t.mark1_coverage());
                walk_mark_array(o, t.mark1_array(), len);
                if let Ok(m2) = t.mark2_array() {
                    let data = m2.offset_data();
                    for rec in m2.mark2_records().iter().take(3).flatten() {
                        for a in rec.mark2_anchors(data).iter().take(3).flatten() {
                            walk_anchor(o, a, len);
                        }
                    }
                }
            }),
            PositionSubtables::Contextual(s) => walk_subtables(o, len, &s, |o, t| touch_seq_context(o, t)),
            PositionSubtables::ChainContextual(s) => walk_subtables(o, len, &s, |o, t| touch_chain_context(o, t)),
        }
    }
}

/// a bare `Lookup<T>`: `get_subtable`, traversal (`traverse_lookup_flag`)
fn walk_lookup(bytes: &[u8], o: &mut Obs) {
    let r = lay::Lookup::<gsub::SingleSubst>::read(FontData::new(bytes));
    if !o.res(&r) {
        return;
    }
    let l = r.unwrap();
    walk_flag(o, l.lookup_flag());
    note_opt16(o, l.mark_filtering_set());
    let mut offs: Vec<u16> = l.subtable_offsets().iter().take(6).map(|x| x.get().to_u32() as u16).collect();
    offs.extend(edge16(&[bytes.len() as u32]));
    for off in offs {
        let r = l.get_subtable(font_types::Offset16::new(off));
        o.res(&r);
    }
    note_table_fields(o, &l, 6);
}

fn walk_feature_params(tag: Tag) -> impl Fn(&[u8], &mut Obs) {
    move |bytes: &[u8], o: &mut Obs| {
        let r = lay::FeatureParams::read_with_args(FontData::new(bytes), &tag);
        if o.res(&r) {
            note_table_fields(o, &r.unwrap(), 9);
        }
        let r = lay::Feature::read(FontData::new(bytes), tag);
        if o.res(&r) {
            walk_feature(&r.unwrap(), o);
        }
    }
}

fn walk_script_list_bytes(bytes: &[u8], o: &mut Obs) {
    let r = lay::ScriptList::read(FontData::new(bytes));
    if o.res(&r) {
        walk_script_list(&r.unwrap(), None, o);
    }
}

fn walk_anchor_bytes(bytes: &[u8], o: &mut Obs) {
    walk_anchor(o, gpos::AnchorTable::read(FontData::new(bytes)), bytes.len());
}

// ------------------------------------------------------------------------------------------------
// exhaustive sweeps + models

fn lookup_flag_sweep(ctx: &mut Ctx) {
    let input = "lookup_flag.sweep".to_string();
    model(ctx, "lookupflag-model", input, || {
        for bits in 0..=0xFFFFu16 {
            let f = LookupFlag::from_bits_truncate(bits);
            if f.to_bits() != bits & !0xE0 {
                return Err(format!("from_bits_truncate({bits:#x}).to_bits() = {:#x}", f.to_bits()));
            }
            let want = if bits & 0xFF00 == 0 { None } else { Some(bits >> 8) };
            if f.mark_attachment_class() != want {
                return Err(format!("mark_attachment_class({bits:#x}) = {:?}", f.mark_attachment_class()));
            }
            for (flag, mask) in [
                (LookupFlag::RIGHT_TO_LEFT, 1u16),
                (LookupFlag::IGNORE_BASE_GLYPHS, 2),
                (LookupFlag::IGNORE_LIGATURES, 4),
                (LookupFlag::IGNORE_MARKS, 8),
                (LookupFlag::USE_MARK_FILTERING_SET, 16),
            ] {
                if f.contains(flag) != (bits & mask != 0) {
                    return Err(format!("contains({mask}) on {bits:#x}"));
                }
            }
            if !f.contains(LookupFlag::empty()) {
                return Err("contains(empty)".into());
            }
            let mut g = f;
            let cls = bits.rotate_left(5);
            g.set_mark_attachment_class(cls);
            if g.to_bits() != (f.to_bits() & 0xFF) | ((cls & 0xFF) << 8) {
                return Err(format!("set_mark_attachment_class({cls:#x}) on {bits:#x} = {:#x}", g.to_bits()));
            }
            let other = LookupFlag::from_bits_truncate(bits.rotate_left(3));
            let mut h = f;
            h |= other;
            if (f | other).to_bits() != f.to_bits() | other.to_bits() || h != (f | other) {
                return Err(format!("bitor {bits:#x}"));
            }
            // Scalar round trip keeps every bit
            use font_types::Scalar;
            let raw = bits.to_raw();
            if LookupFlag::from_raw(raw).to_bits() != bits || LookupFlag::from_raw(raw).to_raw() != raw {
                return Err(format!("scalar round trip {bits:#x}"));
            }
        }
        if LookupFlag::empty() != LookupFlag::default() {
            return Err("empty != default".into());
        }
        Ok(())
    });
}

fn value_record_sweep(ctx: &mut Ctx) {
    use read_fonts::ComputeSize;
    let data: Vec<u8> = (1..=20u8).collect();
    for raw in 0..=0x1FFu16 {
        let raw = if raw & 0x100 != 0 { raw | 0xFE00 } else { raw };
        for len in 0..=17usize {
            let input = format!("value_record {raw:#x} {}", hex(&data[..len]));
            let d = &data[..len];
            model(ctx, "valuerecord-model", input, || {
                let vf = ValueFormat::from_bits_truncate(raw);
                let need = 2 * (raw & 0xFF).count_ones() as usize;
                if vf.record_byte_len() != need {
                    return Err(format!("record_byte_len {} expected {need}", vf.record_byte_len()));
                }
                if ValueRecord::compute_size(&vf) != Ok(need) {
                    return Err("compute_size".into());
                }
                let r = ValueRecord::read(FontData::new(d), vf);
                let r2 = ValueRecord::read_with_args(FontData::new(d), &vf);
                if r.is_ok() != (len >= need) || r2.is_ok() != r.is_ok() {
                    return Err(format!("read ok={} with {len} bytes, needs {need}", r.is_ok()));
                }
                if let Ok(vr) = r {
                    // the fields are consumed in bit order
                    let mut at = 0usize;
                    let mut next = |present: bool| -> Option<u16> {
                        if present {
                            at += 2;
                            Some(u16::from_be_bytes([d[at - 2], d[at - 1]]))
                        } else {
                            None
                        }
                    };
                    let want = [next(raw & 1 != 0), next(raw & 2 != 0), next(raw & 4 != 0), next(raw & 8 != 0)];
                    let got = [vr.x_placement(), vr.y_placement(), vr.x_advance(), vr.y_advance()];
                    for k in 0..4 {
                        if got[k].map(|v| v as u16) != want[k] {
                            return Err(format!("field {k}: {:?} expected {:?}", got[k], want[k]));
                        }
                    }
                    let wantd = [next(raw & 0x10 != 0), next(raw & 0x20 != 0), next(raw & 0x40 != 0), next(raw & 0x80 != 0)];
                    let gotd = [vr.x_placement_device.get(), vr.y_placement_device.get(), vr.x_advance_device.get(), vr.y_advance_device.get()];
                    for k in 0..4 {
                        if gotd[k].offset().to_u32() != wantd[k].unwrap_or(0) as u32 {
                            return Err(format!("device offset {k}"));
                        }
                    }
                    if vr != r2.unwrap() {
                        return Err("read != read_with_args".into());
                    }
                }
                Ok(())
            });
        }
    }
    // getters / device resolution / Debug / traversal on records inside a data block
    let walk = |bytes: &[u8], o: &mut Obs| {
        let Some(raw) = r16(bytes, 0) else { return };
        let vf = ValueFormat::from_bits_truncate(raw);
        let data = FontData::new(bytes);
        if let Some(rest) = data.split_off(2) {
            let r = ValueRecord::read(rest, vf);
            if o.res(&r) {
                walk_value_record(o, &r.unwrap(), data, bytes.len());
            }
        }
    };
    let k = if ctx.thorough { 6 } else { 1 };
    for _ in 0..40 * k {
        let vf = value_format(&mut ctx.rng);
        let mut t = T::new();
        t.b.f16(vf);
        value_record(&mut ctx.rng, &mut t, vf);
        ctx.drive("value_record", &t.flat(), &walk);
    }
}

fn script_tags_sweep(ctx: &mut Ctx) {
    use read_fonts::tables::layout::{ScriptTags, UNICODE_TO_NEW_OPENTYPE_SCRIPT_TAGS};
    let mut tags: Vec<[u8; 4]> = UNICODE_TO_NEW_OPENTYPE_SCRIPT_TAGS.iter().map(|e| *e.0).collect();
    tags.extend([*b"Zmth", *b"Hira", *b"Kana", *b"Laoo", *b"Yiii", *b"Nkoo", *b"Vaii", *b"Latn", *b"    ", *b"~~~~", *b"Mymr", *b"Mymq", *b"Benf", *b"Bene"]);
    for _ in 0..200 {
        let mut t = [0u8; 4];
        for x in t.iter_mut() {
            *x = 0x20 + ctx.rng.below(0x5F) as u8;
        }
        tags.push(t);
    }
    let input = "script_tags.sweep".to_string();
    model(ctx, "scripttags-model", input, || {
        for t in &tags {
            let st = ScriptTags::from_unicode(Tag::new(t));
            let s = st.as_slice();
            if s.is_empty() || s.len() > 3 || &*st != s {
                return Err(format!("from_unicode({t:?}) len {}", s.len()));
            }
            let dbg = format!("{st:?}");
            if dbg.is_empty() {
                return Err("debug".into());
            }
            let is_new = UNICODE_TO_NEW_OPENTYPE_SCRIPT_TAGS.iter().any(|e| e.0 == t);
            let want = if !is_new {
                1
            } else if t == b"Mymr" {
                2
            } else {
                3
            };
            if s.len() != want {
                return Err(format!("from_unicode({t:?}) has {} tags, expected {want}", s.len()));
            }
            if st != st.clone() {
                return Err("eq".into());
            }
        }
        Ok(())
    });
}

/// sorted script / lang sys / feature lists: the binary searches against a linear model
fn tag_lookup_model(ctx: &mut Ctx) {
    let n_features = 1 + ctx.rng.below(5) as u16;
    let (sl, stags) = script_list(&mut ctx.rng, n_features, true);
    let (fl, ftags) = feature_list(&mut ctx.rng, n_features, 3);
    let slb = sl.flat();
    let flb = fl.flat();
    let input = format!("taglookup-model {} {}", hex(&slb.v), hex(&flb.v));
    model(ctx, "taglookup-model", input, || {
        let sl = lay::ScriptList::read(FontData::new(&slb.v)).map_err(|e| format!("{e:?}"))?;
        let fl = lay::FeatureList::read(FontData::new(&flb.v)).map_err(|e| format!("{e:?}"))?;
        for t in SCRIPT_TAGS.iter() {
            let want = stags.iter().position(|x| *x == tag32(t)).map(|i| i as u16);
            if sl.index_for_tag(Tag::new(t)) != want {
                return Err(format!("index_for_tag({t:?}) = {:?}, expected {want:?}", sl.index_for_tag(Tag::new(t))));
            }
        }
        // select: first requested tag that exists, else DFLT, dflt, latn
        for req in [vec![], vec![*b"qqqq", *b"thai", *b"arab"], vec![*b"latn"], vec![*b"zzzz", *b"AAAA"]] {
            let tags: Vec<Tag> = req.iter().map(|t| Tag::new(t)).collect();
            let mut want = None;
            for t in &req {
                if let Some(i) = stags.iter().position(|x| *x == tag32(t)) {
                    want = Some((tag32(t), i as u16, false));
                    break;
                }
            }
            if want.is_none() {
                for t in [b"DFLT", b"dflt", b"latn"] {
                    if let Some(i) = stags.iter().position(|x| *x == tag32(t)) {
                        want = Some((tag32(t), i as u16, true));
                        break;
                    }
                }
            }
            let got = sl.select(&tags).map(|s| (u32::from_be_bytes(s.tag.to_be_bytes()), s.index, s.is_fallback));
            if got != want {
                return Err(format!("select({req:?}) = {got:?}, expected {want:?}"));
            }
        }
        for i in 0..stags.len() as u16 + 2 {
            let r = sl.get(i);
            if r.is_ok() != ((i as usize) < stags.len()) {
                return Err(format!("ScriptList::get({i}) ok={}", r.is_ok()));
            }
            let Ok(te) = r else { continue };
            if u32::from_be_bytes(te.tag.to_be_bytes()) != stags[i as usize] {
                return Err(format!("ScriptList::get({i}) tag"));
            }
            let s = &te.element;
            let ltags: Vec<u32> = s.lang_sys_records().iter().map(|r| u32::from_be_bytes(r.lang_sys_tag().to_be_bytes())).collect();
            for t in LANG_TAGS.iter() {
                let want = ltags.iter().position(|x| *x == tag32(t)).map(|i| i as u16);
                if s.lang_sys_index_for_tag(Tag::new(t)) != want {
                    return Err(format!("lang_sys_index_for_tag({t:?}) in {ltags:x?}"));
                }
            }
            for j in 0..ltags.len() as u16 + 2 {
                let r = s.lang_sys(j);
                if r.is_ok() != ((j as usize) < ltags.len()) {
                    return Err(format!("Script::lang_sys({j}) ok={}", r.is_ok()));
                }
                let Ok(ls) = r else { continue };
                for t in FEATURE_TAGS.iter() {
                    let want = ls.feature_indices().iter().map(|x| x.get()).find(|ix| ftags.get(*ix as usize) == Some(&tag32(t)));
                    if ls.feature_index_for_tag(&fl, Tag::new(t)) != want {
                        return Err(format!("feature_index_for_tag({t:?})"));
                    }
                }
            }
        }
        for i in 0..ftags.len() as u16 + 2 {
            let r = fl.get(i);
            if r.is_ok() != ((i as usize) < ftags.len()) {
                // a feature whose params fail to parse is still Ok (params are resolved lazily)
                return Err(format!("FeatureList::get({i}) ok={}", r.is_ok()));
            }
        }
        Ok(())
    });
}

fn run_layout_tables(ctx: &mut Ctx, k: usize) {
    lookup_flag_sweep(ctx);
    script_tags_sweep(ctx);
    value_record_sweep(ctx);
    for _ in 0..150 * k {
        tag_lookup_model(ctx);
    }
    // script lists alone (sorted and unsorted tags)
    for round in 0..24 * k {
        let (sl, _) = script_list(&mut ctx.rng, 3, round % 2 == 0);
        ctx.drive("script_list", &sl.flat(), &walk_script_list_bytes);
    }
    // feature params / features under every tag class
    for round in 0..30 * k {
        let tag = tag32(FEATURE_TAGS[round % FEATURE_TAGS.len()]);
        let read_as = if round % 7 == 6 { tag32(b"cv01") } else { tag };
        let f = walk_feature_params(Tag::new(&read_as.to_be_bytes()));
        let fp = feature_params(&mut ctx.rng, tag);
        ctx.drive("feature_params", &fp, &f);
        let ft = feature(&mut ctx.rng, tag, 4);
        ctx.drive("feature", &ft.flat(), &f);
    }
    // bare lookups
    let lk = Lk { uni: 30, n_lookups: 4, n_classes: 3, seq_den: 10 };
    for _ in 0..24 * k {
        let l = gsub_lookup(&mut ctx.rng, &lk, true);
        ctx.drive("lookup", &l.flat(), &walk_lookup);
    }
    // anchors
    for _ in 0..30 * k {
        let a = anchor(&mut ctx.rng);
        ctx.drive("anchor", &a.flat(), &walk_anchor_bytes);
    }
    // whole GSUB / GPOS tables
    for round in 0..14 * k {
        let lk = Lk { uni: *ctx.rng.pick(&[12u32, 40, 0x1_0000]), n_lookups: 1 + ctx.rng.below(4) as u16, n_classes: 3, seq_den: 10 };
        let b = layout_table(&mut ctx.rng, &lk, round % 2 == 0, true, &gsub_lookup);
        ctx.count_n("gsub.bytes", b.len() as u64);
        ctx.drive("gsub", &b, &walk_gsub);
        let b = layout_table(&mut ctx.rng, &lk, round % 2 == 0, true, &gpos_lookup);
        ctx.count_n("gpos.bytes", b.len() as u64);
        ctx.drive("gpos", &b, &walk_gpos);
    }
    // every lookup type x extension type with one minimal subtable each
    for ty in 0..=10u16 {
        for ext in 0..=10u16 {
            let lk = Lk { uni: 10, n_lookups: 1, n_classes: 2, seq_den: 10 };
            for gp in [false, true] {
                let ext_code = if gp { 9 } else { 7 };
                if ty != ext_code && ext != 0 {
                    continue;
                }
                let mk = |rng: &mut Rng, k: &Lk, _r: bool| -> T {
                    let sub = if ty == ext_code {
                        let inner = if gp { gpos_subtable(rng, ext, k) } else { gsub_subtable(rng, ext, k) };
                        extension(ext, inner)
                    } else if gp {
                        gpos_subtable(rng, ty, k)
                    } else {
                        gsub_subtable(rng, ty, k)
                    };
                    lookup(rng, ty, vec![sub], true)
                };
                let b = layout_table(&mut ctx.rng, &lk, true, true, &mk);
                ctx.count(&format!("{}.type{ty}.ext{ext}", if gp { "gpos" } else { "gsub" }));
                if gp {
                    ctx.call("gpos", &b.v, &walk_gpos);
                } else {
                    ctx.call("gsub", &b.v, &walk_gsub);
                }
            }
        }
    }
    ctx.drive_random("gsub", 300 * k, 64, &walk_gsub);
    ctx.drive_random("gpos", 300 * k, 64, &walk_gpos);
}

// ------------------------------------------------------------------------------------------------
// group layout.closure: gsub/closure.rs, layout/closure.rs, gpos/closure.rs

/// coverage that mostly hits the small glyph universe (so that lookups actually fire)
fn cov_hit(rng: &mut Rng, k: &Lk) -> B {
    let uni = k.uni;
    if k.seq_den != u64::MAX && rng.chance(1, 4) {
        // hostile shapes, but no huge ranges (every closure pass iterates the whole coverage)
        let b = cov_any(rng, uni, false);
        if cov_raw(&b.v).2 > 600 {
            cov_good(rng, uni, false).0
        } else {
            b
        }
    } else if rng.chance(1, 3) {
        // dense: every glyph of the universe
        cov2(&[(0, uni as u16 - 1, 0)], false)
    } else {
        cov_good(rng, uni, false).0
    }
}

/// contextual subtable with friendly coverage / classes and lookup records that point at any lookup
/// (itself included), with sequence indices around the input length
fn closure_context(rng: &mut Rng, k: &Lk, chained: bool) -> T {
    let fmt = 1 + rng.below(3);
    let mut t = T::new();
    t.b.u16(fmt as u16);
    let short_seq = |rng: &mut Rng, b: &mut B, uni: u32, n: u16| {
        for _ in 0..n {
            b.u16(rng.below(uni as u64) as u16);
        }
    };
    if fmt == 3 {
        if chained {
            let nb = rng.below(2) as u16;
            t.b.f16(nb);
            for _ in 0..nb {
                t.off16(T::of(cov_hit(rng, k)));
            }
        }
        let ni = 1 + rng.below(3) as u16;
        if chained {
            t.b.f16(ni);
        } else {
            let nl = 1 + rng.below(3) as u16;
            t.b.f16(ni).f16(nl);
            for _ in 0..ni {
                t.off16(T::of(cov_hit(rng, k)));
            }
            seq_lookup_body_h(rng, &mut t.b, nl, ni - 1, k.n_lookups, k.seq_den);
            return t;
        }
        for _ in 0..ni {
            t.off16(T::of(cov_hit(rng, k)));
        }
        let na = rng.below(2) as u16;
        t.b.f16(na);
        for _ in 0..na {
            t.off16(T::of(cov_hit(rng, k)));
        }
        let nl = 1 + rng.below(3) as u16;
        t.b.f16(nl);
        seq_lookup_body_h(rng, &mut t.b, nl, ni - 1, k.n_lookups, k.seq_den);
        return t;
    }
    let classes = fmt == 2;
    t.off16(T::of(cov_hit(rng, k)));
    if classes {
        for _ in 0..(if chained { 3 } else { 1 }) {
            let cd = if k.seq_den != u64::MAX && rng.chance(1, 4) { class_any(rng, k.uni, k.n_classes, false) } else { class_good(rng, k.uni, k.n_classes, false).0 };
            t.off16(T::of(cd));
        }
    }
    let seq_uni = if classes { k.n_classes as u32 + 1 } else { k.uni };
    let n_sets = if classes { k.n_classes + 1 } else { 1 + rng.below(4) as u16 };
    t.b.f16(n_sets);
    for _ in 0..n_sets {
        if rng.chance(1, 6) {
            t.b.f16(0);
            continue;
        }
        let mut set = T::new();
        let m = 1 + rng.below(2) as u16;
        set.b.f16(m);
        for _ in 0..m {
            let mut rule = T::new();
            let gc = 1 + rng.below(3) as u16;
            let nl = 1 + rng.below(3) as u16;
            if chained {
                let nb = rng.below(2) as u16;
                rule.b.f16(nb);
                short_seq(rng, &mut rule.b, seq_uni, nb);
                rule.b.f16(gc);
                short_seq(rng, &mut rule.b, seq_uni, gc - 1);
                let na = rng.below(2) as u16;
                rule.b.f16(na);
                short_seq(rng, &mut rule.b, seq_uni, na);
                rule.b.f16(nl);
            } else {
                rule.b.f16(gc).f16(nl);
                short_seq(rng, &mut rule.b, seq_uni, gc - 1);
            }
            seq_lookup_body_h(rng, &mut rule.b, nl, gc - 1, k.n_lookups, k.seq_den);
            set.off16(rule);
        }
        t.off16(set);
    }
    t
}

fn closure_subtable(rng: &mut Rng, ty: u16, k: &Lk) -> T {
    let mut t = T::new();
    match ty {
        1 => {
            if rng.chance(1, 2) {
                t.b.u16(1);
                t.off16(T::of(cov_hit(rng, k)));
                t.b.i16(*rng.pick(&[1i16, -1, 3, 30, -30, i16::MAX, i16::MIN]));
            } else {
                t.b.u16(2);
                t.off16(T::of(cov_hit(rng, k)));
                let n = rng.below(k.uni as u64 + 2) as u16;
                t.b.f16(n);
                glyph_seq(rng, k.uni + 6, &mut t.b, n);
            }
            t
        }
        2 | 3 => {
            t.b.u16(1);
            t.off16(T::of(cov_hit(rng, k)));
            let n = rng.below(6) as u16;
            t.b.f16(n);
            for _ in 0..n {
                let mut s = T::new();
                // sometimes a substitution that produces many glyphs
                let m = if rng.chance(1, 8) { 100 + rng.below(300) as u16 } else { rng.below(4) as u16 };
                s.b.f16(m);
                for j in 0..m {
                    s.b.u16(if m > 50 { 1000 + j * 7 } else { rng.below(k.uni as u64 + 10) as u16 });
                }
                t.off16(s);
            }
            t
        }
        4 => {
            t.b.u16(1);
            t.off16(T::of(cov_hit(rng, k)));
            let n = rng.below(5) as u16;
            t.b.f16(n);
            for _ in 0..n {
                let mut set = T::new();
                let m = rng.below(3) as u16;
                set.b.f16(m);
                for _ in 0..m {
                    let mut lig = T::new();
                    lig.b.u16(rng.below(k.uni as u64 + 20) as u16);
                    let cc = rng.below(4) as u16;
                    lig.b.f16(cc);
                    glyph_seq(rng, k.uni, &mut lig.b, cc.saturating_sub(1));
                    set.off16(lig);
                }
                t.off16(set);
            }
            t
        }
        5 => closure_context(rng, k, false),
        6 => closure_context(rng, k, true),
        8 => {
            t.b.u16(1);
            t.off16(T::of(cov_hit(rng, k)));
            for _ in 0..2 {
                let n = rng.below(2) as u16;
                t.b.f16(n);
                for _ in 0..n {
                    t.off16(T::of(cov_hit(rng, k)));
                }
            }
            let n = rng.below(k.uni as u64) as u16;
            t.b.f16(n);
            glyph_seq(rng, k.uni + 8, &mut t.b, n);
            t
        }
        _ => gsub_subtable(rng, ty, k),
    }
}

fn closure_lookup(rng: &mut Rng, k: &Lk, _reg: bool) -> T {
    let hostile = k.seq_den != u64::MAX;
    let ty = if hostile { *rng.pick(&[1u16, 1, 2, 3, 4, 5, 5, 5, 6, 6, 6, 8, 7, 7, 0]) } else { *rng.pick(&[1u16, 1, 2, 3, 4, 5, 5, 5, 6, 6, 6, 8, 7, 7]) };
    let n = 1 + rng.below(2) as usize;
    if ty == 7 {
        let ext_ty = if hostile { *rng.pick(&[1u16, 2, 4, 5, 5, 6, 6, 8, 7]) } else { *rng.pick(&[1u16, 2, 3, 4, 5, 5, 6, 6, 8]) };
        let subs: Vec<T> = (0..n)
            .map(|_| {
                let inner = closure_subtable(rng, ext_ty, k);
                extension(ext_ty, inner)
            })
            .collect();
        lookup(rng, 7, subs, false)
    } else {
        let subs: Vec<T> = (0..n).map(|_| closure_subtable(rng, ty, k)).collect();
        lookup(rng, ty, subs, false)
    }
}

/// GSUB whose features reach every lookup (and one index beyond the list)
fn closure_gsub(rng: &mut Rng, k: &Lk) -> B {
    let mut t = T::new();
    let v11 = rng.chance(1, 3);
    t.b.u16(1).u16(if v11 { 1 } else { 0 });
    let (sl, _) = script_list(rng, 2, true);
    t.off16(sl);
    let mut fl = T::new();
    fl.b.f16(2);
    for (i, tg) in [b"calt", b"liga"].iter().enumerate() {
        fl.b.u32(tag32(tg));
        let mut f = T::new();
        f.b.u16(0);
        let ids: Vec<u16> = if i == 0 {
            (0..k.n_lookups).collect()
        } else if k.seq_den != u64::MAX && rng.chance(1, 2) {
            vec![k.n_lookups]
        } else {
            vec![rng.below(k.n_lookups as u64) as u16]
        };
        f.b.f16(ids.len() as u16);
        for ix in ids {
            f.b.f16(ix);
        }
        fl.off16(f);
    }
    t.off16(fl);
    let mut ll = T::new();
    ll.b.f16(k.n_lookups);
    for _ in 0..k.n_lookups {
        let l = closure_lookup(rng, k, false);
        ll.off16(l);
    }
    t.off16(ll);
    if v11 {
        let fv = if k.seq_den != u64::MAX {
            feature_variations(rng, 2, k.n_lookups)
        } else {
            // one record, no conditions, one alternate feature with valid lookup indices
            let mut fv = T::new();
            fv.b.u16(1).u16(0).f32(1).f32(0);
            let mut fs = T::new();
            fs.b.u16(1).u16(0).f16(1).f16(0);
            let mut f = T::new();
            f.b.u16(0).f16(1).f16(rng.below(k.n_lookups as u64) as u16);
            fs.off32(f);
            fv.off32(fs);
            fv
        };
        t.off32(fv);
    }
    t.flat()
}

fn g16set(r: std::ops::RangeInclusive<u16>) -> IntSet<GlyphId16> {
    let mut s = IntSet::empty();
    s.insert_range(GlyphId16::new(*r.start())..=GlyphId16::new(*r.end()));
    s
}

fn walk_closure_sets(sets: Vec<IntSet<GlyphId16>>) -> impl Fn(&[u8], &mut Obs) {
    move |bytes: &[u8], o: &mut Obs| {
        let Ok(gsub) = Gsub::read(FontData::new(bytes)) else {
            o.note(0);
            return;
        };
        for s in &sets {
            let r = gsub.closure_glyphs(s.clone());
            if o.res(&r) {
                let out = r.unwrap();
                o.note(out.len());
                o.drain("closure_glyphs", 0x1_0001, out.iter(), |o, g| o.note(g.to_u16() as u64));
            }
        }
    }
}

fn tagset(tags: &[&[u8; 4]]) -> IntSet<Tag> {
    tags.iter().map(|t| Tag::new(t)).collect()
}

fn walk_collect_features(bytes: &[u8], o: &mut Obs) {
    let scripts = [tagset(&SCRIPT_TAGS), IntSet::all(), IntSet::empty(), tagset(&[b"DFLT", b"qqqq"]), {
        let mut s: IntSet<Tag> = IntSet::all();
        s.remove(Tag::new(b"latn"));
        s
    }];
    let langs = [IntSet::all(), tagset(&LANG_TAGS), IntSet::empty()];
    let feats = [IntSet::all(), tagset(&[b"liga", b"kern", b"ss01"]), IntSet::empty()];
    let run = |o: &mut Obs, n_features: usize, f: &dyn Fn(&IntSet<Tag>, &IntSet<Tag>, &IntSet<Tag>) -> Result<IntSet<u16>, read_fonts::ReadError>| {
        for (i, s) in scripts.iter().enumerate() {
            for (j, l) in langs.iter().enumerate() {
                // all feature sets with the first script / language sets, the first otherwise
                for ft in feats.iter().take(if i + j == 0 { 3 } else { 1 + (i + j) % 2 }) {
                    let r = f(s, l, ft);
                    if o.res(&r) {
                        o.drain("collect_features", n_features + 1, r.unwrap().iter(), |o, ix| o.note(ix as u64));
                    }
                }
            }
        }
    };
    if let Ok(gsub) = Gsub::read(FontData::new(bytes)) {
        let n = gsub.feature_list().map(|f| f.feature_count() as usize).unwrap_or(0);
        run(o, n, &|s, l, f| gsub.collect_features(s, l, f));
    }
    if let Ok(gp) = Gpos::read(FontData::new(bytes)) {
        let n = gp.feature_list().map(|f| f.feature_count() as usize).unwrap_or(0);
        run(o, n, &|s, l, f| gp.collect_features(s, l, f));
    }
}

/// script / feature list heavy table (no lookups)
fn collect_table(rng: &mut Rng, many: bool) -> B {
    let n_features = if many { 8 + rng.below(8) as u16 } else { rng.below(5) as u16 };
    let mut t = T::new();
    t.b.u16(1).u16(0);
    let sorted = rng.chance(2, 3);
    let (mut sl, _) = script_list(rng, n_features, sorted);
    if many {
        // many script records sharing few script tables: the visited sets
        sl = T::new();
        let n = 20 + rng.below(30) as u16;
        sl.b.f16(n);
        let shared = script(rng, n_features, true).flat();
        for i in 0..n {
            sl.b.u32(0x6100_0000 + i as u32);
            sl.b.f16(2 + 6 * n);
        }
        sl.b.append(&shared);
    }
    t.off16(sl);
    let (fl, _) = feature_list(rng, n_features, 0);
    t.off16(fl);
    let mut ll = T::new();
    ll.b.f16(0);
    t.off16(ll);
    t.flat()
}

/// more scripts / language systems / feature indices than MAX_SCRIPTS (500), MAX_LANGSYS (2000),
/// MAX_FEATURE_INDICES (1500); the second language system pushes the u16 feature index counter over
/// 0xFFFF
fn collect_limits_table() -> Vec<u8> {
    let mut b = B::new();
    b.u16(1).u16(0).u16(0).u16(10).u16(0);
    // FeatureList @10: 3 features without lookups
    b.u16(3);
    for (i, t) in [b"calt", b"kern", b"liga"].iter().enumerate() {
        b.tag(t).u16(20 + 4 * i as u16);
    }
    for _ in 0..3 {
        b.u16(0).u16(0);
    }
    let sl_at = b.len();
    b.set16(4, sl_at as u16);
    let n_scripts = 600u16;
    let n_langs = 2100u16;
    let s0 = 2 + 6 * n_scripts as usize;
    let s0_len = 4 + 6 * n_langs as usize;
    let l0_len = 6 + 2 * 1000;
    let s1 = s0 + s0_len + l0_len;
    b.u16(n_scripts);
    for i in 0..n_scripts {
        b.u32(0x6161_0000 + i as u32).u16(if i == 1 { s1 as u16 } else { s0 as u16 });
    }
    // S0: default + 2100 records, all the same LangSys L0 (1000 feature indices)
    b.u16(s0_len as u16).u16(n_langs);
    for i in 0..n_langs {
        b.u32(0x4100_0000 + i as u32).u16(s0_len as u16);
    }
    b.u16(0).u16(0xFFFF).u16(1000);
    for _ in 0..1000u16 {
        b.u16(3); // beyond the feature list: the filter set stays non empty
    }
    // S1: default LangSys L1 with 65000 feature indices
    b.u16(4).u16(0);
    b.u16(0).u16(1).u16(65000);
    for i in 0..65000u16 {
        b.u16(i % 3);
    }
    b.v
}

/// smallest GSUB with a contextual rule whose lookup record has sequence_index 1 but no input glyphs
fn min_context_gsub(fmt2: bool) -> Vec<u8> {
    let mut t = T::new();
    t.b.u16(1).u16(0);
    let mut sl = T::new();
    sl.b.u16(0);
    t.off16(sl);
    let mut fl = T::new();
    fl.b.u16(1).u32(tag32(b"calt"));
    let mut f = T::new();
    f.b.u16(0).u16(1).u16(0);
    fl.off16(f);
    t.off16(fl);
    let mut ll = T::new();
    ll.b.u16(1);
    let mut l = T::new();
    l.b.u16(5).u16(0).u16(1);
    let mut st = T::new();
    st.b.u16(if fmt2 { 2 } else { 1 });
    st.off16(T::of(cov1(&[0], false)));
    if fmt2 {
        st.off16(T::of(class1(0, &[0], false)));
    }
    st.b.u16(1);
    let mut set = T::new();
    set.b.u16(1);
    let mut rule = T::new();
    rule.b.u16(1).u16(1).u16(1).u16(0);
    set.off16(rule);
    st.off16(set);
    l.off16(st);
    ll.off16(l);
    t.off16(ll);
    t.flat().v
}

pub fn run_closure(ctx: &mut Ctx) {
    let k = if ctx.thorough { 6 } else { 1 };
    let f = walk_closure_sets(vec![g16set(0..=0)]);
    probe(ctx, "gsub.closure.context1.sequence-index", &min_context_gsub(false), &f);
    probe(ctx, "gsub.closure.context2.sequence-index", &min_context_gsub(true), &f);
    for round in 0..36 * k {
        let uni = *ctx.rng.pick(&[8u32, 16, 24]);
        let lk = Lk { uni, n_lookups: 2 + ctx.rng.below(3) as u16, n_classes: 2, seq_den: if round % 4 == 0 { 30 } else { u64::MAX } };
        let b = closure_gsub(&mut ctx.rng, &lk);
        ctx.count_n("gsub.bytes", b.len() as u64);
        ctx.count_n("gsub.fields", b.fields.len() as u64);
        let mut sets = vec![g16set(0..=(uni as u16 - 1)), [GlyphId16::new(0), GlyphId16::new(2), GlyphId16::new(uni as u16 / 2)].into_iter().collect()];
        if round % 4 == 0 {
            sets.push(IntSet::empty());
        }
        let f = walk_closure_sets(sets);
        // deterministic cost proxy: a closure that reaches many glyphs is expensive per call, so only
        // every 4th field of such a base is swept
        let reached = Gsub::read(FontData::new(&b.v)).ok().and_then(|g| catch(|| g.closure_glyphs(g16set(0..=(uni as u16 - 1))).map(|s| s.len()).unwrap_or(0)).ok()).unwrap_or(0);
        let mut b = b;
        if reached > 0 {
            ctx.count("gsub.closure-ok");
        }
        if reached > 100 {
            ctx.count("gsub.thinned");
            let mut i = 0;
            b.fields.retain(|_| {
                i += 1;
                i % 4 == 0
            });
        }
        ctx.drive("closure_glyphs", &b, &f);
        // the unmodified table with the full glyph space and single glyphs
        let mut more = vec![g16set(0..=0xFFFF), g16set(0xFFF0..=0xFFFF)];
        for g in 0..uni.min(6) as u16 {
            more.push([GlyphId16::new(g)].into_iter().collect());
        }
        let f = walk_closure_sets(more);
        ctx.call("closure_glyphs.full", &b.v, &f);
    }
    // collect_features
    for round in 0..30 * k {
        let b = collect_table(&mut ctx.rng, round % 5 == 4);
        ctx.drive("collect_features", &b, &walk_collect_features);
    }
    ctx.call("collect_features.limits", &collect_limits_table(), &walk_collect_features);
    let f = walk_closure_sets(vec![g16set(0..=40)]);
    ctx.drive_random("closure_glyphs", 300 * k, 96, &f);
    ctx.drive_random("collect_features", 300 * k, 64, &walk_collect_features);
}

// ------------------------------------------------------------------------------------------------
// group colr: colr.rs, colr/closure.rs

struct PaintEnv {
    n_layers: u32,
    base_gids: Vec<u16>,
}

fn var_base(rng: &mut Rng) -> u32 {
    match rng.below(40) {
        0 | 4 | 5 => 0xFFFF_FFFF,
        1 => 0xFFFF_FFFE,
        2 => 0xFFFF_FFFF - rng.below(8) as u32,
        3 => 0,
        _ => rng.below(200) as u32,
    }
}

fn color_line(rng: &mut Rng, var: bool) -> T {
    let mut t = T::new();
    t.b.u8(*rng.pick(&[0u8, 1, 2, 3, 0xFF]));
    let n = rng.below(4) as u16;
    t.b.f16(n);
    for _ in 0..n {
        t.b.u16(rng.next() as u16).u16(*rng.pick(&[0u16, 1, 2, 0xFFFF])).u16(0x4000);
        if var {
            t.b.f32(var_base(rng));
        }
    }
    t
}

fn words(rng: &mut Rng, b: &mut B, n: usize) {
    for _ in 0..n {
        b.u16(rng.next() as u16);
    }
}

/// one paint of format `fmt` (children generated recursively, depth limited)
fn paint_fmt(rng: &mut Rng, fmt: u8, depth: u32, env: &PaintEnv) -> T {
    let mut t = T::new();
    t.b.u8(fmt);
    let child = |rng: &mut Rng| -> T {
        if depth >= 5 {
            paint_fmt(rng, 2, depth + 1, env)
        } else {
            paint(rng, depth + 1, env)
        }
    };
    let var = fmt % 2 == 1 && fmt >= 3;
    match fmt {
        1 => {
            let n = rng.below(4) as u8;
            let first = match rng.below(30) {
                0 => 0xFFFF_FFFF,
                1 => 0xFFFF_FFFF - rng.below(4) as u32,
                2 | 3 | 4 => env.n_layers,
                _ => rng.below(env.n_layers as u64 + 1) as u32,
            };
            t.b.f8(if rng.chance(1, 10) { 255 } else { n }).f32(first);
        }
        2 | 3 => {
            t.b.u16(*rng.pick(&[0u16, 1, 5, 0xFFFF])).u16(0x4000);
        }
        4 | 5 | 6 | 7 => {
            t.off24(color_line(rng, var));
            words(rng, &mut t.b, 6);
        }
        8 | 9 => {
            t.off24(color_line(rng, var));
            words(rng, &mut t.b, 4);
        }
        10 => {
            let c = child(rng);
            t.off24(c);
            t.b.u16(rng.below(60) as u16);
        }
        11 => {
            // PaintColrGlyph: mostly an existing base glyph (cycles included)
            let g = if env.base_gids.is_empty() || rng.chance(1, 5) { rng.below(60) as u16 } else { *rng.pick(&env.base_gids) };
            t.b.f16(g);
        }
        12 | 13 => {
            let c = child(rng);
            t.off24(c);
            let mut aff = T::new();
            words(rng, &mut aff.b, 12);
            if var {
                aff.b.f32(var_base(rng));
            }
            t.off24(aff);
            return t;
        }
        32 => {
            let c = child(rng);
            t.off24(c);
            t.b.u8(rng.below(30) as u8);
            let c = child(rng);
            t.off24(c);
        }
        14..=31 => {
            let c = child(rng);
            t.off24(c);
            let n = match fmt {
                14 | 15 | 16 | 17 | 28 | 29 => 2,
                18 | 19 | 30 | 31 => 4,
                20 | 21 | 24 | 25 => 1,
                _ => 3,
            };
            words(rng, &mut t.b, n);
        }
        _ => {
            t.b.bytes(&rng.bytes(6));
        }
    }
    if var {
        t.b.f32(var_base(rng));
    }
    t
}

fn paint(rng: &mut Rng, depth: u32, env: &PaintEnv) -> T {
    let fmt = match rng.below(12) {
        0 => 0,
        1 => 33 + rng.below(3) as u8,
        2 | 3 => 1,
        4 | 5 => 11,
        6 => 10,
        7 => 32,
        _ => 1 + rng.below(32) as u8,
    };
    paint_fmt(rng, fmt, depth, env)
}

struct ColrSpec {
    version: u16,
    sorted: bool,
}

fn colr_table(rng: &mut Rng, spec: &ColrSpec) -> B {
    let mut t = T::new();
    t.b.f16(spec.version);
    // v0 records
    let nb = rng.below(5) as u16;
    let nl = rng.below(6) as u16;
    let mut gids: Vec<u16> = (0..nb).map(|_| rng.below(40) as u16).collect();
    if spec.sorted {
        gids.sort();
        gids.dedup();
    }
    t.b.f16(gids.len() as u16);
    if gids.is_empty() && rng.chance(1, 2) {
        t.b.f32(0);
    } else {
        let mut r = T::new();
        for g in &gids {
            // first_layer_index + num_layers around the layer count / 0xFFFF
            let first = match rng.below(6) {
                0 => 0xFFFF,
                1 => nl,
                _ => rng.below(nl as u64 + 1) as u16,
            };
            let num = match rng.below(6) {
                0 => 0xFFFF,
                1 => nl + 1,
                _ => rng.below(nl as u64 + 1) as u16,
            };
            r.b.f16(*g).f16(first).f16(num);
        }
        t.off32(r);
    }
    if nl == 0 && rng.chance(1, 2) {
        t.b.f32(0);
    } else {
        let mut r = T::new();
        for _ in 0..nl {
            r.b.u16(rng.below(60) as u16).u16(*rng.pick(&[0u16, 1, 2, 0xFFFF]));
        }
        t.off32(r);
    }
    t.b.f16(nl);
    if spec.version == 0 {
        return t.flat();
    }
    // v1
    let n_paint_glyphs = rng.below(5) as u32;
    let mut pg: Vec<u16> = (0..n_paint_glyphs).map(|_| rng.below(40) as u16).collect();
    if spec.sorted {
        pg.sort();
        pg.dedup();
    }
    let n_layers = rng.below(5) as u32;
    let env = PaintEnv { n_layers, base_gids: pg.clone() };
    if pg.is_empty() && rng.chance(1, 2) {
        t.b.f32(0);
    } else {
        let mut bl = T::new();
        bl.b.f32(pg.len() as u32);
        for g in &pg {
            bl.b.f16(*g);
            let p = paint(rng, 0, &env);
            bl.off32(p);
        }
        t.off32(bl);
    }
    if n_layers == 0 && rng.chance(1, 2) {
        t.b.f32(0);
    } else {
        let mut ll = T::new();
        ll.b.f32(n_layers);
        for _ in 0..n_layers {
            let p = paint(rng, 1, &env);
            ll.off32(p);
        }
        t.off32(ll);
    }
    if rng.chance(1, 4) {
        t.b.f32(0);
    } else {
        let mut cl = T::new();
        let mut ranges: Vec<(u16, u16)> = if spec.sorted {
            sorted_ranges(rng, 60, 4)
        } else {
            (0..rng.below(4))
                .map(|_| {
                    let s = rng.below(40) as u16;
                    (s, if rng.chance(1, 3) { s.saturating_sub(2) } else { s + rng.below(5) as u16 })
                })
                .collect()
        };
        if rng.chance(1, 8) {
            ranges.push((0xFFF0, 0xFFFF));
        }
        cl.b.u8(1).f32(ranges.len() as u32);
        for (s, e) in ranges {
            cl.b.f16(s).f16(e);
            let mut cb = T::new();
            let f = *rng.pick(&[1u8, 2, 2, 0, 3]);
            cb.b.u8(f);
            words(rng, &mut cb.b, 4);
            if f == 2 {
                cb.b.f32(var_base(rng));
            }
            cl.off24(cb);
        }
        t.off32(cl);
    }
    // var index map / item variation store: null or a few bytes
    for _ in 0..2 {
        if rng.chance(2, 3) {
            t.b.f32(0);
        } else {
            let mut g = T::new();
            g.b.bytes(&rng.bytes(10));
            t.off32(g);
        }
    }
    t.flat()
}

/// COLR v1 header + BaseGlyphList whose records point at `paints` bytes (absolute positions given
/// relative to the start of `paints`)
fn colr_v1_raw(records: &[(u16, u32)], layers: &[u32], paints: &[u8]) -> Vec<u8> {
    let mut b = B::new();
    b.u16(1).u16(0).u32(0).u32(0).u16(0);
    let hdr = 34u32;
    let bl_len = 4 + 6 * records.len() as u32;
    let ll_len = 4 + 4 * layers.len() as u32;
    b.u32(hdr).u32(hdr + bl_len).u32(0).u32(0).u32(0);
    // BaseGlyphList
    b.u32(records.len() as u32);
    for (g, at) in records {
        b.u16(*g).u32(bl_len + ll_len + at);
    }
    // LayerList
    b.u32(layers.len() as u32);
    for at in layers {
        b.u32(ll_len + at);
    }
    b.bytes(paints);
    b.v
}

/// chain of `depth` PaintRotate tables ending in a PaintSolid
fn deep_chain(depth: usize) -> Vec<u8> {
    let mut p = Vec::with_capacity(depth * 6 + 5);
    for _ in 0..depth {
        p.extend_from_slice(&[24, 0, 0, 6, 0x10, 0]);
    }
    p.extend_from_slice(&[2, 0, 1, 0x40, 0]);
    p
}

fn paint_digest(o: &mut Obs, p: &read_fonts::tables::colr::Paint) {
    o.note(p.format() as u64);
    o.note(p.offset_data().len() as u64);
}

fn colr_gids(colr: &Colr) -> Vec<u32> {
    let mut vals: Vec<u32> = vec![];
    if let Some(Ok(recs)) = colr.base_glyph_records() {
        vals.extend(recs.iter().take(5).map(|r| r.glyph_id().to_u16() as u32));
        vals.extend(recs.last().map(|r| r.glyph_id().to_u16() as u32));
    }
    if let Some(Ok(bl)) = colr.base_glyph_list() {
        let recs = bl.base_glyph_paint_records();
        vals.extend(recs.iter().take(5).map(|r| r.glyph_id().to_u16() as u32));
        vals.extend(recs.last().map(|r| r.glyph_id().to_u16() as u32));
    }
    if let Some(Ok(cl)) = colr.clip_list() {
        for c in cl.clips().iter().take(4) {
            vals.push(c.start_glyph_id().to_u16() as u32);
            vals.push(c.end_glyph_id().to_u16() as u32);
        }
    }
    vals
}

fn drain_set<D: read_fonts::collections::int_set::Domain>(o: &mut Obs, name: &str, cap: usize, s: &IntSet<D>, f: impl Fn(D) -> u64) {
    o.note(s.len());
    o.drain(name, cap, s.iter(), |o, x| o.note(f(x)));
}

fn walk_colr_closures(colr: &Colr, len: usize, set: &IntSet<GlyphId>, o: &mut Obs) {
    let n = set.len() as usize;
    let mut out = IntSet::empty();
    colr.v0_closure_glyphs(set, &mut out);
    drain_set(o, "v0_closure_glyphs", n + len / 4 + 1, &out, |g| g.to_u32() as u64);
    let mut pal = IntSet::empty();
    colr.v0_closure_palette_indices(set, &mut pal);
    drain_set(o, "v0_closure_palette_indices", len / 4 + 1, &pal, |p| p as u64);
    let mut gs = set.clone();
    let (mut layers, mut pal, mut vars) = (IntSet::<u32>::empty(), IntSet::<u16>::empty(), IntSet::<u32>::empty());
    colr.v1_closure(&mut gs, &mut layers, &mut pal, &mut vars);
    drain_set(o, "v1_closure.glyphs", n + len / 2 + 1, &gs, |g| g.to_u32() as u64);
    drain_set(o, "v1_closure.layers", 255 * (len / 6 + 1), &layers, |x| x as u64);
    drain_set(o, "v1_closure.palette", len / 2 + 1, &pal, |x| x as u64);
    drain_set(o, "v1_closure.variations", 2 * len + 1, &vars, |x| x as u64);
}

fn walk_colr(bytes: &[u8], o: &mut Obs) {
    let Ok(colr) = Colr::read(FontData::new(bytes)) else {
        o.note(0);
        return;
    };
    let len = bytes.len();
    let vals = colr_gids(&colr);
    let mut gids: Vec<u32> = edge16(&vals).into_iter().map(|g| g as u32).collect();
    gids.extend([0x1_0000, u32::MAX]);
    for g in &gids {
        let gid = GlyphId::new(*g);
        let r = colr.v0_base_glyph(gid);
        if o.res(&r) {
            if let Some(range) = r.unwrap() {
                o.note(range.start as u64);
                o.note(range.end as u64);
                for i in [range.start, range.end.wrapping_sub(1), range.end] {
                    let l = colr.v0_layer(i);
                    if o.res(&l) {
                        let (g, p) = l.unwrap();
                        o.note(((g.to_u16() as u64) << 16) | p as u64);
                    }
                }
            }
        }
        let r = colr.v1_base_glyph(gid);
        if o.res(&r) {
            if let Some((p, _id)) = r.unwrap() {
                paint_digest(o, &p);
            }
        }
        let r = colr.v1_clip_box(gid);
        if o.res(&r) {
            if let Some(cb) = r.unwrap() {
                o.note(cb.format() as u64);
            }
        }
    }
    let n0 = colr.num_layer_records() as usize;
    let n1 = match colr.layer_list() {
        Some(Ok(ll)) => ll.num_layers() as usize,
        _ => 0,
    };
    let mut ids = edge_usize(&[n0, n1]);
    ids.extend(0..n1.min(6));
    for i in ids {
        o.res(&colr.v0_layer(i));
        let r = colr.v1_layer(i);
        if o.res(&r) {
            paint_digest(o, &r.unwrap().0);
        }
    }
    // closures over small glyph sets around the table's glyphs
    let few: Vec<u32> = vals.iter().take(4).copied().collect();
    walk_colr_closures(&colr, len, &gset(&few), o);
    // all small glyphs, unless the v0 records announce a huge number of (absent) layers
    let work: usize = match colr.base_glyph_records() {
        Some(Ok(recs)) => recs.iter().map(|r| r.num_layers() as usize).sum(),
        _ => 0,
    };
    if work <= 20_000 {
        let mut all_small = IntSet::empty();
        all_small.insert_range(GlyphId::new(0)..=GlyphId::new(63));
        all_small.insert(GlyphId::new(0x1_0000));
        walk_colr_closures(&colr, len, &all_small, o);
    }
}

/// closures only, with a given glyph set (large inputs)
fn walk_colr_closure_only(bytes: &[u8], o: &mut Obs) {
    let Ok(colr) = Colr::read(FontData::new(bytes)) else { return };
    let mut s = IntSet::empty();
    s.insert_range(GlyphId::new(0)..=GlyphId::new(0xFFFF));
    walk_colr_closures(&colr, bytes.len(), &s, o);
    for g in [0u32, 1, 2] {
        let r = colr.v1_base_glyph(GlyphId::new(g));
        if let Ok(Some((p, _))) = r {
            paint_digest(o, &p);
        }
    }
}

fn colr_model(ctx: &mut Ctx) {
    // sorted v0 records + sorted clip ranges: the binary searches against a linear model
    let rng = &mut ctx.rng;
    let ng = 1 + rng.below(7) as usize;
    let gids = sorted_glyphs(rng, 60, ng);
    let recs: Vec<(u16, u16, u16)> = gids.iter().map(|g| (*g, rng.below(9) as u16, rng.below(5) as u16)).collect();
    let clips = sorted_ranges(rng, 80, 5);
    let np = 1 + rng.below(5) as usize;
    let pg = sorted_glyphs(rng, 60, np);
    let mut t = T::new();
    t.b.u16(1).u16(recs.len() as u16);
    let mut r = T::new();
    for (g, f, n) in &recs {
        r.b.u16(*g).u16(*f).u16(*n);
    }
    t.off32(r);
    let mut l = T::new();
    for i in 0..12u16 {
        l.b.u16(100 + i).u16(i);
    }
    t.off32(l);
    t.b.u16(12);
    let mut bl = T::new();
    bl.b.u32(pg.len() as u32);
    for (i, g) in pg.iter().enumerate() {
        bl.b.u16(*g);
        let mut p = T::new();
        p.b.u8(2).u16(i as u16).u16(0x4000);
        bl.off32(p);
    }
    t.off32(bl);
    t.b.u32(0);
    let mut cl = T::new();
    cl.b.u8(1).u32(clips.len() as u32);
    for (i, (s, e)) in clips.iter().enumerate() {
        cl.b.u16(*s).u16(*e);
        let mut cb = T::new();
        cb.b.u8(1).i16(i as i16).i16(0).i16(0).i16(0);
        cl.off24(cb);
    }
    t.off32(cl);
    t.b.u32(0).u32(0);
    let b = t.flat();
    let input = format!("colr-model {}", hex(&b.v));
    model(ctx, "colr-model", input, || {
        let colr = Colr::read(FontData::new(&b.v)).map_err(|e| format!("{e:?}"))?;
        for g in 0..90u16 {
            let want = recs.iter().find(|r| r.0 == g).map(|r| r.1 as usize..r.1 as usize + r.2 as usize);
            let got = colr.v0_base_glyph(GlyphId::new(g as u32)).map_err(|e| format!("v0_base_glyph {e:?}"))?;
            if got != want {
                return Err(format!("v0_base_glyph({g}) = {got:?}, expected {want:?}"));
            }
            let want = clips.iter().position(|(s, e)| (*s..=*e).contains(&g));
            let got = colr.v1_clip_box(GlyphId::new(g as u32)).map_err(|e| format!("v1_clip_box {e:?}"))?;
            let got = got.map(|cb| match cb {
                read_fonts::tables::colr::ClipBox::Format1(c) => c.x_min().to_i16() as usize,
                _ => 999,
            });
            if got != want {
                return Err(format!("v1_clip_box({g}) = {got:?}, expected {want:?}"));
            }
            let want = pg.iter().position(|x| *x == g);
            let got = colr.v1_base_glyph(GlyphId::new(g as u32)).map_err(|e| format!("v1_base_glyph {e:?}"))?;
            let got = got.map(|(p, _)| match p {
                read_fonts::tables::colr::Paint::Solid(s) => s.palette_index() as usize,
                _ => 999,
            });
            if got != want {
                return Err(format!("v1_base_glyph({g}) = {got:?}, expected {want:?}"));
            }
        }
        for i in 0..14usize {
            let want = if i < 12 { Some((100 + i as u16, i as u16)) } else { None };
            let got = colr.v0_layer(i).ok().map(|(g, p)| (g.to_u16(), p));
            if got != want {
                return Err(format!("v0_layer({i}) = {got:?}"));
            }
        }
        // v0 closures: exactly the layers of the base glyphs in the set
        let set: IntSet<GlyphId> = gids.iter().step_by(2).map(|g| GlyphId::new(*g as u32)).collect();
        let mut out = IntSet::empty();
        colr.v0_closure_glyphs(&set, &mut out);
        let mut pal = IntSet::empty();
        colr.v0_closure_palette_indices(&set, &mut pal);
        let mut want_g: Vec<u32> = set.iter().map(|g| g.to_u32()).collect();
        let mut want_p: Vec<u16> = vec![];
        for (g, f, n) in &recs {
            if set.contains(GlyphId::new(*g as u32)) {
                for i in *f..*f + *n {
                    if i < 12 {
                        want_g.push(100 + i as u32);
                        want_p.push(i);
                    }
                }
            }
        }
        want_g.sort();
        want_g.dedup();
        want_p.sort();
        want_p.dedup();
        let got_g: Vec<u32> = out.iter().take(200).map(|g| g.to_u32()).collect();
        let got_p: Vec<u16> = pal.iter().take(200).collect();
        if got_g != want_g || got_p != want_p {
            return Err(format!("v0 closure glyphs {got_g:?} / {want_g:?}, palette {got_p:?} / {want_p:?}"));
        }
        Ok(())
    });
}

pub fn run_colr(ctx: &mut Ctx) {
    let k = if ctx.thorough { 6 } else { 1 };
    // PaintVarTranslate with var_index_base 0xFFFFFFFE (2 variation indices)
    let v = colr_v1_raw(&[(0, 0)], &[0], &[15, 0, 0, 12, 0, 0, 0, 0, 0xFF, 0xFF, 0xFF, 0xFE, 2, 0, 1, 0x40, 0]);
    probe(ctx, "colr.v1_closure.var-index-base", &v, &walk_colr_closure_only);
    // PaintColrLayers with first_layer_index 0xFFFFFFFF
    let v = colr_v1_raw(&[(0, 0)], &[0], &[1, 1, 0xFF, 0xFF, 0xFF, 0xFF]);
    probe(ctx, "colr.v1_closure.first-layer-index", &v, &walk_colr_closure_only);
    for round in 0..40 * k {
        let spec = ColrSpec { version: if round % 4 == 0 { 0 } else { 1 }, sorted: round % 3 != 2 };
        let b = colr_table(&mut ctx.rng, &spec);
        ctx.count(&format!("version{}", spec.version));
        ctx.count_n("bytes", b.len() as u64);
        ctx.drive("colr", &b, &walk_colr);
    }
    // every paint format as the root paint of a base glyph and as a layer
    for fmt in 0..=34u8 {
        let env = PaintEnv { n_layers: 2, base_gids: vec![3, 5] };
        let mut t = T::new();
        t.b.u16(1).u16(0).u32(0).u32(0).u16(0);
        let mut bl = T::new();
        bl.b.f32(2);
        for g in [3u16, 5] {
            bl.b.u16(g);
            let p = paint_fmt(&mut ctx.rng, fmt, 3, &env);
            bl.off32(p);
        }
        t.off32(bl);
        let mut ll = T::new();
        ll.b.f32(2);
        for _ in 0..2 {
            let p = paint_fmt(&mut ctx.rng, fmt, 4, &env);
            ll.off32(p);
        }
        t.off32(ll);
        t.b.u32(0).u32(0).u32(0);
        ctx.count(&format!("paint{fmt}"));
        ctx.drive("colr.paint", &t.flat(), &walk_colr);
    }
    for _ in 0..150 * k {
        colr_model(ctx);
    }
    // cycles: a base glyph painting itself, two glyphs painting each other, layers that contain
    // their own PaintColrLayers
    let mut p = vec![];
    p.extend_from_slice(&[11, 0, 1]); // @0 ColrGlyph(1)
    p.extend_from_slice(&[11, 0, 2]); // @3 ColrGlyph(2)
    p.extend_from_slice(&[11, 0, 1]); // @6 ColrGlyph(1)
    p.extend_from_slice(&[1, 2, 0, 0, 0, 0]); // @9 ColrLayers(2 layers from 0)
    p.extend_from_slice(&[10, 0, 0, 6, 0, 9]); // @15 Glyph(paint @21, gid 9)
    p.extend_from_slice(&[1, 255, 0, 0, 0, 0]); // @21 ColrLayers(255 layers from 0)
    let cyc = colr_v1_raw(&[(1, 0), (2, 6), (3, 3), (4, 9)], &[9, 15], &p);
    ctx.call("colr.cycle", &cyc, &walk_colr);
    ctx.call("colr.cycle", &cyc, &walk_colr_closure_only);
    // paint chains far deeper than any nesting limit (must not recurse per level)
    for depth in [63usize, 64, 65, 66, 1000, 20_000, 120_000] {
        let v = colr_v1_raw(&[(0, 0), (1, 6), (2, (6 * (depth.min(70) - 1)) as u32)], &[0], &deep_chain(depth));
        ctx.count(&format!("chain{depth}"));
        ctx.call("colr.chain", &v, &walk_colr_closure_only);
    }
    // wide: one PaintColrLayers per base glyph, all sharing 255 layers
    {
        let n = 400usize;
        let mut p = vec![];
        for _ in 0..n {
            p.extend_from_slice(&[1, 255, 0, 0, 0, 0]);
        }
        p.extend_from_slice(&[2, 0, 1, 0x40, 0]);
        let recs: Vec<(u16, u32)> = (0..n).map(|i| (i as u16, 6 * i as u32)).collect();
        let layers: Vec<u32> = (0..255).map(|i| if i % 2 == 0 { 6 * n as u32 } else { 6 * (i as u32 % n as u32) }).collect();
        ctx.call("colr.wide", &colr_v1_raw(&recs, &layers, &p), &walk_colr_closure_only);
    }
    // v0: many base glyphs with num_layers 0xFFFF over few layers
    {
        let mut b = B::new();
        let n = 300u16;
        b.u16(0).u16(n).u32(14).u32(14 + 6 * n as u32).u16(3);
        for g in 0..n {
            b.u16(g).u16(if g % 2 == 0 { 0 } else { 0xFFFF }).u16(0xFFFF);
        }
        for i in 0..3u16 {
            b.u16(500 + i).u16(i);
        }
        ctx.call("colr.v0wide", &b.v, &walk_colr_closure_only);
    }
    ctx.drive_random("colr", 600 * k, 80, &walk_colr);
}
