//! group `ps.blend.model` — the CFF2 blend state (`tables/postscript/blend.rs`: `BlendState::{new, set_store_index,
//! region_count, scalars}` with `update_precomputed_scalars` / `region_scalar`) against Model/HandBlend.lean (`hz.blend`):
//! ItemVariationStores built from an abstract description (null / dangling data offsets, dangling region list, region
//! indexes beyond the region count, more than 16 region indexes (beyond the precomputed cache), axis count 0, coordinate
//! lists shorter / longer than the axis count), then scripts of new / set_store_index / scalars.
use super::*;
use font_types::F2Dot14;
use read_fonts::tables::postscript::{BlendState, Error};
use read_fonts::tables::variations::ItemVariationStore;
use read_fonts::{FontData, FontRead};

#[derive(Clone)]
enum DataAt {
    Absent,
    Bad,
    Ok(Vec<u16>),
}

fn build(axis_count: u16, regions: &[Vec<[i16; 3]>], datas: &[DataAt], region_list_ok: bool) -> Vec<u8> {
    let mut b = B::new();
    b.u16(1).u32(0).u16(datas.len() as u16);
    let offs = b.len();
    for _ in datas {
        b.u32(0);
    }
    // region list
    let at = b.len();
    b.u16(axis_count).u16(regions.len() as u16);
    for r in regions {
        for a in r {
            b.i16(a[0]).i16(a[1]).i16(a[2]);
        }
    }
    let mut fix: Vec<(usize, u32)> = vec![(2, at as u32)];
    for (k, d) in datas.iter().enumerate() {
        match d {
            DataAt::Absent => {}
            DataAt::Bad => fix.push((offs + 4 * k, 0x00FF_FFF0)),
            DataAt::Ok(ris) => {
                let at = b.len();
                b.u16(0).u16(0).u16(ris.len() as u16);
                for r in ris {
                    b.u16(*r);
                }
                fix.push((offs + 4 * k, at as u32));
            }
        }
    }
    if !region_list_ok {
        fix[0].1 = b.len() as u32 + 7;
    }
    for (p, v) in fix {
        b.set32(p, v);
    }
    b.v
}

fn err_str(e: &Error) -> String {
    match e {
        Error::InvalidVariationStoreIndex(i) => format!("eI{i}"),
        Error::Read(_) => "eR".into(),
        _ => "e?".into(),
    }
}

fn query(b: &BlendState, cap: usize) -> (String, usize, usize) {
    let rc = b.region_count().unwrap_or(usize::MAX);
    let mut items: Vec<String> = vec![];
    if let Ok(it) = b.scalars() {
        for x in it.take(cap + 1) {
            items.push(match x {
                Ok(f) => f.to_bits().to_string(),
                Err(_) => "e".into(),
            });
        }
    }
    let n = items.len();
    (format!("{rc}:{}", if items.is_empty() { "-".to_string() } else { items.join(",") }), rc, n)
}

pub fn run(ctx: &mut Ctx) {
    let rounds = if ctx.thorough { 15000 } else { 3000 };
    for round in 0..rounds {
        let axis_count: u16 = if round % 11 == 0 { 0 } else { 1 + ctx.rng.below(3) as u16 };
        let n_regions = *ctx.rng.pick(&[0usize, 1, 2, 3, 5, 20]);
        let regions: Vec<Vec<[i16; 3]>> = (0..n_regions)
            .map(|_| {
                (0..axis_count)
                    .map(|_| match ctx.rng.below(5) {
                        0 => [0, 0x4000, 0x4000],
                        1 => [-0x4000, -0x4000, 0],
                        2 => [0, 0x2000, 0x4000],
                        3 => [0, 0, 0],
                        _ => [ctx.rng.range(-0x4000, 0x4001) as i16, ctx.rng.range(-0x4000, 0x4001) as i16, ctx.rng.range(-0x4000, 0x4001) as i16],
                    })
                    .collect()
            })
            .collect();
        let n_datas = if round % 17 == 0 { 0 } else { 1 + ctx.rng.below(4) as usize };
        let datas: Vec<DataAt> = (0..n_datas)
            .map(|_| match ctx.rng.below(8) {
                0 if ctx.rng.chance(1, 2) => DataAt::Absent,
                1 if ctx.rng.chance(1, 2) => DataAt::Bad,
                _ => {
                    let n = *ctx.rng.pick(&[0usize, 1, 2, 3, 15, 16, 17, 18, 24]);
                    let hostile = ctx.rng.chance(1, 4);
                    DataAt::Ok(
                        (0..n)
                            .map(|k| {
                                if hostile && ((k < 16 && ctx.rng.chance(1, 40)) || (k >= 16 && ctx.rng.chance(1, 2))) {
                                    *ctx.rng.pick(&[n_regions as u16, n_regions as u16 + 1, 0xFFFF])
                                } else if n_regions == 0 {
                                    0
                                } else {
                                    ctx.rng.below(n_regions as u64) as u16
                                }
                            })
                            .collect(),
                    )
                }
            })
            .collect();
        let region_list_ok = !ctx.rng.chance(1, 20);
        let n_coords = match ctx.rng.below(6) {
            0 => 0,
            1 => axis_count as usize + 1,
            _ => axis_count as usize,
        };
        let coords: Vec<F2Dot14> = (0..n_coords)
            .map(|_| {
                F2Dot14::from_bits(match ctx.rng.below(5) {
                    0 => 0,
                    1 => 0x4000,
                    2 => -0x4000,
                    3 => 0x2000,
                    _ => ctx.rng.range(-0x4000, 0x4001) as i16,
                })
            })
            .collect();
        let bytes = build(axis_count, &regions, &datas, region_list_ok);
        // script
        let first = if n_datas == 0 || ctx.rng.chance(1, 8) { *ctx.rng.pick(&[n_datas as u16, n_datas as u16 + 1, 0xFFFF]) } else { ctx.rng.below(n_datas as u64) as u16 };
        let mut ops: Vec<(char, u16)> = vec![('n', first), ('q', 0)];
        for _ in 0..ctx.rng.below(5) {
            ops.push(if ctx.rng.chance(1, 2) { ('s', *ctx.rng.pick(&[0u16, 1, 2, 3, 4, 0xFFFF])) } else { ('q', 0) });
        }
        ops.push(('q', 0));
        let join_i = |v: Vec<String>, empty: &str| if v.is_empty() { empty.to_string() } else { v.join(",") };
        let regions_s = if regions.is_empty() {
            "-".to_string()
        } else {
            regions.iter().map(|r| join_i(r.iter().flat_map(|a| a.iter().map(|x| x.to_string())).collect(), "_")).collect::<Vec<_>>().join(";")
        };
        let datas_s = if datas.is_empty() {
            "-".to_string()
        } else {
            datas
                .iter()
                .map(|d| match d {
                    DataAt::Absent => "N".to_string(),
                    DataAt::Bad => "E".to_string(),
                    DataAt::Ok(r) => join_i(r.iter().map(|x| x.to_string()).collect(), "_"),
                })
                .collect::<Vec<_>>()
                .join(";")
        };
        let req = format!(
            "hz.blend {} {} {} {} {} {}",
            join_i(coords.iter().map(|c| c.to_bits().to_string()).collect(), "-"),
            axis_count,
            region_list_ok as u8,
            regions_s,
            datas_s,
            ops.iter().map(|(o, a)| if *o == 'q' { "q".to_string() } else { format!("{o}{a}") }).collect::<Vec<_>>().join(" ")
        );
        PROGRESS.fetch_add(1, Ordering::Relaxed);
        {
            let mut cur = CURRENT.lock().unwrap();
            cur.0 = req.clone();
            cur.1 = bytes.clone();
        }
        let r = catch(|| {
            let store = match ItemVariationStore::read(FontData::new(&bytes)) {
                Ok(s) => s,
                Err(_) => return None,
            };
            let mut st: Option<BlendState> = None;
            let mut toks: Vec<String> = vec![];
            let mut count_ok = true;
            for (o, a) in &ops {
                match o {
                    'n' => match BlendState::new(store.clone(), &coords, *a) {
                        Ok(b) => {
                            st = Some(b);
                            toks.push("k".into())
                        }
                        Err(e) => toks.push(err_str(&e)),
                    },
                    's' => match st.as_mut() {
                        None => toks.push("x".into()),
                        Some(b) => toks.push(match b.set_store_index(*a) {
                            Ok(()) => "k".into(),
                            Err(e) => err_str(&e),
                        }),
                    },
                    _ => match st.as_ref() {
                        None => toks.push("x".into()),
                        Some(b) => {
                            let (t, rc, n) = query(b, 70000);
                            count_ok &= rc == n;
                            toks.push(t)
                        }
                    },
                }
            }
            Some((toks, count_ok))
        });
        match r {
            Err(m) => ctx.oracle("no-panic", false, || format!("{req} ivs={}", hex(&bytes)), || m.clone()),
            Ok(None) => ctx.count("store-rejected"),
            Ok(Some((toks, count_ok))) => {
                ctx.oracle("no-panic", true, String::new, String::new);
                // what Stack::apply_blend relies on
                ctx.oracle("scalars-count==region_count", count_ok, || req.clone(), || toks.join(" "));
                for t in &toks {
                    ctx.count(&format!("tok.{}", if t.starts_with("eI") { "eI" } else if t.contains(':') { if t.contains('e') { "q.with-err" } else if t.matches(',').count() >= 16 { "q.beyond-cache" } else { "q" } } else { t }));
                }
                ctx.case(req, toks.join(" "));
            }
        }
    }
}
