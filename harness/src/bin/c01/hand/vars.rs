//! Variation tables, hand-written parts: `variations.rs` (tuple variation store, delta set index
//! map, item variation store), `gvar.rs`, `cvar.rs`, `hvar.rs`, `vvar.rs`, `mvar.rs`, `avar.rs`,
//! `fvar.rs`, `instance_record.rs` and the `ComputedArray` / `VarLenArray` accessors of `array.rs`
//! that these tables hand out.
//!
//! Every section has its own generator of structurally valid tables (with hostile-but-parsable
//! shapes mixed in) and a walk that calls every hand-written function with boundary-dense external
//! arguments.  External arguments that a font would normally provide (`axis_count` of cvar, the
//! normalized coordinates, the point count of the glyph) are a prefix of the driven bytes, so that
//! `Ctx::drive` mutates them together with the table.
use super::varc::packed_deltas;
use super::*;
use font_types::{F26Dot6, F2Dot14, Fixed, GlyphId, Point, Tag};
use read_fonts::tables::avar::{Avar, SegmentMaps};
use read_fonts::tables::cvar::Cvar;
use read_fonts::tables::fvar::{Fvar, InstanceRecord};
use read_fonts::tables::glyf::{Glyf, PointFlags};
use read_fonts::tables::gvar::{GlyphDelta, Gvar, GvarFlags, U16Or32};
use read_fonts::tables::hvar::Hvar;
use read_fonts::tables::loca::Loca;
use read_fonts::tables::mvar::Mvar;
use read_fonts::tables::variations::{
    DeltaSetIndex, DeltaSetIndexMap, EntryFormat, FloatItemDeltaTarget, ItemVariationData, ItemVariationStore, Tuple, TupleDelta, TupleIndex, TupleVariation,
    TupleVariationCount, TupleVariationData, TupleVariationHeader, VariationRegion,
};
use read_fonts::tables::vvar::Vvar;
use read_fonts::{ComputeSize, FontData, FontRead, FontReadWithArgs, ReadError, VarSize};

// ------------------------------------------------------------------------------------------------
// shared helpers

/// development aid: `C01_HAND_SKIP_KNOWN=1` leaves out the calls that trigger the reported findings,
/// so that the rest of the group can be seen green.  Never set in the real runs.
pub fn skip_known() -> bool {
    std::env::var_os("C01_HAND_SKIP_KNOWN").is_some()
}

fn be16(b: &[u8], at: usize) -> Option<u16> {
    Some(u16::from_be_bytes([*b.get(at)?, *b.get(at + 1)?]))
}

/// `[n u8][n × i16]` prefix → coordinates, rest
fn take_coords(bytes: &[u8]) -> Option<(Vec<F2Dot14>, &[u8])> {
    let n = (*bytes.first()? & 0x7F) as usize;
    let cb = bytes.get(1..1 + 2 * n)?;
    let coords = cb.chunks(2).map(|c| F2Dot14::from_bits(i16::from_be_bytes([c[0], c[1]]))).collect();
    Some((coords, &bytes[1 + 2 * n..]))
}

fn put_coords(b: &mut B, coords: &[i16]) {
    b.u8(coords.len() as u8);
    for c in coords {
        b.i16(*c);
    }
}

fn rcoord(rng: &mut Rng) -> i16 {
    match rng.below(9) {
        0 => 0,
        1 => 0x4000,
        2 => -0x4000,
        3 => 0x2000,
        4 => -0x2000,
        5 => 0x1000,
        6 => *rng.pick(&[1i16, -1, 0x7FFF, -0x8000, 0x4001, -0x4001, 0x3FFF]),
        _ => rng.next() as i16,
    }
}

fn rcoords(rng: &mut Rng, axis_count: u16) -> Vec<i16> {
    let n = match rng.below(6) {
        0 => axis_count.saturating_sub(1),
        1 => axis_count.saturating_add(1).min(100),
        _ => axis_count.min(100),
    };
    (0..n).map(|_| rcoord(rng)).collect()
}

/// the coordinate slices every lookup is called with: as given, empty, one short, one long
fn coord_variants(coords: &[F2Dot14]) -> Vec<Vec<F2Dot14>> {
    let mut v = vec![coords.to_vec(), vec![]];
    if !coords.is_empty() {
        v.push(coords[..coords.len() - 1].to_vec());
    }
    let mut long = coords.to_vec();
    long.push(F2Dot14::from_bits(0x2000));
    v.push(long);
    v
}

fn note_tuple(o: &mut Obs, t: &Tuple) {
    o.note(t.len() as u64);
    o.note(t.is_empty() as u64);
    for i in edge_usize(&[t.len()]) {
        o.note(t.get(i).map(|v| (v.to_bits() as u16 as u64) + 1).unwrap_or(0));
    }
    for v in t.values().iter().take(70) {
        o.note(v.get().to_bits() as u64);
    }
}

fn note_fixed_res(o: &mut Obs, r: &Result<Fixed, ReadError>) {
    if o.res(r) {
        o.note(r.as_ref().unwrap().to_bits() as u64);
    }
}

// ------------------------------------------------------------------------------------------------
// packed point numbers + tuple variation store generator

/// packed point numbers; returns the number of points (0 = all points)
fn packed_points(rng: &mut Rng, intact: &mut bool) -> (Vec<u8>, usize) {
    match rng.below(9) {
        0 | 1 => return (vec![0], 0),
        2 => return (vec![0x80, 0x00], 0),
        _ => {}
    }
    let n: usize = match rng.below(7) {
        0 => 1,
        1 => 126 + rng.below(5) as usize,
        2 => 2,
        _ => 1 + rng.below(10) as usize,
    };
    let mut out = vec![];
    if n < 128 && rng.chance(5, 6) {
        out.push(n as u8);
    } else {
        out.push(0x80 | (n >> 8) as u8);
        out.push(n as u8);
    }
    let mut i = 0;
    while i < n {
        let run = 1 + rng.below((n - i).min(128) as u64) as usize;
        let words = rng.chance(1, 4);
        out.push((run as u8 - 1) | if words { 0x80 } else { 0 });
        for _ in 0..run {
            if words {
                let d = if rng.chance(1, 8) { rng.next() as u16 } else { rng.below(300) as u16 };
                out.extend_from_slice(&d.to_be_bytes());
            } else {
                // zero deltas give duplicated point numbers
                out.push(if rng.chance(1, 6) { 0 } else { rng.below(4) as u8 + rng.chance(1, 10) as u8 * 200 });
            }
        }
        i += run;
    }
    if rng.chance(1, 10) && out.len() > 2 {
        // the runs end before the announced count
        let cut = 1 + rng.below(out.len() as u64 - 1) as usize;
        out.truncate(cut);
        *intact = false;
    }
    (out, n)
}

fn rdelta(rng: &mut Rng) -> i32 {
    match rng.below(12) {
        0 => rng.next() as i32,
        1 => i32::MAX,
        2 => i32::MIN,
        3 => 0,
        4 => rng.range(-40000, 40000) as i32,
        _ => rng.range(-200, 200) as i32,
    }
}

/// `[tupleVariationCount][dataOffset][headers…][serialized data]`; `base` = bytes of the enclosing
/// table in front of the count field (the data offset is relative to the table start).
/// Returns the block and the number of tuples a reader is expected to yield (`None` when a hostile
/// size / count was generated).
fn tuple_store(rng: &mut Rng, axis_count: u16, is_point: bool, n_shared: u16, base: usize, n_points: usize) -> (B, Option<usize>) {
    let n_tuples = match rng.below(7) {
        0 => 0,
        1 => 1,
        _ => 1 + rng.below(4) as usize,
    };
    let mut clean = true;
    let shared_points = rng.chance(1, 2);
    let mut ser: Vec<u8> = vec![];
    let mut shared_count = 0usize;
    if shared_points {
        let (p, n) = packed_points(rng, &mut clean);
        ser.extend(p);
        shared_count = n;
    }
    let mut headers = B::new();
    for _ in 0..n_tuples {
        let mut ti: u16 = 0;
        let embedded = if n_shared == 0 { rng.chance(7, 8) } else { rng.chance(1, 2) };
        if embedded {
            ti |= TupleIndex::EMBEDDED_PEAK_TUPLE | (rng.below(3) as u16);
        } else {
            ti |= match rng.below(8) {
                0 => n_shared,
                1 => 0x0FFF,
                _ => rng.below(n_shared.max(1) as u64) as u16,
            } & TupleIndex::TUPLE_INDEX_MASK;
        }
        let inter = rng.chance(1, 3);
        if inter {
            ti |= TupleIndex::INTERMEDIATE_REGION;
        }
        let private = if shared_points { rng.chance(1, 3) } else { rng.chance(3, 4) };
        if private {
            ti |= TupleIndex::PRIVATE_POINT_NUMBERS;
        }
        if rng.chance(1, 12) {
            ti |= 0x1000;
        }
        let mut body = vec![];
        let mut count = shared_count;
        if private {
            let (p, n) = packed_points(rng, &mut clean);
            body.extend(p);
            count = n;
        }
        let n_vals = if count == 0 { n_points } else { count } * if is_point { 2 } else { 1 };
        let n_vals = match rng.below(10) {
            0 => n_vals.saturating_sub(1),
            1 => n_vals + 1,
            2 => n_vals / 2,
            _ => n_vals,
        };
        let vals: Vec<i32> = (0..n_vals).map(|_| rdelta(rng)).collect();
        body.extend(packed_deltas(&vals, rng));
        let size = match rng.below(14) {
            0 => body.len() + 1,
            1 => body.len().saturating_sub(1),
            2 => 0xFFFF,
            _ => body.len(),
        };
        if size != body.len() {
            clean = false;
        }
        headers.f16(size as u16).f16(ti);
        let peaks: Vec<i16> = (0..axis_count).map(|_| rcoord(rng)).collect();
        if embedded {
            for p in &peaks {
                headers.i16(*p);
            }
        }
        if inter {
            let hostile = rng.chance(1, 5);
            let mut starts = vec![];
            let mut ends = vec![];
            for p in &peaks {
                if hostile {
                    starts.push(rcoord(rng));
                    ends.push(rcoord(rng));
                } else {
                    starts.push(p.saturating_sub(rng.below(0x3000) as i16));
                    ends.push(p.saturating_add(rng.below(0x3000) as i16));
                }
            }
            for s in starts {
                headers.i16(s);
            }
            for e in ends {
                headers.i16(e);
            }
        }
        ser.extend(body);
    }
    let mut b = B::new();
    let count = match rng.below(12) {
        0 => n_tuples + 1,
        1 => n_tuples.saturating_sub(1),
        2 => 0x0FFF,
        _ => n_tuples,
    };
    if count != n_tuples {
        clean = false;
    }
    b.f16(count as u16 | if shared_points { TupleVariationCount::SHARED_POINT_NUMBERS } else { 0 } | if rng.chance(1, 12) { 0x4000 } else { 0 });
    b.f16((base + 4 + headers.len()) as u16);
    b.append(&headers);
    b.bytes(&ser);
    if rng.chance(1, 6) {
        b.bytes(&rng.bytes(3));
    }
    (b, clean.then_some(n_tuples))
}

// ------------------------------------------------------------------------------------------------
// TupleVariationData / TupleVariation walk (shared by gvar and cvar)

fn walk_tuple_common<'a, T: TupleDelta>(o: &mut Obs, len: usize, t: &TupleVariation<'a, T>, coords: &[F2Dot14], note_delta: &dyn Fn(&mut Obs, &T), full: bool) {
    note_tuple(o, &t.peak());
    match t.intermediate_start() {
        Some(s) => note_tuple(o, &s),
        None => o.note(0),
    }
    match t.intermediate_end() {
        Some(s) => note_tuple(o, &s),
        None => o.note(0),
    }
    for c in coord_variants(coords) {
        o.note(t.compute_scalar(&c).map(|f| (f.to_bits() as u32 as u64) + 1).unwrap_or(0));
        o.note(t.compute_scalar_f32(&c).map(|f| f.to_bits() as u64 + 1).unwrap_or(0));
    }
    o.note(t.has_deltas_for_all_points() as u64);
    // point numbers: at most 0x7FFF explicit points, or 0..=0xFFFE for "all points"
    let pn = t.point_numbers();
    o.note(pn.len() as u64);
    if full {
        o.drain("point_numbers", 65536, pn, |o, p| o.note(p as u64));
    } else {
        o.drain("point_numbers.head", 300, pn.take(300), |o, p| o.note(p as u64));
    }
    // every byte of packed deltas yields at most 64 values
    o.drain("deltas", 64 * len + 64, t.deltas(), |o, d| note_delta(o, &d));
}

fn walk_tvd<'a, T: TupleDelta>(o: &mut Obs, len: usize, tvd: &TupleVariationData<'a, T>, coords: &'a [F2Dot14], note_delta: &dyn Fn(&mut Obs, &T), each: &mut dyn FnMut(&mut Obs, usize, &TupleVariation<'a, T>)) -> usize {
    // every tuple consumes a header of at least 4 bytes
    let cap = len / 4 + 1;
    let full = o.digest % 4 == 0;
    let mut k = 0usize;
    let n = o.drain("tuples", cap, tvd.tuples(), |o, t| {
        if k < 6 {
            walk_tuple_common(o, len, &t, coords, note_delta, full && k == 0);
            each(o, k, &t);
        } else {
            o.note(t.has_deltas_for_all_points() as u64);
        }
        k += 1;
    });
    o.drain("active_tuples_at", cap, tvd.active_tuples_at(coords), |o, (t, s)| {
        o.note(s.to_bits() as u64);
        o.note(t.has_deltas_for_all_points() as u64);
    });
    n
}

// ------------------------------------------------------------------------------------------------
// TupleVariationHeader / TupleIndex / TupleVariationCount

/// `[axis_count u16][header bytes]`
fn walk_tvh(bytes: &[u8], o: &mut Obs) {
    let Some(ac) = be16(bytes, 0) else { return };
    let r = TupleVariationHeader::read(FontData::new(&bytes[2..]), ac);
    if !o.res(&r) {
        return;
    }
    let h = r.unwrap();
    o.note(h.variation_data_size() as u64);
    let ti = h.tuple_index();
    o.note(ti.bits() as u64);
    o.note(ti.embedded_peak_tuple() as u64);
    o.note(ti.intermediate_region() as u64);
    o.note(ti.private_point_numbers() as u64);
    o.note(ti.tuple_records_index().map(|v| v as u64 + 1).unwrap_or(0));
    o.note((TupleIndex::from_bits(ti.bits()) == ti) as u64);
    for t in [h.peak_tuple(), h.intermediate_start_tuple(), h.intermediate_end_tuple()] {
        match t {
            Some(t) => {
                // the embedded tuples have exactly axis_count values
                if t.len() != ac as usize {
                    o.over = Some(format!("embedded tuple with {} values for {} axes", t.len(), ac));
                }
                note_tuple(o, &t)
            }
            None => o.note(0),
        }
    }
    match h.intermediate_tuples() {
        Some((a, b)) => {
            note_tuple(o, &a);
            note_tuple(o, &b);
        }
        None => o.note(0),
    }
}

fn header_bytes(rng: &mut Rng, axis_count: u16, flags: u16) -> B {
    let mut b = B::new();
    b.f16(axis_count);
    b.f16(rng.below(40) as u16).f16(flags);
    let n = (flags & 0x8000 != 0) as usize + 2 * (flags & 0x4000 != 0) as usize;
    for _ in 0..n * axis_count as usize {
        b.i16(rcoord(rng));
    }
    b
}

fn run_tvh(ctx: &mut Ctx) {
    for flags in [0u16, 0x8000, 0x4000, 0xC000, 0x2000, 0xE000, 0xFFFF, 0x0FFF, 0x8001] {
        for ac in [0u16, 1, 2, 5] {
            let b = header_bytes(&mut ctx.rng, ac, flags);
            ctx.drive("tvh", &b, &walk_tvh);
            ctx.count(&format!("tvh.flags{:x}", flags >> 12));
        }
    }
    // axis_count beyond the data, up to 0xFFFF (3 tuples × 2 bytes × 0xFFFF axes)
    for ac in [0x7FFFu16, 0x8000, 0xFFFE, 0xFFFF] {
        for flags in [0x8000u16, 0xC000, 0x4000] {
            let mut v = vec![];
            v.extend_from_slice(&ac.to_be_bytes());
            v.extend_from_slice(&[0, 4]);
            v.extend_from_slice(&flags.to_be_bytes());
            let need = ((flags & 0x8000 != 0) as usize + 2 * (flags & 0x4000 != 0) as usize) * ac as usize * 2;
            for extra in [need.saturating_sub(2), need.saturating_sub(1), need, need + 1, 0, 7] {
                let mut w = v.clone();
                w.resize(v.len() + extra, 0x11);
                ctx.call("tvh.big", &w, &walk_tvh);
            }
        }
    }
    ctx.drive_random("tvh", if ctx.thorough { 3000 } else { 500 }, 24, &walk_tvh);
    // the bit helpers, exhaustively
    ctx.call("tuple-bits", &[], &|_b, o| {
        for bits in 0..=0xFFFFu16 {
            let ti = TupleIndex::from_bits(bits);
            let ok = ti.bits() == bits
                && ti.embedded_peak_tuple() == (bits & 0x8000 != 0)
                && ti.intermediate_region() == (bits & 0x4000 != 0)
                && ti.private_point_numbers() == (bits & 0x2000 != 0)
                && ti.tuple_records_index() == if bits & 0x8000 != 0 { None } else { Some(bits & 0x0FFF) };
            let tc = TupleVariationCount::from_bits(bits);
            let ok2 = tc.bits() == bits && tc.count() == bits & 0x0FFF && tc.shared_point_numbers() == (bits & 0x8000 != 0);
            if !(ok && ok2) && o.over.is_none() {
                o.over = Some(format!("TupleIndex / TupleVariationCount bit helpers wrong for {bits:#x}"));
            }
            o.note(ti.tuple_records_index().unwrap_or(0xFFFF) as u64 ^ tc.count() as u64);
        }
    });
}

// ------------------------------------------------------------------------------------------------
// cvar

fn cvar_table(rng: &mut Rng, axis_count: u16) -> (B, Option<usize>) {
    let mut b = B::new();
    b.u16(1).u16(0);
    let n_cvt = 1 + rng.below(12) as usize;
    let (store, n) = tuple_store(rng, axis_count, false, 0, 4, n_cvt);
    b.append(&store);
    (b, n)
}

/// `[axis_count u16][coords][cvar]`
fn walk_cvar(bytes: &[u8], o: &mut Obs) {
    let Some(ac) = be16(bytes, 0) else { return };
    let Some((coords, table)) = take_coords(&bytes[2..]) else { return };
    let len = table.len();
    let r = Cvar::read(FontData::new(table));
    if !o.res(&r) {
        return;
    }
    let cvar = r.unwrap();
    o.note(cvar.tuple_variation_count().bits() as u64);
    for axis_count in [ac, 0, ac.wrapping_add(1), 0xFFFF] {
        let r = cvar.variation_data(axis_count);
        if !o.res(&r) {
            continue;
        }
        let tvd = r.unwrap();
        walk_tvd(o, len, &tvd, &coords, &|o, d| {
            o.note(d.position as u64);
            o.note(d.value as u64);
            for s in [Fixed::ONE, Fixed::from_bits(0x8000), Fixed::MAX, Fixed::MIN, Fixed::from_bits(-1)] {
                o.note(d.apply_scalar(s).to_bits() as u64);
            }
        }, &mut |_o, _k, _t| {});
        for (k, c) in coord_variants(&coords).iter().enumerate() {
            for n in [0usize, 1, 7, 300, 70000] {
                if n == 70000 && (k > 0 || axis_count != ac) {
                    continue;
                }
                let mut deltas = vec![0i32; n];
                if n > 1 {
                    deltas[0] = i32::MAX;
                    deltas[1] = i32::MIN;
                }
                let r = cvar.deltas(axis_count, c, &mut deltas);
                o.res(&r);
                for d in deltas.iter().take(300) {
                    o.note(*d as u64);
                }
            }
        }
    }
}

fn run_cvar(ctx: &mut Ctx) {
    let rounds = if ctx.thorough { 150 } else { 26 };
    for round in 0..rounds {
        let ac = match round % 6 {
            0 => 0,
            1 => 1,
            5 => 7,
            _ => 1 + ctx.rng.below(3) as u16,
        };
        let (t, expect) = cvar_table(&mut ctx.rng, ac);
        let mut b = B::new();
        b.f16(ac);
        let coords = rcoords(&mut ctx.rng, ac);
        put_coords(&mut b, &coords);
        b.append(&t);
        ctx.drive("cvar", &b, &walk_cvar);
        ctx.count(&format!("cvar.axes{}", ac.min(4)));
        // relational: a clean store yields exactly its tuples (every header fits, sizes add up)
        if let (Some(n), Ok(cvar)) = (expect, Cvar::read(FontData::new(&t.v))) {
            let r = catch(|| cvar.variation_data(ac).map(|d| d.tuples().take(5000).count()).unwrap_or(usize::MAX));
            ctx.oracle("cvar.tuple-count", r == Ok(n), || format!("cvar {} axis_count {}", hex(&t.v), ac), || format!("expected {n} tuples, got {r:?}"));
            ctx.count("cvar.clean");
        }
    }
    ctx.drive_random("cvar", if ctx.thorough { 3000 } else { 400 }, 64, &walk_cvar);
}

// ------------------------------------------------------------------------------------------------
// gvar

struct GvarSpec {
    axis_count: u16,
    n_shared: u16,
    glyphs: Vec<Vec<u8>>,
    long: bool,
}

/// returns the table and, per glyph, the (start, end) range of its data inside the table
fn gvar_table(rng: &mut Rng, s: &GvarSpec) -> (B, Vec<(usize, usize)>) {
    let mut b = B::new();
    b.u16(1).u16(0);
    b.f16(s.axis_count).f16(s.n_shared).f32(0);
    b.f16(s.glyphs.len() as u16).f16(s.long as u16).f32(0);
    let mut off = 0u32;
    for k in 0..=s.glyphs.len() {
        if s.long {
            b.f32(off);
        } else {
            b.f16((off / 2) as u16);
        }
        if k < s.glyphs.len() {
            off += s.glyphs[k].len() as u32;
        }
    }
    let at = b.len();
    b.set32(8, at as u32);
    for _ in 0..s.n_shared as usize * s.axis_count as usize {
        b.i16(rcoord(rng));
    }
    let at = b.len();
    b.set32(16, at as u32);
    let mut ranges = vec![];
    for g in &s.glyphs {
        ranges.push((b.len(), b.len() + g.len()));
        b.bytes(g);
    }
    (b, ranges)
}

fn glyf_loca() -> (Vec<u8>, Vec<u8>) {
    let mut g = B::new();
    let mut offs = vec![0u32, 0];
    // 1: simple glyph, 3 points
    g.i16(1).i16(0).i16(0).i16(100).i16(100).u16(2).u16(0);
    g.bytes(&[1, 1, 1]);
    for v in [0i16, 100, -50, 0, 0, 100] {
        g.i16(v);
    }
    g.u8(0);
    offs.push(g.len() as u32);
    // 2: composite, component glyph 1 with USE_MY_METRICS
    g.i16(-1).i16(0).i16(0).i16(100).i16(100).u16(0x0201).u16(1).i16(0).i16(0);
    offs.push(g.len() as u32);
    // 3: composite referring to itself with USE_MY_METRICS
    g.i16(-1).i16(0).i16(0).i16(100).i16(100).u16(0x0201).u16(3).i16(0).i16(0);
    offs.push(g.len() as u32);
    // 4: composite with two plain components
    g.i16(-1).i16(0).i16(0).i16(100).i16(100).u16(0x0021).u16(1).i16(0).i16(0).u16(0x0001).u16(1).i16(5).i16(5);
    offs.push(g.len() as u32);
    // 5: composite -> 2 -> 1
    g.i16(-1).i16(0).i16(0).i16(100).i16(100).u16(0x0201).u16(2).i16(0).i16(0);
    offs.push(g.len() as u32);
    let mut l = B::new();
    for o in offs {
        l.u32(o);
    }
    (g.v, l.v)
}

fn note_point<D: read_fonts::tables::glyf::PointCoord>(o: &mut Obs, p: &Point<D>) {
    o.note(p.x.to_f32().to_bits() as u64);
    o.note(p.y.to_f32().to_bits() as u64);
}

fn accumulate<D: read_fonts::tables::glyf::PointCoord>(o: &mut Obs, t: &TupleVariation<GlyphDelta>, n: usize, nf: usize, scalar: Fixed, seed: D) {
    let mut deltas = vec![Point::new(seed, seed); n];
    let r = t.accumulate_dense_deltas(&mut deltas, scalar);
    o.res(&r);
    for p in deltas.iter().take(24) {
        note_point(o, p);
    }
    let mut deltas = vec![Point::new(seed, seed); n];
    let mut flags = vec![PointFlags::default(); nf];
    let r = t.accumulate_sparse_deltas(&mut deltas, &mut flags, scalar);
    o.res(&r);
    for p in deltas.iter().take(24) {
        note_point(o, p);
    }
    for f in flags.iter().take(24) {
        o.note(f.to_bits() as u64);
    }
}

/// `[coords][n_points u8][gvar]`
fn walk_gvar(bytes: &[u8], o: &mut Obs) {
    let Some((coords, rest)) = take_coords(bytes) else { return };
    let Some((&n_points, table)) = rest.split_first() else { return };
    let n_points = n_points as usize;
    let len = table.len();
    let r = Gvar::read(FontData::new(table));
    if !o.res(&r) {
        return;
    }
    let gvar = r.unwrap();
    let glyph_count = gvar.glyph_count();
    o.note(gvar.axis_count() as u64);
    o.note(gvar.shared_tuple_count() as u64);
    o.note(glyph_count as u64);
    o.note(gvar.flags().bits() as u64);
    o.note(gvar.glyph_variation_data_array_offset() as u64);
    o.note(gvar.as_bytes().len() as u64);
    // ComputedArray<Tuple>: items of 2 * axis_count bytes
    let st = gvar.shared_tuples();
    if o.res(&st) {
        let tuples = st.unwrap().tuples();
        o.note(tuples.len() as u64);
        o.note(tuples.is_empty() as u64);
        let n_iter = o.drain("shared_tuples.iter", len / 2 + 1, tuples.iter(), |o, t| {
            if o.res(&t) {
                o.note(t.unwrap().len() as u64);
            }
        });
        if n_iter != tuples.len() && o.over.is_none() {
            o.over = Some(format!("shared_tuples.iter yields {n_iter} items, len() = {}", tuples.len()));
        }
        for i in edge_usize(&[tuples.len(), gvar.shared_tuple_count() as usize]) {
            let t = tuples.get(i);
            if o.res(&t) {
                note_tuple(o, &t.unwrap());
            }
        }
    }
    // ComputedArray<U16Or32>
    let offs = gvar.glyph_variation_data_offsets();
    o.note(offs.len() as u64);
    let n_iter = o.drain("offsets.iter", len / 2 + 1, offs.iter(), |o, v| {
        if o.res(&v) {
            o.note(v.unwrap().get() as u64);
        }
    });
        if n_iter != offs.len() && o.over.is_none() {
            o.over = Some(format!("offsets.iter yields {n_iter} items, len() = {}", offs.len()));
        }
    for i in edge_usize(&[offs.len(), glyph_count as usize]) {
        let v = offs.get(i);
        if o.res(&v) {
            o.note(v.unwrap().get() as u64);
        }
    }
    for (a, b) in [(0usize, 0usize), (0, len), (0, len + 1), (len, len), (5, 2), (1, 3), (usize::MAX, usize::MAX), (usize::MAX - 1, usize::MAX), (0, usize::MAX), (u32::MAX as usize, u32::MAX as usize + 1)] {
        let r = gvar.glyph_variation_data_for_range(a..b);
        if o.res(&r) {
            o.note(r.unwrap().len() as u64);
        }
    }
    let mut gids = edge32(&[glyph_count as u64]);
    gids.extend(0..(glyph_count as u32).min(6));
    for gid in gids {
        let gid = GlyphId::new(gid);
        let d = gvar.data_for_gid(gid);
        if o.res(&d) {
            match d.unwrap() {
                Some(d) => o.note_bytes(&d.as_bytes()[..d.len().min(8)]),
                None => o.note(7),
            }
        }
        let r = gvar.glyph_variation_data(gid);
        if !o.res(&r) {
            continue;
        }
        let Some(tvd) = r.unwrap() else {
            o.note(8);
            continue;
        };
        walk_tvd(
            o,
            len,
            &tvd,
            &coords,
            &|o, d| {
                o.note(d.position as u64);
                o.note(d.x_delta as u64);
                o.note(d.y_delta as u64);
                for s in [Fixed::ONE, Fixed::from_bits(0x8000), Fixed::MAX, Fixed::MIN] {
                    note_point(o, &d.apply_scalar::<Fixed>(s));
                    note_point(o, &d.apply_scalar::<F26Dot6>(s));
                    note_point(o, &d.apply_scalar::<f32>(s));
                }
                // integer coordinates: only with scalars a tuple can produce (0 ..= 1.0)
                note_point(o, &d.apply_scalar::<i32>(Fixed::ONE));
                note_point(o, &d.apply_scalar::<i32>(Fixed::from_bits(0x4000)));
            },
            &mut |o, k, t| {
                let total = n_points + 4;
                let mut sizes = vec![0usize, 1, total.saturating_sub(1), total, total + 1, 64];
                if k == 0 {
                    sizes.extend([2, n_points, 129, 400]);
                }
                for n in sizes {
                    for (nf, scalar) in [(n, Fixed::ONE), (n.saturating_sub(1), Fixed::from_bits(0x8000)), (n + 1, Fixed::MIN), (0, Fixed::MAX)] {
                        accumulate::<Fixed>(o, t, n, nf, scalar, Fixed::from_bits(7));
                        if k == 0 {
                            accumulate::<F26Dot6>(o, t, n, nf, scalar, F26Dot6::from_bits(-3));
                            accumulate::<f32>(o, t, n, nf, scalar, 0.5);
                        }
                    }
                }
            },
        );
    }
}

/// Integer point coordinates (`PointCoord for i32`), fresh zeroed buffers, on the generated tables
/// only (not on their mutations, to keep the failure list short).
/// FINDING: `accumulate_sparse_deltas::<i32>` overflows `delta.x += …` (variations.rs:989/995) when a
/// tuple lists the same point number twice with 32 bit deltas; C01_HAND_SKIP_KNOWN=1 skips this walk.
fn walk_gvar_i32(bytes: &[u8], o: &mut Obs) {
    let Some((_, rest)) = take_coords(bytes) else { return };
    let Some((&n_points, table)) = rest.split_first() else { return };
    let Ok(gvar) = Gvar::read(FontData::new(table)) else { return };
    for gid in 0..(gvar.glyph_count() as u32).min(6) {
        let Ok(Some(tvd)) = gvar.glyph_variation_data(GlyphId::new(gid)) else { continue };
        o.drain("tuples", table.len() / 4 + 1, tvd.tuples(), |o, t| {
            let total = n_points as usize + 4;
            for n in [total, 0, 1, total + 1, 400] {
                for scalar in [Fixed::ONE, Fixed::from_bits(0x8000)] {
                    accumulate::<i32>(o, &t, n, n, scalar, 0);
                }
            }
        });
    }
}

/// phantom point deltas need glyf + loca: `[coords][n_points][gvar]` with the fixed glyph set
fn walk_phantom(bytes: &[u8], o: &mut Obs) {
    let Some((coords, rest)) = take_coords(bytes) else { return };
    let Some((_, table)) = rest.split_first() else { return };
    let Ok(gvar) = Gvar::read(FontData::new(table)) else { return };
    let (g, l) = glyf_loca();
    let glyf = Glyf::read(FontData::new(&g)).unwrap();
    let loca = Loca::read(FontData::new(&l), true).unwrap();
    let mut gids = edge32(&[gvar.glyph_count() as u64, 6]);
    gids.extend(0..8);
    for gid in gids {
        for c in coord_variants(&coords) {
            let r = gvar.phantom_point_deltas(&glyf, &loca, &c, GlyphId::new(gid));
            if o.res(&r) {
                match r.unwrap() {
                    Some(ps) => {
                        for p in ps {
                            note_point(o, &p);
                        }
                    }
                    None => o.note(9),
                }
            }
        }
    }
}

fn walk_u16or32(bytes: &[u8], o: &mut Obs) {
    for bits in [0u16, 1, 2, 3, 0xFFFF] {
        let flags = GvarFlags::from_bits_truncate(bits);
        o.res(&U16Or32::compute_size(&flags));
        let r = U16Or32::read_with_args(FontData::new(bytes), &flags);
        if o.res(&r) {
            o.note(r.unwrap().get() as u64);
        }
    }
}

fn run_gvar(ctx: &mut Ctx) {
    let rounds = if ctx.thorough { 120 } else { 20 };
    for round in 0..rounds {
        let axis_count = match round % 5 {
            0 => 0,
            1 => 1,
            _ => 1 + ctx.rng.below(3) as u16,
        };
        let n_shared = if round % 3 == 0 { 0 } else { 1 + ctx.rng.below(3) as u16 };
        let long = round % 2 == 0;
        // glyph 1 of the phantom fixture has 3 points
        let n_points = if round % 4 == 0 { 3 } else { 1 + ctx.rng.below(9) as usize };
        let n_glyphs = if round % 4 == 0 { 6 } else { 1 + ctx.rng.below(3) as usize };
        let mut glyphs = vec![];
        let mut clean = vec![];
        for k in 0..n_glyphs {
            if ctx.rng.chance(1, 4) && k != 1 {
                glyphs.push(vec![]);
                clean.push(None);
                continue;
            }
            let (t, n) = tuple_store(&mut ctx.rng, axis_count, true, n_shared, 0, n_points + 4);
            let mut v = t.v;
            if v.len() % 2 == 1 {
                v.push(0);
            }
            glyphs.push(v);
            clean.push(n);
        }
        let spec = GvarSpec { axis_count, n_shared, glyphs, long };
        let (t, ranges) = gvar_table(&mut ctx.rng, &spec);
        let mut b = B::new();
        let coords = rcoords(&mut ctx.rng, axis_count);
        put_coords(&mut b, &coords);
        b.u8(n_points as u8);
        b.append(&t);
        ctx.drive("gvar", &b, &walk_gvar);
        ctx.count(if long { "gvar.long" } else { "gvar.short" });
        if !skip_known() {
            ctx.call("gvar.i32", &b.v, &walk_gvar_i32);
        }
        if round % 4 == 0 {
            ctx.drive("gvar.phantom", &b, &walk_phantom);
            ctx.count("gvar.phantom");
        }
        // relational: the data of every glyph is exactly the generated block; clean stores yield
        // all their tuples
        if let Ok(gvar) = Gvar::read(FontData::new(&t.v)) {
            for (k, (s, e)) in ranges.iter().enumerate() {
                let r = catch(|| gvar.data_for_gid(GlyphId::new(k as u32)).map(|d| d.map(|d| d.as_bytes().to_vec())));
                let want = if s == e { None } else { Some(t.v[*s..*e].to_vec()) };
                ctx.oracle("gvar.data-for-gid", r == Ok(Ok(want)), || format!("gvar {} gid {}", hex(&t.v), k), || format!("got {:?}", r.as_ref().map(|r| r.as_ref().map(|d| d.as_ref().map(|d| d.len())))));
                if let Some(n) = clean[k] {
                    let r = catch(|| gvar.glyph_variation_data(GlyphId::new(k as u32)).ok().flatten().map(|d| d.tuples().take(5000).count()));
                    ctx.oracle("gvar.tuple-count", r == Ok(Some(n)), || format!("gvar {} gid {}", hex(&t.v), k), || format!("expected {n} tuples, got {r:?}"));
                }
            }
        }
        // hostile offset arrays: descending, beyond the data, all equal
        for variant in 0..4 {
            let mut m = b.clone();
            let base = b.len() - t.len();
            let w = if long { 4 } else { 2 };
            for k in 0..=n_glyphs {
                let pos = base + 20 + k * w;
                let v: u32 = match variant {
                    0 => ((n_glyphs - k) * 6) as u32,
                    1 => t.len() as u32 + k as u32 * 2,
                    2 => 4,
                    _ => ctx.rng.below(t.len() as u64 + 8) as u32,
                };
                if long {
                    m.set32(pos, v);
                } else {
                    m.set16(pos, (v / 2) as u16);
                }
            }
            ctx.call("gvar.offsets", &m.v, &walk_gvar);
        }
    }
    ctx.drive_random("gvar", if ctx.thorough { 2000 } else { 300 }, 96, &walk_gvar);
    ctx.drive_random("u16or32", if ctx.thorough { 600 } else { 120 }, 6, &walk_u16or32);
}

// ------------------------------------------------------------------------------------------------
// DeltaSetIndexMap

fn dsim_bytes(rng: &mut Rng, format: u8, entry_format: u8, map_count: u32) -> B {
    let mut b = B::new();
    b.f8(format).f8(entry_format);
    if format == 0 {
        b.f16(map_count as u16);
    } else {
        b.f32(map_count);
    }
    let entry_size = ((entry_format >> 4) & 3) as usize + 1;
    b.bytes(&rng.bytes(entry_size * map_count as usize));
    b
}

fn walk_dsim(bytes: &[u8], o: &mut Obs) {
    let r = DeltaSetIndexMap::read(FontData::new(bytes));
    if !o.res(&r) {
        return;
    }
    let m = r.unwrap();
    let ef = m.entry_format();
    o.note(m.format() as u64);
    o.note(ef.bits() as u64);
    o.note(ef.entry_size() as u64);
    o.note(ef.bit_count() as u64);
    let map_count = match &m {
        DeltaSetIndexMap::Format0(f) => f.map_count() as u32,
        DeltaSetIndexMap::Format1(f) => f.map_count(),
    };
    o.note(m.map_data().len() as u64);
    let mut ids = edge32(&[map_count as u64, (bytes.len() / 2) as u64, bytes.len() as u64]);
    ids.extend(0..map_count.min(8));
    let last = m.get(map_count.saturating_sub(1));
    for i in ids {
        let r = m.get(i);
        if o.res(&r) {
            let ix = r.as_ref().unwrap();
            o.note(ix.outer as u64);
            o.note(ix.inner as u64);
        }
        // an index at or beyond map_count uses the last entry
        if i >= map_count && map_count > 0 && r != last && o.over.is_none() {
            o.over = Some(format!("get({i}) = {r:?} but last entry get({}) = {last:?}", map_count - 1));
        }
    }
}

fn run_dsim(ctx: &mut Ctx) {
    // every entry format (entry size 1..4 × inner bit count 1..16) × both formats
    for ef in 0..=0x3Fu8 {
        for format in [0u8, 1] {
            let mc = match (ef as u32 + format as u32) % 4 {
                0 => 0,
                1 => 1,
                _ => 2 + ctx.rng.below(4) as u32,
            };
            let reserved = if ctx.rng.chance(1, 8) { 0xC0 } else { 0 };
            let b = dsim_bytes(&mut ctx.rng, format, ef | reserved, mc);
            if ef % 4 == format {
                ctx.drive("dsim", &b, &walk_dsim);
            } else {
                ctx.call("dsim", &b.v, &walk_dsim);
            }
            ctx.count(&format!("dsim.format{format}.size{}", ((ef >> 4) & 3) + 1));
            // relational: the decoded entry is the big-endian value split at bit_count
            if let Ok(m) = DeltaSetIndexMap::read(FontData::new(&b.v)) {
                let es = ((ef >> 4) & 3) as usize + 1;
                let bits = (ef & 0xF) as u32 + 1;
                let hdr = if format == 0 { 4 } else { 6 };
                for i in 0..mc + 2 {
                    let k = i.min(mc.saturating_sub(1)) as usize;
                    let want = if mc == 0 {
                        None
                    } else {
                        let mut e = 0u32;
                        for x in &b.v[hdr + k * es..hdr + k * es + es] {
                            e = (e << 8) | *x as u32;
                        }
                        Some(DeltaSetIndex { outer: (e >> bits) as u16, inner: (e & ((1u32 << bits) - 1)) as u16 })
                    };
                    let got = catch(|| m.get(i).ok());
                    ctx.oracle("dsim.get", got == Ok(want), || format!("dsim {} index {}", hex(&b.v), i), || format!("expected {want:?} got {got:?}"));
                }
            }
        }
    }
    // large maps: count × entry size around the data length, format 1 counts up to u32::MAX
    for (format, ef, mc, data) in [(1u8, 0x30u8, u32::MAX, 8usize), (1, 0x30, 0x4000_0000, 16), (1, 0x00, 0x1_0000, 0x1_0000), (0, 0x3F, 0xFFFF, 0xFFFF * 4), (0, 0x10, 0xFFFF, 0xFFFF * 2 - 1), (1, 0x20, 3, 8), (1, 0x20, 3, 9)] {
        let mut b = B::new();
        b.u8(format).u8(ef);
        if format == 0 {
            b.u16(mc as u16);
        } else {
            b.u32(mc);
        }
        b.zeros(data);
        ctx.call("dsim.big", &b.v, &walk_dsim);
    }
    ctx.drive_random("dsim", if ctx.thorough { 4000 } else { 600 }, 20, &walk_dsim);
    // EntryFormat helpers on every bit pattern
    ctx.call("entry-format", &[], &|_b, o| {
        for bits in 0..=0xFFu8 {
            let ef = EntryFormat::from_bits_truncate(bits);
            let es = ef.entry_size();
            let bc = ef.bit_count();
            if !((1..=4).contains(&es) && (1..=16).contains(&bc)) && o.over.is_none() {
                o.over = Some(format!("EntryFormat {bits:#x}: entry_size {es} bit_count {bc}"));
            }
            o.note(es as u64 * 32 + bc as u64);
        }
    });
}

// ------------------------------------------------------------------------------------------------
// ItemVariationStore

fn row_len(word_delta_count: u16, region_index_count: u16) -> usize {
    let long = word_delta_count & 0x8000 != 0;
    let words = (word_delta_count & 0x7FFF) as usize;
    let shorts = (region_index_count as usize).saturating_sub(words);
    if long {
        words * 4 + shorts * 2
    } else {
        words * 2 + shorts
    }
}

/// returns the store and (item_count, region_index_count) per subtable
fn ivs(rng: &mut Rng, axis_count: u16, n_regions: u16, n_data: usize) -> (B, Vec<(u16, u16)>) {
    let mut b = B::new();
    b.u16(1).f32(0).f16(n_data as u16);
    let offs = b.len();
    for _ in 0..n_data {
        b.f32(0);
    }
    let at = b.len();
    b.set32(2, at as u32);
    b.f16(axis_count).f16(n_regions);
    for _ in 0..n_regions {
        for _ in 0..axis_count {
            let vals: [i16; 3] = match rng.below(6) {
                0 => [0, 0x4000, 0x4000],
                1 => [-0x4000, -0x4000, 0],
                2 => [0, 0x2000, 0x4000],
                3 => [-0x4000, 0x2000, 0x4000],
                4 => [0, 0, 0],
                _ => [rcoord(rng), rcoord(rng), rcoord(rng)],
            };
            b.i16(vals[0]).i16(vals[1]).i16(vals[2]);
        }
    }
    let mut shapes = vec![];
    for k in 0..n_data {
        if rng.chance(1, 8) {
            // null offset
            shapes.push((0, 0));
            continue;
        }
        let at = b.len();
        b.set32(offs + 4 * k, at as u32);
        let item_count = rng.below(4) as u16;
        let nri = match rng.below(6) {
            0 => 0,
            1 => 17 + rng.below(3) as u16,
            _ => 1 + rng.below(4) as u16,
        };
        let mut word = match rng.below(6) {
            0 => nri + 1 + rng.below(3) as u16,
            1 => 0,
            2 => nri,
            _ => rng.below(nri as u64 + 1) as u16,
        };
        if rng.chance(1, 3) {
            word |= 0x8000;
        }
        b.f16(item_count).f16(word).f16(nri);
        for _ in 0..nri {
            b.u16(if n_regions == 0 || rng.chance(1, 8) { rng.below(n_regions as u64 + 3) as u16 } else { rng.below(n_regions as u64) as u16 });
        }
        let n = row_len(word, nri) * item_count as usize;
        let mut bytes = rng.bytes(n);
        if rng.chance(1, 4) {
            for x in bytes.iter_mut() {
                *x = *rng.pick(&[0x7Fu8, 0x80, 0xFF, 0]);
            }
        }
        b.bytes(&bytes);
        shapes.push((item_count, nri));
    }
    (b, shapes)
}

fn note_region(o: &mut Obs, r: &VariationRegion, coords: &[F2Dot14]) {
    o.note(r.region_axes().len() as u64);
    for c in coord_variants(coords) {
        o.note(r.compute_scalar(&c).to_bits() as u64);
        o.note(r.compute_scalar_f32(&c).to_bits() as u64);
    }
}

fn walk_ivs_store(o: &mut Obs, len: usize, store: &ItemVariationStore, coords: &[F2Dot14]) {
    o.note(store.format() as u64);
    let data_count = store.item_variation_data_count();
    o.note(data_count as u64);
    let rl = store.variation_region_list();
    let mut region_count = 0usize;
    if o.res(&rl) {
        let rl = rl.unwrap();
        o.note(rl.axis_count() as u64);
        o.note(rl.region_count() as u64);
        let regions = rl.variation_regions();
        region_count = regions.len();
        o.note(regions.len() as u64);
        // items of 6 * axis_count bytes
        let mut k = 0;
        let n_iter = o.drain("regions.iter", len / 6 + 1, regions.iter(), |o, r| {
            if o.res(&r) && k < 6 {
                note_region(o, &r.unwrap(), coords);
            }
            k += 1;
        });
        if n_iter != regions.len() && o.over.is_none() {
            o.over = Some(format!("regions.iter yields {n_iter} items, len() = {}", regions.len()));
        }
        for i in edge_usize(&[regions.len(), rl.region_count() as usize]) {
            let r = regions.get(i);
            if o.res(&r) {
                note_region(o, &r.unwrap(), coords);
            }
        }
    }
    let ivd = store.item_variation_data();
    let mut item_counts: Vec<u32> = vec![];
    o.drain("item_variation_data.iter", len / 4 + 1, ivd.iter(), |o, d| match d {
        None => o.note(0),
        Some(d) => {
            if o.res(&d) {
                let d = d.unwrap();
                item_counts.push(d.item_count() as u32);
                walk_ivd(o, len, &d);
            }
        }
    });
    for i in edge_usize(&[data_count as usize]) {
        match ivd.get(i) {
            None => o.note(0),
            Some(d) => {
                o.res(&d);
            }
        }
    }
    let mut outers = edge16(&[data_count as u32]);
    outers.retain(|x| *x < 4 || (*x as u32 + 2 >= data_count as u32 && *x as u32 <= data_count as u32 + 1) || *x >= 0xFFFE);
    let mut ic: Vec<u32> = item_counts.iter().take(4).copied().collect();
    ic.push(region_count as u32);
    let mut inners = edge16(&ic);
    inners.retain(|x| *x < 5 || *x >= 0xFFFE || ic.iter().any(|c| (*x as u32 + 1 >= *c) && (*x as u32 <= *c + 1)));
    let variants = coord_variants(coords);
    for outer in &outers {
        for inner in &inners {
            let ix = DeltaSetIndex { outer: *outer, inner: *inner };
            for (k, c) in variants.iter().enumerate() {
                if k > 1 && *inner > 3 {
                    continue;
                }
                let r = store.compute_delta(ix, c);
                if o.res(&r) {
                    o.note(r.unwrap() as u64);
                }
                let r = store.compute_float_delta(ix, c);
                if o.res(&r) {
                    let d = r.unwrap();
                    o.note(Fixed::ZERO.apply_float_delta(d).to_bits() as u64);
                    o.note(Fixed::MAX.apply_float_delta(d).to_bits() as u64);
                    o.note(font_types::FWord::new(-7).apply_float_delta(d).to_bits() as u64);
                    o.note(font_types::UfWord::new(9).apply_float_delta(d).to_bits() as u64);
                    o.note(F2Dot14::MIN.apply_float_delta(d).to_bits() as u64);
                }
            }
        }
    }
}

fn walk_ivd(o: &mut Obs, len: usize, d: &ItemVariationData) {
    let item_count = d.item_count();
    let wdc = d.word_delta_count();
    let ric = d.region_index_count();
    o.note(item_count as u64);
    o.note(wdc as u64);
    o.note(ric as u64);
    o.note(d.region_indexes().len() as u64);
    o.note(d.delta_sets().len() as u64);
    let rl = d.get_delta_row_len();
    o.note(rl as u64);
    if rl != row_len(wdc, ric) && o.over.is_none() {
        o.over = Some(format!("delta row len {rl} for word_delta_count {wdc:#x} region_index_count {ric}"));
    }
    let mut ids = edge16(&[item_count as u32]);
    ids.retain(|x| *x < 3 || *x >= 0xFFFE || (*x as u32 + 1 >= item_count as u32 && *x as u32 <= item_count as u32 + 1));
    for i in ids {
        // region_index_count values, each of which needs 2 bytes of region index in the table
        let n = o.drain("delta_set", len / 2 + 1, d.delta_set(i), |o, v| o.note(v as u64));
        // a complete row yields one delta per region
        if i < item_count && n != ric as usize && o.over.is_none() {
            o.over = Some(format!("delta_set({i}) of a complete table yields {n} of {ric} values"));
        }
    }
}

/// `[coords][ivs]`
fn walk_ivs(bytes: &[u8], o: &mut Obs) {
    let Some((coords, table)) = take_coords(bytes) else { return };
    let r = ItemVariationStore::read(FontData::new(table));
    if !o.res(&r) {
        return;
    }
    walk_ivs_store(o, table.len(), &r.unwrap(), &coords);
}

fn run_ivs(ctx: &mut Ctx) {
    let rounds = if ctx.thorough { 240 } else { 40 };
    for round in 0..rounds {
        let axis_count = match round % 5 {
            0 => 0,
            1 => 1,
            _ => 1 + ctx.rng.below(3) as u16,
        };
        let n_regions = ctx.rng.below(4) as u16;
        let n_data = ctx.rng.below(4) as usize;
        let (t, _) = ivs(&mut ctx.rng, axis_count, n_regions, n_data);
        let mut b = B::new();
        let coords = rcoords(&mut ctx.rng, axis_count.max(1));
        put_coords(&mut b, &coords);
        b.append(&t);
        ctx.drive("ivs", &b, &walk_ivs);
        ctx.count(&format!("ivs.data{n_data}"));
    }
    ctx.drive_random("ivs", if ctx.thorough { 3000 } else { 400 }, 64, &walk_ivs);
    // the static length helpers on the whole boundary grid
    ctx.call("ivs.row-len", &[], &|_b, o| {
        let vals = edge16(&[0x7FFE, 0x8001, 0x8002, 17]);
        for w in &vals {
            for r in &vals {
                let n = ItemVariationData::delta_row_len(*w, *r);
                if n != row_len(*w, *r) && o.over.is_none() {
                    o.over = Some(format!("delta_row_len({w:#x}, {r}) = {n}"));
                }
                for i in [0u16, 1, 2, 0x7FFF, 0xFFFF] {
                    let s = ItemVariationData::delta_sets_len(i, *w, *r);
                    if s != n * i as usize && o.over.is_none() {
                        o.over = Some(format!("delta_sets_len({i}, {w:#x}, {r}) = {s}"));
                    }
                    o.note(s as u64);
                }
            }
        }
    });
}

// ------------------------------------------------------------------------------------------------
// HVAR / VVAR

/// `n_maps` = 3 (HVAR) or 4 (VVAR)
fn metrics_var_table(rng: &mut Rng, n_maps: usize, axis_count: u16) -> B {
    let mut b = B::new();
    b.u16(1).u16(0).f32(0);
    for _ in 0..n_maps {
        b.f32(0);
    }
    let (store, _) = {
        let (nr, nd) = (1 + rng.below(3) as u16, 1 + rng.below(2) as usize);
        ivs(rng, axis_count, nr, nd)
    };
    let at = b.append(&store);
    b.set32(4, at as u32);
    for k in 0..n_maps {
        match rng.below(5) {
            0 => {}
            1 if k > 0 => {
                // shares the previous map
                let prev = u32::from_be_bytes(b.v[8 + 4 * (k - 1)..12 + 4 * (k - 1)].try_into().unwrap());
                b.set32(8 + 4 * k, prev);
            }
            _ => {
                let ef = (rng.below(4) as u8) << 4 | rng.below(16) as u8;
                let (f, mc) = (rng.below(2) as u8, rng.below(5) as u32);
                let m = dsim_bytes(rng, f, ef, mc);
                let at = b.append(&m);
                b.set32(8 + 4 * k, at as u32);
            }
        }
    }
    b
}

fn metric_gids(o: &mut Obs, maps: &[Option<Result<DeltaSetIndexMap, ReadError>>], store: &Result<ItemVariationStore, ReadError>) -> Vec<u32> {
    let mut marks: Vec<u64> = vec![];
    for m in maps {
        match m {
            Some(Ok(DeltaSetIndexMap::Format0(f))) => marks.push(f.map_count() as u64),
            Some(Ok(DeltaSetIndexMap::Format1(f))) => marks.push(f.map_count() as u64),
            Some(Err(_)) => o.note(3),
            None => o.note(4),
        }
    }
    if let Ok(s) = store {
        if let Some(Ok(d)) = s.item_variation_data().get(0) {
            marks.push(d.item_count() as u64);
        }
    }
    let mut g = edge32(&marks);
    g.retain(|x| *x < 4 || *x >= 0xFFFF_FFFE || [0xFFFFu32, 0x10000, 0x10FFFF].contains(x) || marks.iter().any(|m| (*x as u64 + 1 >= *m) && (*x as u64 <= *m + 1)));
    g
}

fn walk_hvar(bytes: &[u8], o: &mut Obs) {
    let Some((coords, table)) = take_coords(bytes) else { return };
    let r = Hvar::read(FontData::new(table));
    if !o.res(&r) {
        return;
    }
    let t = r.unwrap();
    let gids = metric_gids(o, &[t.advance_width_mapping(), t.lsb_mapping(), t.rsb_mapping()], &t.item_variation_store());
    for gid in gids {
        let gid = GlyphId::new(gid);
        for c in coord_variants(&coords) {
            note_fixed_res(o, &t.advance_width_delta(gid, &c));
            note_fixed_res(o, &t.lsb_delta(gid, &c));
            note_fixed_res(o, &t.rsb_delta(gid, &c));
        }
    }
}

fn walk_vvar(bytes: &[u8], o: &mut Obs) {
    let Some((coords, table)) = take_coords(bytes) else { return };
    let r = Vvar::read(FontData::new(table));
    if !o.res(&r) {
        return;
    }
    let t = r.unwrap();
    let gids = metric_gids(o, &[t.advance_height_mapping(), t.tsb_mapping(), t.bsb_mapping(), t.v_org_mapping()], &t.item_variation_store());
    for gid in gids {
        let gid = GlyphId::new(gid);
        for c in coord_variants(&coords) {
            note_fixed_res(o, &t.advance_height_delta(gid, &c));
            note_fixed_res(o, &t.tsb_delta(gid, &c));
            note_fixed_res(o, &t.bsb_delta(gid, &c));
            note_fixed_res(o, &t.v_org_delta(gid, &c));
        }
    }
}

fn run_hvar_vvar(ctx: &mut Ctx) {
    let rounds = if ctx.thorough { 120 } else { 20 };
    for round in 0..rounds {
        let axis_count = 1 + (round % 3) as u16;
        for n_maps in [3usize, 4] {
            let t = metrics_var_table(&mut ctx.rng, n_maps, axis_count);
            let mut b = B::new();
            let coords = rcoords(&mut ctx.rng, axis_count);
            put_coords(&mut b, &coords);
            b.append(&t);
            if n_maps == 3 {
                ctx.drive("hvar", &b, &walk_hvar);
                ctx.count("hvar");
            } else {
                ctx.drive("vvar", &b, &walk_vvar);
                ctx.count("vvar");
            }
        }
    }
    ctx.drive_random("hvar", if ctx.thorough { 1500 } else { 200 }, 64, &walk_hvar);
    ctx.drive_random("vvar", if ctx.thorough { 1500 } else { 200 }, 64, &walk_vvar);
}

// ------------------------------------------------------------------------------------------------
// MVAR

const MVAR_TAGS: [&[u8; 4]; 10] = [b"hasc", b"hdsc", b"hlgp", b"xhgt", b"cpht", b"undo", b"unds", b"stro", b"strs", b"gsp0"];

fn mvar_table(rng: &mut Rng, tags: &[[u8; 4]], axis_count: u16, with_store: bool) -> B {
    let mut b = B::new();
    b.u16(1).u16(0).u16(0).f16(8).f16(tags.len() as u16).f16(0);
    for t in tags {
        b.tag(t).u16(rng.below(3) as u16).u16(rng.below(4) as u16);
    }
    if with_store {
        let (store, _) = {
        let (nr, nd) = (1 + rng.below(3) as u16, 1 + rng.below(2) as usize);
        ivs(rng, axis_count, nr, nd)
    };
        let at = b.append(&store);
        b.set16(10, at as u16);
    }
    b
}

fn walk_mvar(bytes: &[u8], o: &mut Obs) {
    let Some((coords, table)) = take_coords(bytes) else { return };
    let r = Mvar::read(FontData::new(table));
    if !o.res(&r) {
        return;
    }
    let t = r.unwrap();
    let recs = t.value_records();
    o.note(recs.len() as u64);
    o.note(t.value_record_size() as u64);
    let mut tags: Vec<u32> = vec![0, 1, 0x2020_2020, 0x7F7F_7F7F, 0xFFFF_FFFE, 0xFFFF_FFFF];
    let picks: Vec<usize> = if recs.len() <= 12 { (0..recs.len()).collect() } else { vec![0, 1, 2, recs.len() / 2, recs.len() - 3, recs.len() - 2, recs.len() - 1] };
    for i in &picks {
        let v = u32::from_be_bytes(recs[*i].value_tag().to_be_bytes());
        tags.extend([v.wrapping_sub(1), v, v.wrapping_add(1)]);
    }
    for t4 in MVAR_TAGS {
        tags.push(u32::from_be_bytes(*t4));
    }
    tags.sort();
    tags.dedup();
    let sorted = recs.windows(2).all(|w| w[0].value_tag() < w[1].value_tag());
    for tag in tags {
        let tag = Tag::from_be_bytes(tag.to_be_bytes());
        for (k, c) in coord_variants(&coords).iter().enumerate() {
            let r = t.metric_delta(tag, c);
            note_fixed_res(o, &r);
            // binary search over sorted records finds every tag that is present, and nothing else
            if k == 0 && sorted {
                let present = recs.iter().any(|r| r.value_tag() == tag);
                let missing = matches!(r, Err(ReadError::MetricIsMissing(_)));
                if present == missing && o.over.is_none() {
                    o.over = Some(format!("metric_delta({tag}) present={present} but result {r:?}"));
                }
            }
        }
    }
}

fn run_mvar(ctx: &mut Ctx) {
    let rounds = if ctx.thorough { 180 } else { 32 };
    for round in 0..rounds {
        let n = match round % 6 {
            0 => 0,
            1 => 1,
            2 => 2,
            _ => 3 + ctx.rng.below(7) as usize,
        };
        let mut tags: Vec<[u8; 4]> = vec![];
        while tags.len() < n {
            let t = **ctx.rng.pick(&MVAR_TAGS);
            if !tags.contains(&t) {
                tags.push(t);
            }
        }
        tags.sort();
        match round % 4 {
            1 => ctx.rng.shuffle(&mut tags),
            2 if n > 1 => tags[n - 1] = tags[0],
            _ => {}
        }
        let axis_count = 1 + ctx.rng.below(2) as u16;
        let t = mvar_table(&mut ctx.rng, &tags, axis_count, round % 5 != 4);
        let mut b = B::new();
        let coords = rcoords(&mut ctx.rng, axis_count);
        put_coords(&mut b, &coords);
        b.append(&t);
        ctx.drive("mvar", &b, &walk_mvar);
        ctx.count(match round % 4 {
            1 => "mvar.shuffled",
            2 => "mvar.duplicate",
            _ => "mvar.sorted",
        });
    }
    // every record count 0..=40 with sorted tags: each one must be found
    for n in 0..=40u32 {
        let tags: Vec<[u8; 4]> = (0..n).map(|k| (0x6100_0000u32 + k * 3).to_be_bytes()).collect();
        let t = mvar_table(&mut ctx.rng, &tags, 1, true);
        let mut b = B::new();
        put_coords(&mut b, &[0x2000]);
        b.append(&t);
        ctx.call("mvar.sweep", &b.v, &walk_mvar);
    }
    ctx.drive_random("mvar", if ctx.thorough { 1500 } else { 200 }, 64, &walk_mvar);
}

// ------------------------------------------------------------------------------------------------
// avar

fn segment_map(rng: &mut Rng, b: &mut B) {
    let n = match rng.below(6) {
        0 => 0,
        1 => 1,
        2 => 3,
        _ => 2 + rng.below(5) as usize,
    };
    b.f16(n as u16);
    let mut from: Vec<i16> = (0..n).map(|_| rcoord(rng)).collect();
    match rng.below(4) {
        0 => {}
        1 if n > 1 => {
            from.sort();
            from[n - 1] = from[n - 2];
        }
        _ => from.sort(),
    }
    for f in from {
        b.i16(f).i16(rcoord(rng));
    }
}

fn avar_table(rng: &mut Rng, version: u16, axis_count: u16) -> B {
    let mut b = B::new();
    b.f16(version).u16(0).u16(0).f16(axis_count);
    for _ in 0..axis_count {
        segment_map(rng, &mut b);
    }
    if version >= 2 {
        let at = b.len();
        b.f32(0).f32(0);
        if rng.chance(3, 4) {
            let ef = (rng.below(4) as u8) << 4 | rng.below(16) as u8;
            let (f, mc) = (rng.below(2) as u8, rng.below(axis_count as u64 + 2) as u32);
            let m = dsim_bytes(rng, f, ef, mc);
            let p = b.append(&m);
            b.set32(at, p as u32);
        }
        if rng.chance(3, 4) {
            let (s, _) = {
        let (nr, nd) = (1 + rng.below(3) as u16, 1 + rng.below(2) as usize);
        ivs(rng, axis_count, nr, nd)
    };
            let p = b.append(&s);
            b.set32(at + 4, p as u32);
        }
    }
    b
}

fn note_segment_map(o: &mut Obs, m: &SegmentMaps, extra: &[F2Dot14]) {
    let maps = m.axis_value_maps();
    o.note(maps.len() as u64);
    let mut xs: Vec<i32> = vec![0, 1, -1, 0x10000, -0x10000, 0x8000, i32::MAX, i32::MIN, i32::MAX - 1, i32::MIN + 1];
    for avm in maps.iter().take(10) {
        let f = avm.from_coordinate().to_fixed().to_bits();
        xs.extend([f.wrapping_sub(1), f, f.wrapping_add(1), f.wrapping_add(2), f.wrapping_sub(4)]);
    }
    for e in extra {
        xs.push(e.to_fixed().to_bits());
    }
    xs.sort();
    xs.dedup();
    let sorted = maps.windows(2).all(|w| w[0].from_coordinate() < w[1].from_coordinate());
    for x in xs {
        let r = m.apply(Fixed::from_bits(x));
        o.note(r.to_bits() as u64);
        if sorted {
            // an exact from-coordinate maps to its to-coordinate
            if let Some(avm) = maps.iter().find(|a| a.from_coordinate().to_fixed().to_bits() == x) {
                if r != avm.to_coordinate().to_fixed() && o.over.is_none() {
                    o.over = Some(format!("SegmentMaps::apply({x:#x}) = {:#x}, expected the to-coordinate", r.to_bits()));
                }
            }
        }
    }
}

fn walk_avar_table(o: &mut Obs, len: usize, avar: &Avar, coords: &[F2Dot14]) {
    o.note(avar.version().major as u64);
    let axis_count = avar.axis_count() as usize;
    o.note(axis_count as u64);
    let maps = avar.axis_segment_maps();
    // every segment map takes at least 2 bytes
    let mut k = 0;
    let mut counts: Vec<Option<usize>> = vec![];
    let n = o.drain("segment_maps.iter", len / 2 + 1, maps.iter(), |o, m| {
        counts.push(m.as_ref().ok().map(|m| m.axis_value_maps().len()));
        if o.res(&m) && k < 8 {
            note_segment_map(o, &m.unwrap(), coords);
        }
        k += 1;
    });
    // random access agrees with iteration
    for (i, c) in counts.iter().enumerate().take(12) {
        let got = maps.get(i).map(|m| m.ok().map(|m| m.axis_value_maps().len()));
        if got != Some(*c) && o.over.is_none() {
            o.over = Some(format!("axis_segment_maps().get({i}) = {got:?}, iter gives {c:?}"));
        }
    }
    if n != axis_count && o.over.is_none() {
        o.over = Some(format!("axis_segment_maps yields {n} maps for axis_count {axis_count}"));
    }
    for i in edge_usize(&[axis_count]) {
        match maps.get(i) {
            None => o.note(0),
            Some(m) => {
                if o.res(&m) {
                    o.note(m.unwrap().axis_value_maps().len() as u64);
                }
            }
        }
    }
    if let Some(m) = avar.axis_index_map() {
        if o.res(&m) {
            let m = m.unwrap();
            for i in edge32(&[axis_count as u64]) {
                o.res(&m.get(i));
            }
        }
    }
    if let Some(s) = avar.var_store() {
        if o.res(&s) {
            walk_ivs_store(o, len, &s.unwrap(), coords);
        }
    }
}

fn walk_avar(bytes: &[u8], o: &mut Obs) {
    let Some((coords, table)) = take_coords(bytes) else { return };
    let r = Avar::read(FontData::new(table));
    if !o.res(&r) {
        return;
    }
    walk_avar_table(o, table.len(), &r.unwrap(), &coords);
}

/// `SegmentMaps` directly: `FontRead::read` and `VarSize::read_len_at` at every position
fn walk_segment_maps(bytes: &[u8], o: &mut Obs) {
    let data = FontData::new(bytes);
    let r = SegmentMaps::read(data);
    if o.res(&r) {
        note_segment_map(o, &r.unwrap(), &[]);
    }
    for pos in edge_usize(&[bytes.len(), bytes.len().saturating_sub(2)]) {
        let n = <SegmentMaps as VarSize>::read_len_at(data, pos);
        o.note(n.map(|v| (v as u64).wrapping_add(1)).unwrap_or(0));
    }
    for count in edge_usize(&[bytes.len() / 2, bytes.len()]) {
        let r = <SegmentMaps as VarSize>::total_len_for_count(data, count.min(1 << 20));
        if o.res(&r) {
            o.note(r.unwrap() as u64);
        }
    }
}

/// `array.rs`: `impl FontReadWithArgs for &[T]` (`[count u16][data]`), and the packed point / delta
/// containers behind the tuple accessors (`[packed data]`)
fn walk_slice_and_packed(bytes: &[u8], o: &mut Obs) {
    use font_types::BigEndian;
    use read_fonts::tables::variations::{DeltaRunType, PackedDeltas, PackedPointNumbers};
    let len = bytes.len();
    if let Some(count) = be16(bytes, 0) {
        let data = FontData::new(&bytes[2..]);
        for c in [count, 0, 1, ((len - 2) / 2) as u16, ((len - 2) / 2 + 1) as u16, 0x7FFF, 0x8000, 0xFFFF] {
            let r = <&[BigEndian<u16>]>::read_with_args(data, &c);
            if o.res(&r) {
                let r = r.unwrap();
                o.note(r.len() as u64);
                if r.len() != c as usize && o.over.is_none() {
                    o.over = Some(format!("<&[u16]>::read_with_args(count {c}) has {} items", r.len()));
                }
            }
            let r = <&[u8]>::read_with_args(data, &c);
            if o.res(&r) {
                o.note(r.unwrap().len() as u64);
            }
            let r = <&[BigEndian<u32>]>::read_with_args(data, &c);
            if o.res(&r) {
                o.note(r.unwrap().len() as u64);
            }
        }
    }
    let (points, rest) = PackedPointNumbers::split_off_front(FontData::new(bytes));
    o.note(points.count() as u64);
    o.note(rest.len() as u64);
    if rest.len() > len && o.over.is_none() {
        o.over = Some("split_off_front remainder longer than the data".into());
    }
    // at most 0x7FFF explicit points, or 0 ..= 0xFFFE for "all points"
    o.drain("packed_points.iter", 65536, points.iter(), |o, p| o.note(p as u64));
    let deltas = PackedDeltas::consume_all(FontData::new(bytes));
    // every byte yields at most 64 deltas
    o.drain("packed_deltas.iter", 64 * len + 64, deltas.iter(), |o, d| o.note(d as u64));
    if let Some(c) = bytes.first() {
        o.note(DeltaRunType::new(*c) as u64);
    }
}

fn run_avar(ctx: &mut Ctx) {
    let rounds = if ctx.thorough { 300 } else { 50 };
    for round in 0..rounds {
        let version = match round % 5 {
            0 | 1 => 1,
            4 => 3,
            _ => 2,
        };
        let axis_count = match round % 4 {
            0 => 0,
            1 => 1,
            _ => 1 + ctx.rng.below(4) as u16,
        };
        let t = avar_table(&mut ctx.rng, version, axis_count);
        let mut b = B::new();
        let coords = rcoords(&mut ctx.rng, axis_count);
        put_coords(&mut b, &coords);
        b.append(&t);
        ctx.drive("avar", &b, &walk_avar);
        ctx.count(&format!("avar.v{version}"));
    }
    for _ in 0..(if ctx.thorough { 60 } else { 12 }) {
        let mut b = B::new();
        segment_map(&mut ctx.rng, &mut b);
        if ctx.rng.chance(1, 2) {
            b.bytes(&ctx.rng.bytes(3));
        }
        ctx.drive("segment-maps", &b, &walk_segment_maps);
    }
    for _ in 0..(if ctx.thorough { 120 } else { 24 }) {
        let mut b = B::new();
        let mut intact = true;
        if ctx.rng.chance(1, 2) {
            let (p, n) = packed_points(&mut ctx.rng, &mut intact);
            b.bytes(&p);
            let vals: Vec<i32> = (0..n.max(3)).map(|_| rdelta(&mut ctx.rng)).collect();
            b.bytes(&packed_deltas(&vals, &mut ctx.rng));
        } else {
            let n = ctx.rng.below(9) as u16;
            b.f16(n);
            b.bytes(&ctx.rng.bytes(2 * n as usize));
            b.bytes(&rbytes(&mut ctx.rng, 3));
        }
        ctx.drive("slice-and-packed", &b, &walk_slice_and_packed);
    }
    ctx.drive_random("slice-and-packed", if ctx.thorough { 3000 } else { 500 }, 24, &walk_slice_and_packed);
    ctx.drive_random("avar", if ctx.thorough { 2000 } else { 300 }, 48, &walk_avar);
    ctx.drive_random("segment-maps", if ctx.thorough { 2000 } else { 300 }, 24, &walk_segment_maps);
}

// ------------------------------------------------------------------------------------------------
// fvar + InstanceRecord

fn rfixed(rng: &mut Rng) -> i32 {
    match rng.below(10) {
        0 => i32::MIN,
        1 => i32::MAX,
        2 => 0,
        3 => 0x10000,
        4 => -0x10000,
        5 => rng.next() as i32,
        _ => (rng.range(-1000, 1000) as i32) << 16,
    }
}

struct FvarSpec {
    axis_count: u16,
    instance_count: u16,
    instance_size: u16,
    sorted_axes: bool,
}

fn fvar_table(rng: &mut Rng, s: &FvarSpec) -> B {
    let mut b = B::new();
    b.u16(1).u16(0).f16(16).u16(2).f16(s.axis_count).f16(20).f16(s.instance_count).f16(s.instance_size);
    for k in 0..s.axis_count {
        let mut v = [rfixed(rng), rfixed(rng), rfixed(rng)];
        if s.sorted_axes {
            v.sort();
        }
        // a repeated tag: user_to_normalized updates every axis with that tag
        let tag = if k % 3 == 2 { *b"wght" } else { [b'a' + (k % 26) as u8, b'x', b'i', b's'] };
        b.tag(&tag).i32(v[0]).i32(v[1]).i32(v[2]).u16(0).u16(256 + k);
    }
    for k in 0..s.instance_count {
        let at = b.len();
        b.u16(300 + k).u16(0);
        for _ in 0..s.axis_count {
            b.i32(rfixed(rng));
        }
        b.u16(if k % 2 == 0 { 0xFFFF } else { 400 + k });
        b.v.resize(at + s.instance_size as usize, 0);
    }
    b
}

/// `[fvar_len u16][fvar][avar]`
fn walk_fvar(bytes: &[u8], o: &mut Obs) {
    let Some(flen) = be16(bytes, 0) else { return };
    let rest = &bytes[2..];
    let flen = (flen as usize).min(rest.len());
    let (ft, at) = rest.split_at(flen);
    let r = Fvar::read(FontData::new(ft));
    if !o.res(&r) {
        return;
    }
    let fvar = r.unwrap();
    let len = ft.len();
    let axis_count = fvar.axis_count() as usize;
    o.note(axis_count as u64);
    o.note(fvar.instance_count() as u64);
    o.note(fvar.instance_size() as u64);
    let axes = fvar.axes();
    let mut probes: Vec<(Tag, Fixed)> = vec![(Tag::new(b"zzzz"), Fixed::ONE)];
    if o.res(&axes) {
        let axes = axes.unwrap();
        o.note(axes.len() as u64);
        let step = (axes.len() / 8).max(1);
        for a in axes.iter().step_by(step).take(9) {
            let marks = [a.min_value().to_bits(), a.default_value().to_bits(), a.max_value().to_bits()];
            let mut xs: Vec<i32> = vec![0, 1, -1, i32::MIN, i32::MAX, 0x10000];
            for m in marks {
                xs.extend([m.wrapping_sub(1), m, m.wrapping_add(1)]);
            }
            xs.extend([(marks[0] / 2).wrapping_add(marks[1] / 2), (marks[1] / 2).wrapping_add(marks[2] / 2)]);
            for x in xs {
                let n = a.normalize(Fixed::from_bits(x));
                o.note(n.to_bits() as u64);
                if !(-0x10000..=0x10000).contains(&n.to_bits()) && o.over.is_none() {
                    o.over = Some(format!("normalize({x:#x}) = {:#x} outside [-1, 1]", n.to_bits()));
                }
                probes.push((a.axis_tag(), Fixed::from_bits(x)));
            }
        }
    }
    let inst = fvar.instances();
    if o.res(&inst) {
        let inst = inst.unwrap();
        o.note(inst.len() as u64);
        o.note(inst.is_empty() as u64);
        // items of instance_size > 0 bytes
        let n_iter = o.drain("instances.iter", len + 1, inst.iter(), |o, r| {
            if o.res(&r) {
                let r = r.unwrap();
                o.note(r.subfamily_name_id.to_u16() as u64);
                o.note(r.coordinates.len() as u64);
                o.note(r.post_script_name_id.map(|n| n.to_u16() as u64 + 1).unwrap_or(0));
            }
        });
        if n_iter != inst.len() && o.over.is_none() {
            o.over = Some(format!("instances.iter yields {n_iter} items, len() = {}", inst.len()));
        }
        for i in edge_usize(&[inst.len(), fvar.instance_count() as usize]) {
            let r = inst.get(i);
            if o.res(&r) {
                let r = r.unwrap();
                o.note(r.flags as u64);
                o.note(r.coordinates.len() as u64);
                o.note(r.post_script_name_id.map(|n| n.to_u16() as u64 + 1).unwrap_or(0));
            }
        }
    }
    let avar = if at.is_empty() { None } else { Avar::read(FontData::new(at)).ok() };
    o.note(avar.is_some() as u64);
    // user coordinates: a few at a time (the last one for a tag wins), and all at once
    let mut sets: Vec<Vec<(Tag, Fixed)>> = vec![vec![], probes.clone()];
    for w in probes.chunks(3).take(24) {
        sets.push(w.to_vec());
    }
    let mut lens = vec![0usize, axis_count.saturating_sub(1), axis_count, axis_count + 1, 63, 64, 65, 70];
    lens.sort();
    lens.dedup();
    for (k, set) in sets.iter().enumerate() {
        for n in &lens {
            if k > 3 && *n != axis_count {
                continue;
            }
            if k > 3 && axis_count > 16 {
                continue;
            }
            let mut out = vec![F2Dot14::from_bits(0x1234); *n];
            fvar.user_to_normalized(avar.as_ref(), set.iter().copied(), &mut out);
            for v in out.iter().take(70) {
                o.note(v.to_bits() as u64);
            }
            if avar.is_some() {
                let mut out = vec![F2Dot14::from_bits(0x1234); *n];
                fvar.user_to_normalized(None, set.iter().copied(), &mut out);
                for v in out.iter().take(70) {
                    o.note(v.to_bits() as u64);
                }
            }
        }
    }
}

/// `[axis_count u16][instance_size u16][record bytes]`
fn walk_instance(bytes: &[u8], o: &mut Obs) {
    let (Some(ac), Some(size)) = (be16(bytes, 0), be16(bytes, 2)) else { return };
    let data = FontData::new(&bytes[4..]);
    let mut acs = vec![ac, 0, 1, ac.wrapping_add(1), ac.wrapping_sub(1), 0xFFFF];
    acs.dedup();
    for ac in acs {
        let common = 4 + 4 * ac as usize;
        let mut sizes: Vec<u16> = vec![size, 0, 1, 0xFFFF];
        for d in [-1i64, 0, 1, 2, 3] {
            let v = common as i64 + d;
            if (0..=0xFFFF).contains(&v) {
                sizes.push(v as u16);
            }
        }
        sizes.sort();
        sizes.dedup();
        for size in sizes {
            o.res(&InstanceRecord::compute_size(&(ac, size)));
            let r = InstanceRecord::read(data, ac, size);
            if o.res(&r) {
                let r = r.unwrap();
                o.note(r.subfamily_name_id.to_u16() as u64);
                o.note(r.flags as u64);
                o.note(r.coordinates.len() as u64);
                o.note(r.post_script_name_id.map(|n| n.to_u16() as u64 + 1).unwrap_or(0));
                // the optional field is read exactly when the record is large enough to hold it
                let has = size as usize >= common + 2;
                let raw = be16(&bytes[4..], common);
                let want = if has { raw.filter(|v| *v != 0xFFFF) } else { None };
                if r.coordinates.len() != ac as usize || r.post_script_name_id.map(|n| n.to_u16()) != want {
                    if o.over.is_none() {
                        o.over = Some(format!("InstanceRecord::read(axis_count {ac}, instance_size {size}): coords {} psname {:?}, expected {want:?}", r.coordinates.len(), r.post_script_name_id));
                    }
                }
            }
        }
    }
}

fn run_fvar(ctx: &mut Ctx) {
    let rounds = if ctx.thorough { 120 } else { 22 };
    for round in 0..rounds {
        let axis_count = match round % 11 {
            0 => 0,
            1 => 1,
            9 => 64,
            10 => 65,
            _ => 1 + ctx.rng.below(4) as u16,
        };
        let common = 4 + 4 * axis_count;
        let instance_size = match round % 6 {
            0 => common,
            1 => common + 2,
            2 => common + 1,
            3 => common.saturating_sub(1),
            4 => 0,
            _ => common + 4,
        };
        let instance_count = if axis_count > 60 { 1 } else { ctx.rng.below(4) as u16 };
        let spec = FvarSpec { axis_count, instance_count, instance_size, sorted_axes: round % 3 != 0 };
        let t = fvar_table(&mut ctx.rng, &spec);
        let avar = match round % 4 {
            0 => B::new(),
            1 => avar_table(&mut ctx.rng, 1, axis_count),
            2 => avar_table(&mut ctx.rng, 2, axis_count),
            _ => avar_table(&mut ctx.rng, 2, axis_count.saturating_sub(1)),
        };
        let mut b = B::new();
        b.f16(t.len() as u16);
        b.append(&t);
        b.append(&avar);
        if axis_count >= 64 {
            // large tables: sweep the header fields and a sample of the others
            let mut keep: Vec<(usize, u8)> = b.fields.iter().take(8).copied().collect();
            for _ in 0..10 {
                keep.push(*ctx.rng.pick(&b.fields));
            }
            b.fields = keep;
        }
        ctx.drive("fvar", &b, &walk_fvar);
        ctx.count(&format!("fvar.avar{}", round % 4));
        if axis_count >= 64 {
            ctx.count("fvar.many-axes");
        }
    }
    // normalize: min / default / max in every order over the boundary grid
    let grid = [i32::MIN, i32::MIN + 1, -0x10000, -1, 0, 1, 0x10000, i32::MAX - 1, i32::MAX];
    for mn in grid {
        let mut b = B::new();
        let mut n = 0u16;
        let mut body = B::new();
        for df in grid {
            for mx in grid {
                body.tag(b"wght").i32(mn).i32(df).i32(mx).u16(0).u16(256);
                n += 1;
            }
        }
        b.u16(1).u16(0).u16(16).u16(2).u16(n).u16(20).u16(0).u16(0);
        b.append(&body);
        ctx.call("fvar.normalize-grid", &b.v, &|bytes, o| {
            let Ok(fvar) = Fvar::read(FontData::new(bytes)) else { return };
            let Ok(axes) = fvar.axes() else { return };
            for a in axes {
                for x in [i32::MIN, i32::MIN + 1, -0x10000, -1, 0, 1, 0x10000, i32::MAX - 1, i32::MAX, 0x8000, -0x8000] {
                    let v = a.normalize(Fixed::from_bits(x));
                    o.note(v.to_bits() as u64);
                    if !(-0x10000..=0x10000).contains(&v.to_bits()) && o.over.is_none() {
                        o.over = Some(format!("normalize({x:#x}) = {:#x} outside [-1, 1]", v.to_bits()));
                    }
                }
            }
        });
    }
    // InstanceRecord: axis_count × instance_size around every threshold
    for ac in [0u16, 1, 2, 5] {
        for extra in 0..4u16 {
            let mut b = B::new();
            let common = 4 + 4 * ac;
            b.f16(ac).f16(common + extra);
            b.u16(300).u16(0);
            for _ in 0..ac {
                b.i32(rfixed(&mut ctx.rng));
            }
            b.u16(if extra % 2 == 0 { 0xFFFF } else { 401 });
            b.bytes(&ctx.rng.bytes(extra as usize));
            ctx.drive("instance-record", &b, &walk_instance);
        }
    }
    ctx.drive_random("fvar", if ctx.thorough { 2000 } else { 300 }, 80, &walk_fvar);
    ctx.drive_random("instance-record", if ctx.thorough { 2000 } else { 300 }, 24, &walk_instance);
}

pub fn run(ctx: &mut Ctx) {
    let sections: [(&str, fn(&mut Ctx)); 9] = [
        ("tvh", run_tvh),
        ("cvar", run_cvar),
        ("gvar", run_gvar),
        ("dsim", run_dsim),
        ("ivs", run_ivs),
        ("hvar-vvar", run_hvar_vvar),
        ("mvar", run_mvar),
        ("avar", run_avar),
        ("fvar", run_fvar),
    ];
    let timing = std::env::var_os("C01_HAND_TIMING").is_some();
    for (name, f) in sections {
        let t0 = std::time::Instant::now();
        f(ctx);
        if timing {
            eprintln!("vars.{name}: {:.2}s", t0.elapsed().as_secs_f64());
        }
    }
}
