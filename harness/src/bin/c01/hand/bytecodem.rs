//! group `glyf.bytecode.model` — the TrueType bytecode decoder (`tables/glyf/bytecode/{decode,instruction,opcode}.rs`:
//! `decode_all`, `Decoder::decode`, `InlineOperands::{len, values}`, `Opcode::{is_push, …}`) against
//! Model/HandBytecode.lean (`hy.dec`, `hy.op`): every opcode with truncated / exact / overlong operands, NPUSH counts
//! at the boundaries, generated programs, random bytes, at boundary program counters (0, 1, len-1, len, len+1, usize::MAX).
use super::*;
use read_fonts::tables::glyf::bytecode::{decode_all, Decoder, Opcode};

fn fnv(xs: impl Iterator<Item = u64>) -> u64 {
    let mut h = 14695981039346656037u64;
    for x in xs {
        h = (h ^ x).wrapping_mul(1099511628211);
    }
    h
}

fn ask(ctx: &mut Ctx, bytes: &[u8], pc: usize) {
    PROGRESS.fetch_add(1, Ordering::Relaxed);
    let req = format!("hy.dec {} {}", hex(bytes), pc);
    let cap = bytes.len() + 2;
    let r = catch(|| {
        let mut toks: Vec<String> = vec![];
        let mut n = 0usize;
        let mut last_pc: Option<usize> = None;
        let mut mono = true;
        let mut err_seen = false;
        let mut err_last = true;
        let mut in_range = true;
        for item in decode_all(bytes, pc) {
            n += 1;
            if n > cap {
                break;
            }
            if err_seen {
                err_last = false;
            }
            match item {
                Ok(ins) => {
                    if let Some(p) = last_pc {
                        mono &= ins.pc > p;
                    }
                    last_pc = Some(ins.pc);
                    in_range &= ins.pc < bytes.len();
                    let vals: Vec<i32> = ins.inline_operands.values().collect();
                    toks.push(format!("o{}:{}:{}:{}:{}", ins.opcode as u8, ins.pc, ins.inline_operands.len(), vals.len(), fnv(vals.iter().map(|v| *v as u32 as u64))));
                }
                Err(_) => {
                    err_seen = true;
                    toks.push("e".into());
                }
            }
        }
        // the same walk through the Decoder API
        let mut dec = Decoder::new(bytes, pc);
        let mut m = 0usize;
        while let Some(r) = dec.decode() {
            m += 1;
            if r.is_err() || m > cap {
                break;
            }
        }
        (toks, n, mono, err_last, in_range, m, dec.pc)
    });
    match r {
        Err(m) => ctx.oracle("no-panic", false, || req.clone(), || m.clone()),
        Ok((toks, n, mono, err_last, in_range, m, end_pc)) => {
            ctx.oracle("no-panic", true, String::new, String::new);
            let bound = bytes.len().saturating_sub(pc);
            ctx.oracle("items<=len-pc", n <= bound, || req.clone(), || format!("{n} items"));
            ctx.oracle("pc-strictly-increasing", mono, || req.clone(), || toks.join(" "));
            ctx.oracle("err-is-last", err_last, || req.clone(), || toks.join(" "));
            ctx.oracle("instruction-pc-in-bytecode", in_range, || req.clone(), || toks.join(" "));
            ctx.oracle("decoder-walk-agrees", m == n, || req.clone(), || format!("decode_all {n} items, Decoder {m}"));
            ctx.oracle("decoder-pc<=len-or-start", end_pc <= bytes.len() || end_pc == pc, || req.clone(), || format!("pc {end_pc}"));
            ctx.count(if toks.last().map(|t| t == "e").unwrap_or(false) { "ends.err" } else if n == 0 { "ends.empty" } else { "ends.ok" });
            ctx.case(req, format!("{} | {}", if toks.is_empty() { "-".to_string() } else { toks.join(" ") }, n));
        }
    }
}

fn ask_pcs(ctx: &mut Ctx, bytes: &[u8]) {
    let n = bytes.len();
    let mut pcs = vec![0usize, 1, n.saturating_sub(1), n, n + 1, usize::MAX, usize::MAX - 1];
    pcs.sort();
    pcs.dedup();
    for pc in pcs {
        ask(ctx, bytes, pc);
    }
}

pub fn run(ctx: &mut Ctx) {
    for b in 0..=255u8 {
        let op = Opcode::from_byte(b);
        ctx.case(format!("hy.op {b}"), format!("{} {}", op.is_push() as u8, (op.is_push() && (b == 0x41 || b >= 0xB8)) as u8));
        ctx.oracle("opcode-byte-roundtrip", op as u8 == b, || format!("{b}"), String::new);
    }
    // every opcode with truncated / exact / overlong operands
    for op in 0..=255u8 {
        let need: usize = match op {
            0xB0..=0xB7 => (op - 0xB0) as usize + 1,
            0xB8..=0xBF => 2 * ((op - 0xB8) as usize + 1),
            _ => 0,
        };
        if op == 0x40 || op == 0x41 {
            let w = if op == 0x41 { 2 } else { 1 };
            ask(ctx, &[op], 0);
            for count in [0u8, 1, 2, 127, 128, 254, 255] {
                let full = count as usize * w;
                let mut lens = vec![0usize, 1, full.saturating_sub(1), full, full + 1];
                lens.sort();
                lens.dedup();
                for n in lens {
                    let mut v = vec![op, count];
                    v.extend((0..n).map(|i| (i as u8).wrapping_mul(37) ^ 0x80));
                    ask(ctx, &v, 0);
                    v.push(0xB8);
                    ask(ctx, &v, 0);
                    ask(ctx, &v, 1);
                }
            }
            ctx.count("sweep.npush");
        } else {
            for n in 0..=need + 1 {
                let mut v = vec![op];
                v.extend((0..n).map(|i| 0xF0 ^ (i as u8)));
                ask(ctx, &v, 0);
                let mut w = vec![0x01];
                w.extend_from_slice(&v);
                w.push(0x40);
                ask(ctx, &w, 0);
                ask(ctx, &w, 1);
            }
            ctx.count(if need > 0 { "sweep.push" } else { "sweep.plain" });
        }
    }
    // programs and random bytes at boundary program counters
    let rounds = if ctx.thorough { 4000 } else { 700 };
    for round in 0..rounds {
        let n = 1 + ctx.rng.below(if round % 5 == 0 { 48 } else { 10 }) as usize;
        let mut v: Vec<u8> = vec![];
        for _ in 0..n {
            match ctx.rng.below(6) {
                0 => {
                    let k = ctx.rng.below(8) as u8;
                    v.push(0xB0 + k);
                    v.extend(ctx.rng.bytes(k as usize + 1));
                }
                1 => {
                    let k = ctx.rng.below(8) as u8;
                    v.push(0xB8 + k);
                    v.extend(ctx.rng.bytes(2 * (k as usize + 1)));
                }
                2 => {
                    let c = *ctx.rng.pick(&[0u8, 1, 3, 9]);
                    let words = ctx.rng.chance(1, 2);
                    v.push(if words { 0x41 } else { 0x40 });
                    v.push(c);
                    v.extend(ctx.rng.bytes(c as usize * if words { 2 } else { 1 }));
                }
                _ => v.push(ctx.rng.next() as u8),
            }
        }
        match round % 4 {
            0 => {
                // truncate somewhere
                let cut = ctx.rng.below(v.len() as u64 + 1) as usize;
                v.truncate(cut);
            }
            1 => {
                // a hostile count byte
                if let Some(p) = v.iter().position(|b| *b == 0x40 || *b == 0x41) {
                    if p + 1 < v.len() {
                        v[p + 1] = *ctx.rng.pick(&[0u8, 255, 254, 128]);
                    }
                }
            }
            _ => {}
        }
        ask_pcs(ctx, &v);
        ctx.count("programs");
    }
    for _ in 0..(if ctx.thorough { 3000 } else { 500 }) {
        let v = rbytes(&mut ctx.rng, 24);
        let pc = ctx.rng.below(v.len() as u64 + 2) as usize;
        ask(ctx, &v, pc);
        ctx.count("random");
    }
}
