//! Bitmap tables, hand-written parts (read-fonts/src/tables/{bitmap,cblc,eblc,cbdt,ebdt,sbix}.rs):
//!   * `BitmapSize::{location, index_subtable_list}`, `BitmapLocation::is_empty`,
//!     `IndexSubtable::{read_with_args, offset_data, index_format, image_format, image_data_offset,
//!     min_byte_range}` + its traversal impls (`Debug`, `SomeTable`), index formats 1..5;
//!   * `Cbdt::data` / `Ebdt::data` (`bitmap_data`, `read_small_metrics`, `read_big_metrics`), image
//!     formats 1, 2, 5, 6, 7, 8, 9, 17, 18, 19 and the unsupported ones, with locations coming from
//!     `location()` and hand-built ones (boundary offsets / sizes / bit depths / metrics);
//!   * `SbitLineMetrics::traversal_type` (through `Debug` of CBLC / EBLC);
//!   * `Strike::glyph_data` (sbix) with `num_glyphs` as external argument.
//! CBLC+CBDT / EBLC+EBDT pairs are built byte level; the generator knows where every glyph's image
//! is (`hand.bitmap.generator.*` oracles on the unmodified pair); on every input the results are
//! compared with small models of `bitmap_data` and `Strike::glyph_data` (`hand.bitmap.model.*`).
use super::glyfx::{flush_rel, rel};
use super::*;
use font_types::{GlyphId, GlyphId16};
use read_fonts::tables::bitmap::{BigGlyphMetrics, BitmapContent, BitmapData, BitmapDataFormat, BitmapLocation, BitmapMetrics, BitmapSize, IndexSubtable};
use read_fonts::tables::cbdt::Cbdt;
use read_fonts::tables::cblc::Cblc;
use read_fonts::tables::ebdt::Ebdt;
use read_fonts::tables::eblc::Eblc;
use read_fonts::tables::sbix::{Sbix, Strike};
use read_fonts::traversal::SomeTable;
use read_fonts::{FontData, FontRead, FontReadWithArgs, MinByteRange, ReadError};

fn be16(b: &[u8], p: usize) -> Option<u16> {
    let s = b.get(p..p.checked_add(2)?)?;
    Some(u16::from_be_bytes([s[0], s[1]]))
}

fn be32(b: &[u8], p: usize) -> Option<u32> {
    let s = b.get(p..p.checked_add(4)?)?;
    Some(u32::from_be_bytes([s[0], s[1], s[2], s[3]]))
}

fn big_metrics(m: &[u8; 8]) -> BigGlyphMetrics {
    FontData::new(m).read_array::<BigGlyphMetrics>(0..8).unwrap()[0]
}

// ------------------------------------------------------------------------------------------------
// model of `bitmap_data`

#[derive(Debug, PartialEq, Clone, Copy)]
enum Kind {
    Byte,
    Bit,
    Png,
    Composite,
}

/// (kind, small metrics?, height, width, content start inside `dat`, content length in bytes or
/// number of components)
type MData = (Kind, bool, u8, u8, usize, usize);

fn model_data(dat: &[u8], fmt: u16, off: usize, size: usize, bd: u8, metrics: Option<(u8, u8)>, color: bool) -> Option<MData> {
    let end = off.checked_add(size)?;
    let img = dat.get(off..end)?;
    let bd = bd as usize;
    let bits = |w: u8, h: u8| (w as usize * bd * h as usize).div_ceil(8);
    let rows = |w: u8, h: u8| (w as usize * bd).div_ceil(8) * h as usize;
    let fit = |kind: Kind, small: bool, h: u8, w: u8, at: usize, n: usize, unit: usize| -> Option<MData> {
        (at.checked_add(n.checked_mul(unit)?)? <= img.len()).then_some((kind, small, h, w, off + at, n))
    };
    match fmt {
        1 | 2 | 8 | 17 => {
            if img.len() < 5 {
                return None;
            }
            let (h, w) = (img[0], img[1]);
            match fmt {
                1 => fit(Kind::Byte, true, h, w, 5, rows(w, h), 1),
                2 => fit(Kind::Bit, true, h, w, 5, bits(w, h), 1),
                8 => {
                    let n = be16(img, 6)? as usize;
                    fit(Kind::Composite, true, h, w, 8, n, 4)
                }
                _ => {
                    if !color {
                        return None;
                    }
                    let n = be32(img, 5)? as usize;
                    fit(Kind::Png, true, h, w, 9, n, 1)
                }
            }
        }
        6 | 7 | 9 | 18 => {
            if img.len() < 8 {
                return None;
            }
            let (h, w) = (img[0], img[1]);
            match fmt {
                6 => fit(Kind::Byte, false, h, w, 8, rows(w, h), 1),
                7 => fit(Kind::Bit, false, h, w, 8, bits(w, h), 1),
                9 => {
                    let n = be16(img, 8)? as usize;
                    fit(Kind::Composite, false, h, w, 10, n, 4)
                }
                _ => {
                    if !color {
                        return None;
                    }
                    let n = be32(img, 8)? as usize;
                    fit(Kind::Png, false, h, w, 12, n, 1)
                }
            }
        }
        5 => {
            let (h, w) = metrics?;
            fit(Kind::Bit, false, h, w, 0, bits(w, h), 1)
        }
        19 if color => {
            let (h, w) = metrics?;
            let n = be32(img, 0)? as usize;
            fit(Kind::Png, false, h, w, 4, n, 1)
        }
        _ => None,
    }
}

fn observe_data(r: &Result<BitmapData, ReadError>, dat: &[u8], o: &mut Obs) -> Option<MData> {
    if !o.res(r) {
        return None;
    }
    let d = r.as_ref().unwrap();
    let (small, h, w) = match &d.metrics {
        BitmapMetrics::Small(m) => {
            o.note(m.bearing_x() as u8 as u64);
            o.note(m.bearing_y() as u8 as u64);
            o.note(m.advance() as u64);
            (true, m.height(), m.width())
        }
        BitmapMetrics::Big(m) => {
            o.note(m.hori_bearing_x() as u8 as u64);
            o.note(m.vert_advance() as u64);
            (false, m.height(), m.width())
        }
    };
    o.note(h as u64);
    o.note(w as u64);
    let base = dat.as_ptr() as usize;
    match &d.content {
        BitmapContent::Data(f, bytes) => {
            o.note(bytes.len() as u64);
            o.note_bytes(&bytes[..bytes.len().min(24)]);
            let kind = match f {
                BitmapDataFormat::BitAligned => Kind::Bit,
                BitmapDataFormat::ByteAligned => Kind::Byte,
                BitmapDataFormat::Png => Kind::Png,
            };
            o.note(kind as u64);
            Some((kind, small, h, w, (bytes.as_ptr() as usize).wrapping_sub(base), bytes.len()))
        }
        BitmapContent::Composite(comps) => {
            o.note(comps.len() as u64);
            for c in comps.iter().take(8) {
                o.note(c.glyph_id().to_u16() as u64);
                o.note(c.x_offset() as u8 as u64);
                o.note(c.y_offset() as u8 as u64);
            }
            Some((Kind::Composite, small, h, w, (comps.as_ptr() as usize).wrapping_sub(base), comps.len()))
        }
    }
}

fn check_data(what: &str, bytes: &[u8], dat: &[u8], loc: &BitmapLocation, color: bool, o: &mut Obs) {
    let r = if color {
        match Cbdt::read(FontData::new(dat)) {
            Ok(t) => t.data(loc),
            Err(e) => Err(e),
        }
    } else {
        match Ebdt::read(FontData::new(dat)) {
            Ok(t) => t.data(loc),
            Err(e) => Err(e),
        }
    };
    let got = observe_data(&r, dat, o);
    let want = if dat.len() < 4 { None } else { model_data(dat, loc.format, loc.data_offset, loc.data_size, loc.bit_depth, loc.metrics.map(|m| (m.height(), m.width())), color) };
    // an empty content slice has no meaningful position
    let same = match (&got, &want) {
        (Some(g), Some(w)) => g.0 == w.0 && g.1 == w.1 && g.2 == w.2 && g.3 == w.3 && g.5 == w.5 && (g.5 == 0 || g.4 == w.4),
        (None, None) => true,
        _ => false,
    };
    rel("model.bitmap_data", same, what, bytes, || {
        format!("format {} offset {} size {} depth {} metrics {:?} color {color}: got {got:?}, model {want:?}", loc.format, loc.data_offset, loc.data_size, loc.bit_depth, loc.metrics.map(|m| (m.height(), m.width())))
    });
    o.note(loc.is_empty() as u64);
}

// ------------------------------------------------------------------------------------------------
// walk: CBLC/EBLC + CBDT/EBDT; container [flags: u8 (bit 0 = color)] [loc length: u16] [loc] [dat]

fn split_container(bytes: &[u8]) -> Option<(bool, &[u8], &[u8])> {
    let ll = be16(bytes, 1)? as usize;
    let rest = &bytes[3..];
    let ll = ll.min(rest.len());
    Some((bytes[0] & 1 != 0, &rest[..ll], &rest[ll..]))
}

fn observe_subtable(st: &IndexSubtable, o: &mut Obs, gids: &mut Vec<u64>) {
    o.note(st.index_format() as u64);
    o.note(st.image_format() as u64);
    o.note(st.image_data_offset() as u64);
    let n = st.offset_data().len();
    o.note(n as u64);
    let r = st.min_byte_range();
    o.note(r.start as u64);
    o.note(r.end as u64);
    o.note_str(st.type_name());
    for i in [0usize, 1, 2, 3, 4, 5, 6, 7, usize::MAX] {
        match st.get_field(i) {
            Some(f) => o.note_str(f.name),
            None => o.note(0),
        }
    }
    if n <= 256 {
        o.note_str(&format!("{st:?}"));
    }
    match st {
        IndexSubtable::Format1(t) => o.note(t.sbit_offsets().len() as u64),
        IndexSubtable::Format2(t) => o.note(t.image_size() as u64),
        IndexSubtable::Format3(t) => o.note(t.sbit_offsets().len() as u64),
        IndexSubtable::Format4(t) => {
            o.note(t.num_glyphs() as u64);
            for p in t.glyph_array().iter().take(6).chain(t.glyph_array().iter().rev().take(2)) {
                gids.push(p.glyph_id().to_u32() as u64);
            }
        }
        IndexSubtable::Format5(t) => {
            o.note(t.num_glyphs() as u64);
            for p in t.glyph_array().iter().take(6).chain(t.glyph_array().iter().rev().take(2)) {
                gids.push(p.get().to_u32() as u64);
            }
        }
    }
}

fn walk_sizes(sizes: &[BitmapSize], offset_data: FontData, dat: &[u8], color: bool, bytes: &[u8], o: &mut Obs) {
    const W: &str = "bitmap.pair";
    o.note(sizes.len() as u64);
    for size in sizes.iter().take(4) {
        o.note(size.index_subtable_list_offset() as u64);
        o.note(size.index_subtable_list_size() as u64);
        o.note(size.number_of_index_subtables() as u64);
        o.note(size.bit_depth() as u64);
        o.note(size.ppem_x() as u64);
        let (s, e) = (size.start_glyph_index().to_u32() as u64, size.end_glyph_index().to_u32() as u64);
        let mut gids: Vec<u64> = vec![s, e];
        let list = size.index_subtable_list(offset_data);
        // the list is the slice [offset, offset + size) of the location table
        let (lo, ls) = (size.index_subtable_list_offset() as usize, size.index_subtable_list_size() as usize);
        let in_bounds = lo.checked_add(ls).map(|end| end <= offset_data.len()).unwrap_or(false);
        rel("model.list-bounds", in_bounds || list.is_err(), W, bytes, || format!("index_subtable_list Ok for offset {lo} size {ls} in {} bytes", offset_data.len()));
        if o.res(&list) {
            let list = list.unwrap();
            let recs = list.index_subtable_records();
            o.note(recs.len() as u64);
            for rec in recs.iter().take(8) {
                gids.push(rec.first_glyph_index().to_u32() as u64);
                gids.push(rec.last_glyph_index().to_u32() as u64);
                let st = rec.index_subtable(list.offset_data());
                if o.res(&st) {
                    observe_subtable(&st.unwrap(), o, &mut gids);
                }
            }
        }
        for gid in edge32(&gids) {
            let r = size.location(offset_data, GlyphId::new(gid));
            if !o.res(&r) {
                continue;
            }
            let loc = r.unwrap();
            rel("model.size-range", s <= gid as u64 && gid as u64 <= e, W, bytes, || format!("location({gid}) Ok outside the size's glyph range {s}..={e}"));
            o.note(loc.format as u64);
            o.note(loc.data_offset as u64);
            o.note(loc.data_size as u64);
            o.note(loc.bit_depth as u64);
            o.note(loc.metrics.is_some() as u64);
            o.note(loc.is_empty() as u64);
            rel("model.location", loc.bit_depth == size.bit_depth() && loc.is_empty() == (loc.data_size == 0), W, bytes, || format!("location({gid}): bit depth / is_empty"));
            check_data(W, bytes, dat, &loc, color, o);
        }
        // the wrong offset data
        for gid in [s as u32, e as u32] {
            o.res(&size.location(FontData::new(&[]), GlyphId::new(gid)));
            o.res(&size.location(FontData::new(dat), GlyphId::new(gid)));
        }
        o.res(&size.index_subtable_list(FontData::new(&[])));
    }
}

fn walk_pair(bytes: &[u8], o: &mut Obs) {
    let Some((declared_color, loc_b, dat)) = split_container(bytes) else {
        return;
    };
    for color in [declared_color, !declared_color] {
        if color {
            let r = Cblc::read(FontData::new(loc_b));
            if o.res(&r) {
                let t = r.unwrap();
                walk_sizes(t.bitmap_sizes(), t.offset_data(), dat, color, bytes, o);
                if loc_b.len() <= 1200 {
                    o.note_str(&format!("{t:?}"));
                }
            }
        } else {
            let r = Eblc::read(FontData::new(loc_b));
            if o.res(&r) {
                let t = r.unwrap();
                walk_sizes(t.bitmap_sizes(), t.offset_data(), dat, color, bytes, o);
                if loc_b.len() <= 1200 {
                    o.note_str(&format!("{t:?}"));
                }
            }
        }
    }
}

// ------------------------------------------------------------------------------------------------
// walk: hand-built locations;
// container [color u8] [format u16] [bit depth u8] [has metrics u8] [big metrics: 8] [offset u16] [size u16] [dat]

fn walk_data(bytes: &[u8], o: &mut Obs) {
    const W: &str = "bitmap.data";
    if bytes.len() < 17 {
        return;
    }
    let color = bytes[0] & 1 != 0;
    let fmt = be16(bytes, 1).unwrap();
    let bd = bytes[3];
    let metrics = (bytes[4] & 1 != 0).then(|| big_metrics(bytes[5..13].try_into().unwrap()));
    let off = be16(bytes, 13).unwrap() as usize;
    let size = be16(bytes, 15).unwrap() as usize;
    let dat = &bytes[17..];
    let n = dat.len();
    let mut places = vec![(off, size), (off, n.saturating_sub(off)), (off, n.saturating_sub(off) + 1), (off, size + 1), (off, size.saturating_sub(1)), (off + 1, size), (0, n), (4, n.saturating_sub(4)), (n, 0), (n, 1), (n.saturating_sub(1), 1), (n + 1, 0), (0, 0)];
    places.sort();
    places.dedup();
    for (data_offset, data_size) in places {
        for c in [color, !color] {
            let loc = BitmapLocation { format: fmt, data_offset, data_size, bit_depth: bd, metrics };
            check_data(W, bytes, dat, &loc, c, o);
        }
    }
    // the other formats on the same bytes
    for f in [0u16, 1, 2, 3, 4, 5, 6, 7, 8, 9, 10, 16, 17, 18, 19, 20, 0xFFFF] {
        for d in [bd, 0, 1, 255] {
            let loc = BitmapLocation { format: f, data_offset: off, data_size: size, bit_depth: d, metrics };
            check_data(W, bytes, dat, &loc, color, o);
        }
    }
    // offsets / sizes as large as `location()` can produce them on a 64 bit target
    let big = u32::MAX as usize;
    for (data_offset, data_size) in [(big, big), (big + 65535 * big, big), (big, 0), (0, big), (big * 2, 1)] {
        let loc = BitmapLocation { format: fmt, data_offset, data_size, bit_depth: bd, metrics };
        check_data(W, bytes, dat, &loc, color, o);
    }
    let d = BitmapLocation::default();
    o.note(d.is_empty() as u64);
    check_data(W, bytes, dat, &d, color, o);
}

/// hand-built locations at the very end of the address space (an external argument no font can
/// produce through `location()` on a 64 bit target)
fn walk_data_extreme(bytes: &[u8], o: &mut Obs) {
    if bytes.len() < 4 {
        return;
    }
    for data_offset in edge_usize(&[bytes.len()]) {
        for data_size in edge_usize(&[bytes.len()]) {
            let loc = BitmapLocation { format: 17, data_offset, data_size, bit_depth: 32, metrics: None };
            if let Ok(t) = Cbdt::read(FontData::new(bytes)) {
                o.res(&t.data(&loc));
            }
            if let Ok(t) = Ebdt::read(FontData::new(bytes)) {
                o.res(&t.data(&loc));
            }
        }
    }
}

// ------------------------------------------------------------------------------------------------
// walk: one IndexSubtable with arbitrary (last, first) arguments; container [last u16] [first u16] [subtable]

fn walk_subtable(bytes: &[u8], o: &mut Obs) {
    let (Some(last), Some(first)) = (be16(bytes, 0), be16(bytes, 2)) else {
        return;
    };
    let data = &bytes[4..];
    for (l, f) in [(last, first), (first, last), (0xFFFF, 0), (0, 0xFFFF), (0, 0)] {
        let r = IndexSubtable::read_with_args(FontData::new(data), &(GlyphId16::new(l), GlyphId16::new(f)));
        if o.res(&r) {
            let st = r.unwrap();
            let mut gids = vec![];
            observe_subtable(&st, o, &mut gids);
            let fmt = be16(data, 0).unwrap_or(0);
            let want = (l as usize).saturating_sub(f as usize) + 2;
            let ok = st.index_format() == fmt
                && (1..=5).contains(&fmt)
                && st.min_byte_range().end <= data.len()
                && match &st {
                    IndexSubtable::Format1(t) => fmt == 1 && t.sbit_offsets().len() == want,
                    IndexSubtable::Format2(t) => fmt == 2 && t.big_metrics().len() == 1,
                    IndexSubtable::Format3(t) => fmt == 3 && t.sbit_offsets().len() == want,
                    IndexSubtable::Format4(t) => fmt == 4 && t.glyph_array().len() == t.num_glyphs() as usize + 1,
                    IndexSubtable::Format5(t) => fmt == 5 && t.glyph_array().len() == t.num_glyphs() as usize && t.big_metrics().len() == 1,
                };
            rel("model.subtable", ok, "bitmap.subtable", bytes, || format!("IndexSubtable::read_with_args(last {l}, first {f}): format {fmt} read as {}", st.index_format()));
        }
    }
}

// ------------------------------------------------------------------------------------------------
// walk: sbix; container [num_glyphs u16] [sbix]

fn model_glyph_data(strike: &[u8], ng: u16, gid: u32) -> Result<Option<(usize, usize)>, ()> {
    // ppem, ppi, (ng + 1) offsets
    let n_off = ng as usize + 1;
    if strike.len() < 4 + 4 * n_off {
        return Err(());
    }
    let off = |i: usize| -> Option<usize> { if i < n_off { be32(strike, 4 + 4 * i).map(|v| v as usize) } else { None } };
    let i = gid as usize;
    let (Some(s), Some(e)) = (off(i), off(i + 1)) else {
        return Err(());
    };
    if s == e {
        return Ok(None);
    }
    if s > e || e > strike.len() || e - s < 8 {
        return Err(());
    }
    Ok(Some((s, e)))
}

fn walk_sbix(bytes: &[u8], o: &mut Obs) {
    const W: &str = "bitmap.sbix";
    let Some(declared) = be16(bytes, 0) else {
        return;
    };
    let data = &bytes[2..];
    let len = data.len();
    let mut ngs = vec![declared, 0, 1, declared.wrapping_add(1), declared.wrapping_sub(1), 0xFFFF];
    ngs.sort();
    ngs.dedup();
    for ng in ngs {
        let r = Sbix::read(FontData::new(data), ng);
        if !o.res(&r) {
            continue;
        }
        let t = r.unwrap();
        o.note(t.version() as u64);
        o.note(t.flags().bits() as u64);
        o.note(t.num_strikes() as u64);
        let offs = t.strike_offsets();
        let mut k = 0usize;
        o.drain("strikes", len / 4 + 1, t.strikes().iter(), |o, st| {
            let ix = k;
            k += 1;
            if !o.res(&st) || ix >= 6 {
                return;
            }
            let st = st.unwrap();
            o.note(st.ppem() as u64);
            o.note(st.ppi() as u64);
            o.note(st.glyph_data_offsets().len() as u64);
            let so = offs.get(ix).map(|x| x.get().to_u32() as usize).unwrap_or(usize::MAX);
            let strike_b = data.get(so..).unwrap_or(&[]);
            rel("model.strike", st.glyph_data_offsets().len() == ng as usize + 1 && st.offset_data().len() == strike_b.len(), W, bytes, || format!("strike {ix}: {} offsets for {ng} glyphs", st.glyph_data_offsets().len()));
            let mut gids = edge32(&[ng as u64, ng as u64 + 1]);
            gids.extend(0..(ng as u32 + 2).min(10));
            for gid in gids {
                let r = st.glyph_data(GlyphId::new(gid));
                o.res(&r);
                let want = model_glyph_data(strike_b, ng, gid);
                let got: Result<Option<(usize, usize)>, ()> = match &r {
                    Err(_) => Err(()),
                    Ok(None) => Ok(None),
                    Ok(Some(g)) => {
                        o.note(g.origin_offset_x() as u16 as u64);
                        o.note(g.origin_offset_y() as u16 as u64);
                        o.note(u32::from_be_bytes(g.graphic_type().to_be_bytes()) as u64);
                        o.note(g.data().len() as u64);
                        let s = (g.offset_data().as_bytes().as_ptr() as usize).wrapping_sub(strike_b.as_ptr() as usize);
                        Ok(Some((s, s + g.offset_data().len())))
                    }
                };
                rel("model.glyph_data", got == want, W, bytes, || format!("strike {ix} num_glyphs {ng}: glyph_data({gid}) = {got:?}, model {want:?}"));
            }
        });
    }
    // a strike directly
    for ng in [declared, 0, 0xFFFF] {
        let r = Strike::read(FontData::new(data), ng);
        if o.res(&r) {
            let st = r.unwrap();
            for gid in edge32(&[ng as u64]) {
                let r = st.glyph_data(GlyphId::new(gid));
                o.res(&r);
                let want = model_glyph_data(data, ng, gid);
                rel("model.glyph_data", r.is_ok() == want.is_ok() && r.as_ref().map(|g| g.is_some()).ok() == want.map(|g| g.is_some()).ok(), W, bytes, || format!("Strike::read(num_glyphs {ng}).glyph_data({gid})"));
            }
        }
    }
}

// ------------------------------------------------------------------------------------------------
// generators

struct Image {
    b: B,
    /// what `data()` must find: (kind, content length in bytes / components)
    kind: Kind,
    content: usize,
}

fn dims(rng: &mut Rng) -> (u8, u8) {
    match rng.below(8) {
        0 => (0, rng.below(4) as u8),
        1 => (rng.below(4) as u8, 0),
        2 => (1, 1),
        _ => (1 + rng.below(7) as u8, 1 + rng.below(9) as u8),
    }
}

/// image data in EBDT / CBDT format `fmt` (for formats 5 and 19 the metrics come from `big`)
fn image(rng: &mut Rng, fmt: u16, bd: u8, big: (u8, u8), payload: usize) -> Image {
    let mut b = B::new();
    let (h, w) = if fmt == 5 || fmt == 19 { big } else { dims(rng) };
    let bits = (w as usize * bd as usize * h as usize).div_ceil(8);
    let rows = (w as usize * bd as usize).div_ceil(8) * h as usize;
    let small = |b: &mut B, rng: &mut Rng| {
        b.f8(h).f8(w).bytes(&rng.bytes(3));
    };
    let bigm = |b: &mut B, rng: &mut Rng| {
        b.f8(h).f8(w).bytes(&rng.bytes(6));
    };
    let (kind, content) = match fmt {
        1 => {
            small(&mut b, rng);
            b.bytes(&rng.bytes(rows));
            (Kind::Byte, rows)
        }
        2 => {
            small(&mut b, rng);
            b.bytes(&rng.bytes(bits));
            (Kind::Bit, bits)
        }
        5 => {
            b.bytes(&rng.bytes(bits));
            (Kind::Bit, bits)
        }
        6 => {
            bigm(&mut b, rng);
            b.bytes(&rng.bytes(rows));
            (Kind::Byte, rows)
        }
        7 => {
            bigm(&mut b, rng);
            b.bytes(&rng.bytes(bits));
            (Kind::Bit, bits)
        }
        8 => {
            small(&mut b, rng);
            let n = rng.below(4) as usize;
            b.u8(0).f16(n as u16).bytes(&rng.bytes(4 * n));
            (Kind::Composite, n)
        }
        9 => {
            bigm(&mut b, rng);
            let n = rng.below(4) as usize;
            b.f16(n as u16).bytes(&rng.bytes(4 * n));
            (Kind::Composite, n)
        }
        17 => {
            small(&mut b, rng);
            b.f32(payload as u32).bytes(&rng.bytes(payload));
            (Kind::Png, payload)
        }
        18 => {
            bigm(&mut b, rng);
            b.f32(payload as u32).bytes(&rng.bytes(payload));
            (Kind::Png, payload)
        }
        _ => {
            b.f32(payload as u32).bytes(&rng.bytes(payload));
            (Kind::Png, payload)
        }
    };
    Image { b, kind, content }
}

/// expected result of `location(gid)` + `data()`
#[derive(Debug, Clone)]
struct Expect {
    size_ix: usize,
    gid: u32,
    /// (image format, data offset, data size, metrics from the location table, kind, content)
    loc: Option<(u16, usize, usize, bool, Kind, usize)>,
}

struct Pair {
    b: B,
    expect: Vec<Expect>,
    color: bool,
}

const VAR_FORMATS: [u16; 8] = [1, 2, 6, 7, 8, 9, 17, 18];

fn bitmap_pair(rng: &mut Rng, color: bool, hostile: u64) -> Pair {
    let mut dat = B::new();
    dat.u16(if color { 3 } else { 2 }).u16(0);
    let n_sizes = 1 + rng.below(3) as usize;
    let mut loc = B::new();
    loc.u16(if color { 3 } else { 2 }).u16(0).f32(n_sizes as u32);
    let sizes_at = loc.len();
    loc.zeros(48 * n_sizes);
    let mut expect: Vec<Expect> = vec![];
    let mut unknown: Vec<(usize, u32)> = vec![];
    for size_ix in 0..n_sizes {
        let bd = *rng.pick(&[1u8, 2, 4, 8, 32]);
        let g0 = 1 + rng.below(20) as u16;
        let n_sub = 1 + rng.below(3) as usize;
        let mut list = B::new();
        list.zeros(8 * n_sub);
        let mut cur = g0;
        // (first, last, per glyph expectation)
        let mut recs: Vec<(u16, u16, Vec<(u32, Option<(u16, usize, usize, bool, Kind, usize)>)>)> = vec![];
        for k in 0..n_sub {
            let first = cur + rng.below(2) as u16;
            let count = 1 + rng.below(4) as u16;
            let last = first + count - 1;
            cur = last + 1;
            let index_format = 1 + rng.below(5) as u16;
            let at = list.len();
            list.set32(8 * k + 4, at as u32);
            list.v[8 * k..8 * k + 2].copy_from_slice(&first.to_be_bytes());
            list.v[8 * k + 2..8 * k + 4].copy_from_slice(&last.to_be_bytes());
            list.mark(8 * k, 2);
            list.mark(8 * k + 2, 2);
            list.mark(8 * k + 4, 4);
            let mut per: Vec<(u32, Option<(u16, usize, usize, bool, Kind, usize)>)> = vec![];
            let mut st = B::new();
            match index_format {
                1 | 3 => {
                    let imgf = *rng.pick(&VAR_FORMATS[..if color { 8 } else { 6 }]);
                    let ido = dat.len();
                    st.u16(index_format).f16(imgf).f32(ido as u32);
                    let mut rel_off = 0usize;
                    for g in first..=last {
                        // empty glyphs (size 0) now and then
                        let payload = rng.below(6) as usize;
                        let img = if rng.chance(1, 6) { None } else { Some(image(rng, imgf, bd, (0, 0), payload)) };
                        if index_format == 1 {
                            st.f32(rel_off as u32);
                        } else {
                            st.f16(rel_off as u16);
                        }
                        match img {
                            Some(mut img) => {
                                if index_format == 3 && img.b.len() % 2 == 1 {
                                    img.b.u8(0);
                                }
                                per.push((g as u32, Some((imgf, ido + rel_off, img.b.len(), false, img.kind, img.content))));
                                rel_off += img.b.len();
                                dat.append(&img.b);
                            }
                            None => per.push((g as u32, Some((imgf, ido + rel_off, 0, false, Kind::Byte, usize::MAX)))),
                        }
                    }
                    if index_format == 1 {
                        st.f32(rel_off as u32);
                    } else {
                        st.f16(rel_off as u16);
                    }
                }
                2 | 5 => {
                    let imgf = if color && rng.chance(1, 2) { 19 } else { 5 };
                    let big = dims(rng);
                    let ido = dat.len();
                    let image_size = image(rng, imgf, bd, big, 3).b.len();
                    st.u16(index_format).f16(imgf).f32(ido as u32).f32(image_size as u32);
                    st.f8(big.0).f8(big.1).bytes(&rng.bytes(6));
                    let glyphs: Vec<u16> = if index_format == 2 { (first..=last).collect() } else { (first..=last).filter(|g| *g == first || rng.chance(2, 3)).collect() };
                    if index_format == 5 {
                        st.f32(glyphs.len() as u32);
                        for g in &glyphs {
                            st.f16(*g);
                        }
                    }
                    for (i, g) in glyphs.iter().enumerate() {
                        let img = image(rng, imgf, bd, big, 3);
                        per.push((*g as u32, Some((imgf, ido + i * image_size, image_size, true, img.kind, img.content))));
                        dat.append(&img.b);
                    }
                    for g in first..=last {
                        if !glyphs.contains(&g) {
                            per.push((g as u32, None));
                        }
                    }
                }
                _ => {
                    let imgf = *rng.pick(&VAR_FORMATS[..if color { 8 } else { 6 }]);
                    let glyphs: Vec<u16> = (first..=last).filter(|g| *g == first || rng.chance(2, 3)).collect();
                    // absolute offsets (image data offset 0)
                    st.u16(4).f16(imgf).f32(0).f32(glyphs.len() as u32);
                    for g in &glyphs {
                        let payload = rng.below(6) as usize;
                        let img = image(rng, imgf, bd, (0, 0), payload);
                        st.f16(*g).f16(dat.len() as u16);
                        per.push((*g as u32, Some((imgf, dat.len(), img.b.len(), false, img.kind, img.content))));
                        dat.append(&img.b);
                    }
                    // the extra entry at the end only carries the end offset; its glyph id is not
                    // specified.  `location()` runs its binary search over the whole array including
                    // this entry, so with a small id there (0 is common) present glyphs may not be
                    // found (functional, not a C01 matter): no expectation for those subtables
                    let sentinel = if rng.chance(1, 2) { 0 } else { 0xFFFF };
                    st.f16(sentinel).f16(dat.len() as u16);
                    if sentinel == 0 {
                        unknown.extend((first..=last).map(|g| (size_ix, g as u32)));
                    }
                    for g in first..=last {
                        if !glyphs.contains(&g) {
                            per.push((g as u32, None));
                        }
                    }
                }
            }
            list.append(&st);
            recs.push((first, last, per));
        }
        let (start, end) = (recs[0].0, recs[n_sub - 1].1);
        // hostile shapes that the model below understands
        match hostile {
            1 if n_sub == 2 => {
                // the second record repeats the range of the first: never reached
                let (f, l) = (recs[0].0, recs[0].1);
                list.v[8..10].copy_from_slice(&f.to_be_bytes());
                list.v[10..12].copy_from_slice(&l.to_be_bytes());
                let per0 = recs[0].2.clone();
                let gone: Vec<u32> = recs[1].2.iter().map(|p| p.0).collect();
                recs[1] = (f, l, per0);
                for g in gone {
                    expect.push(Expect { size_ix, gid: g, loc: None });
                }
            }
            2 => {
                // first record with first > last: skipped (a format 1 / 3 subtable then reads with 2 offsets)
                let (f, l) = (recs[0].0, recs[0].1);
                if f != l {
                    list.v[0..2].copy_from_slice(&l.to_be_bytes());
                    list.v[2..4].copy_from_slice(&f.to_be_bytes());
                    for p in recs[0].2.iter_mut() {
                        p.1 = None;
                    }
                }
            }
            _ => {}
        }
        let list_at = loc.len();
        let list_len = list.len();
        loc.append(&list);
        let p = sizes_at + 48 * size_ix;
        loc.set32(p, list_at as u32);
        loc.set32(p + 4, list_len as u32);
        loc.set32(p + 8, n_sub as u32);
        loc.mark(p, 4);
        loc.mark(p + 4, 4);
        loc.mark(p + 8, 4);
        for i in 16..40 {
            loc.v[p + i] = rng.next() as u8;
        }
        loc.v[p + 40..p + 42].copy_from_slice(&start.to_be_bytes());
        loc.v[p + 42..p + 44].copy_from_slice(&end.to_be_bytes());
        loc.mark(p + 40, 2);
        loc.mark(p + 42, 2);
        loc.v[p + 44] = 12 + size_ix as u8;
        loc.v[p + 45] = 12 + size_ix as u8;
        loc.v[p + 46] = bd;
        loc.mark(p + 46, 1);
        loc.v[p + 47] = 1;
        // expectations: first matching record wins
        for gid in start.saturating_sub(2) as u32..=end as u32 + 2 {
            if expect.iter().any(|e| e.size_ix == size_ix && e.gid == gid) {
                continue;
            }
            let mut found = None;
            if (start as u32..=end as u32).contains(&gid) {
                for (f, l, per) in &recs {
                    if (*f as u32..=*l as u32).contains(&gid) {
                        found = per.iter().find(|p| p.0 == gid).and_then(|p| p.1);
                        break;
                    }
                }
            }
            expect.push(Expect { size_ix, gid, loc: found });
        }
    }
    let mut b = B::new();
    b.u8(color as u8).f16(loc.len() as u16);
    b.append(&loc);
    b.append(&dat);
    expect.retain(|e| !unknown.contains(&(e.size_ix, e.gid)));
    Pair { b, expect, color }
}

/// ground truth on the unmodified pair
fn check_pair(ctx: &mut Ctx, pair: &Pair) {
    let Some((_, loc_b, dat)) = split_container(&pair.b.v) else {
        return;
    };
    let input = || format!("bitmap.pair {}", hex(&pair.b.v));
    let (sizes, od): (Vec<BitmapSize>, FontData) = if pair.color {
        let t = Cblc::read(FontData::new(loc_b)).unwrap();
        (t.bitmap_sizes().to_vec(), t.offset_data())
    } else {
        let t = Eblc::read(FontData::new(loc_b)).unwrap();
        (t.bitmap_sizes().to_vec(), t.offset_data())
    };
    for e in &pair.expect {
        let r = catch(|| sizes[e.size_ix].location(od, GlyphId::new(e.gid)));
        let Ok(r) = r else {
            ctx.oracle("no-panic", false, input, || format!("location({}) panicked", e.gid));
            continue;
        };
        let got = r.as_ref().ok().map(|l| (l.format, l.data_offset, l.data_size, l.metrics.is_some()));
        let want = e.loc.map(|l| (l.0, l.1, l.2, l.3));
        ctx.oracle("generator.location", got == want, input, || format!("size {} glyph {}: location {got:?}, generated {want:?}", e.size_ix, e.gid));
        if let (Ok(l), Some(w)) = (&r, &e.loc) {
            if w.2 == 0 {
                ctx.count("expect.empty");
                continue;
            }
            let d = catch(|| if pair.color { Cbdt::read(FontData::new(dat)).unwrap().data(l) } else { Ebdt::read(FontData::new(dat)).unwrap().data(l) });
            let got = match &d {
                Ok(Ok(d)) => match &d.content {
                    BitmapContent::Data(f, bytes) => Some((
                        match f {
                            BitmapDataFormat::BitAligned => Kind::Bit,
                            BitmapDataFormat::ByteAligned => Kind::Byte,
                            BitmapDataFormat::Png => Kind::Png,
                        },
                        bytes.len(),
                    )),
                    BitmapContent::Composite(c) => Some((Kind::Composite, c.len())),
                },
                _ => None,
            };
            ctx.oracle("generator.data", got == Some((w.4, w.5)), input, || format!("size {} glyph {}: data {got:?}, generated {:?}", e.size_ix, e.gid, (w.4, w.5)));
            ctx.count(&format!("expect.image{}", w.0));
        } else if e.loc.is_none() {
            ctx.count("expect.none");
        }
    }
}

fn data_case(rng: &mut Rng, fmt: u16, color: bool) -> B {
    let bd = *rng.pick(&[0u8, 1, 2, 4, 8, 32, 255]);
    let big = dims(rng);
    let lead = rng.below(4) as usize;
    let payload = rng.below(7) as usize;
    let img = image(rng, fmt, bd, big, payload);
    let mut b = B::new();
    b.u8(color as u8).f16(fmt).f8(bd).u8(rng.chance(5, 6) as u8);
    b.f8(big.0).f8(big.1).bytes(&rng.bytes(6));
    b.f16((4 + lead) as u16).f16(img.b.len() as u16);
    b.u16(if color { 3 } else { 2 }).u16(0).bytes(&rng.bytes(lead));
    b.append(&img.b);
    b.bytes(&rbytes(rng, 4));
    b
}

fn subtable_case(rng: &mut Rng, fmt: u16) -> B {
    let first = rng.below(6) as u16;
    let n = rng.below(5) as u16;
    let last = first + n;
    let mut b = B::new();
    b.f16(last).f16(first);
    b.f16(fmt).u16(*rng.pick(&[1u16, 5, 17, 19])).f32(rng.below(64) as u32);
    match fmt {
        1 => {
            for i in 0..n as u32 + 2 {
                b.f32(i * 7);
            }
        }
        3 => {
            for i in 0..n + 2 {
                b.f16(i * 7);
            }
        }
        2 => {
            b.f32(9).bytes(&rng.bytes(8));
        }
        4 => {
            b.f32(n as u32);
            for i in 0..=n {
                b.f16(first + i).f16(i * 5);
            }
        }
        _ => {
            b.f32(9).bytes(&rng.bytes(8)).f32(n as u32);
            for i in 0..n {
                b.f16(first + i);
            }
        }
    }
    b
}

fn sbix_case(rng: &mut Rng, style: u64) -> (B, u16, Vec<Vec<Option<Vec<u8>>>>) {
    let ng = match style % 4 {
        0 => 0,
        1 => 1,
        _ => 1 + rng.below(6) as u16,
    };
    let n_strikes = 1 + rng.below(3) as usize;
    let mut b = B::new();
    b.f16(ng);
    let base = b.len();
    b.u16(1).u16(1).f32(n_strikes as u32);
    let offs_at = b.len();
    for _ in 0..n_strikes {
        b.f32(0);
    }
    let mut all = vec![];
    for k in 0..n_strikes {
        let at = b.len() - base;
        b.set32(offs_at + 4 * k, at as u32);
        let mut st = B::new();
        st.u16(20 + k as u16).u16(72);
        let table = st.len();
        for _ in 0..=ng {
            st.f32(0);
        }
        let mut glyphs = vec![];
        for g in 0..ng as usize {
            let start = st.len();
            st.set32(table + 4 * g, start as u32);
            if rng.chance(1, 4) {
                glyphs.push(None);
            } else {
                let payload = rbytes(rng, 6);
                st.i16(rng.range(-9, 9) as i16).i16(rng.range(-9, 9) as i16).tag(b"png ").bytes(&payload);
                glyphs.push(Some(payload));
            }
        }
        let end = st.len();
        st.set32(table + 4 * ng as usize, end as u32);
        b.append(&st);
        all.push(glyphs);
    }
    (b, ng, all)
}

pub fn run(ctx: &mut Ctx) {
    let t = ctx.thorough;
    // --- CBLC + CBDT / EBLC + EBDT pairs
    let rounds = if t { 240 } else { 40 };
    for round in 0..rounds {
        let color = round % 2 == 0;
        let hostile = (round / 2) as u64 % 4;
        let pair = bitmap_pair(&mut ctx.rng, color, hostile);
        check_pair(ctx, &pair);
        ctx.drive("bitmap.pair", &pair.b, &walk_pair);
        flush_rel(ctx);
        ctx.count(if color { "pair.color" } else { "pair.mono" });
        ctx.count(&format!("pair.hostile{hostile}"));
    }
    // --- hand-built locations over every image format
    let rounds = if t { 36 } else { 6 };
    for _ in 0..rounds {
        for fmt in [1u16, 2, 5, 6, 7, 8, 9, 17, 18, 19, 3, 4] {
            for color in [true, false] {
                let b = data_case(&mut ctx.rng, fmt, color);
                ctx.drive("bitmap.data", &b, &walk_data);
                flush_rel(ctx);
                ctx.count(&format!("data.format{fmt}"));
            }
        }
    }
    // u8 maxima of width / height / bit depth with exactly enough, one byte less and no data
    for fmt in [1u16, 2, 5, 6, 7] {
        for (h, w, bd) in [(255u8, 255u8, 1u8), (255, 255, 8), (255, 255, 255), (255, 1, 255), (1, 255, 255), (255, 255, 0), (0, 255, 255), (3, 3, 3), (1, 1, 1), (1, 9, 1), (7, 3, 1)] {
            let bits = (w as usize * bd as usize * h as usize).div_ceil(8);
            let rows = (w as usize * bd as usize).div_ceil(8) * h as usize;
            let need = if matches!(fmt, 1 | 6) { rows } else { bits };
            let head = match fmt {
                1 | 2 => 5,
                5 => 0,
                _ => 8,
            };
            for avail in [need, need.saturating_sub(1), need + 1, 0] {
                if avail > 70000 {
                    continue;
                }
                let mut v = vec![1u8];
                v.extend_from_slice(&fmt.to_be_bytes());
                v.push(bd);
                v.push(1);
                v.extend_from_slice(&[h, w, 0, 0, 0, 0, 0, 0]);
                v.extend_from_slice(&4u16.to_be_bytes());
                v.extend_from_slice(&((head + avail).min(0xFFFF) as u16).to_be_bytes());
                v.extend_from_slice(&[0, 3, 0, 0]);
                if head > 0 {
                    v.extend_from_slice(&[h, w, 0, 0, 0, 0, 0, 0][..head]);
                }
                v.resize(v.len() + avail, 0x55);
                ctx.call("bitmap.data", &v, &walk_data);
            }
        }
    }
    flush_rel(ctx);
    ctx.count("data.maxima");
    for v in [vec![0u8, 3, 0, 0], vec![0, 3, 0, 0, 1, 2, 3, 4, 5, 6, 7, 8, 9, 10, 11, 12]] {
        ctx.call("bitmap.data-extreme", &v, &walk_data_extreme);
    }
    // --- index subtables read directly
    let rounds = if t { 120 } else { 20 };
    for _ in 0..rounds {
        for fmt in [1u16, 2, 3, 4, 5, 0, 6] {
            let b = subtable_case(&mut ctx.rng, fmt);
            ctx.drive("bitmap.subtable", &b, &walk_subtable);
            flush_rel(ctx);
            ctx.count(&format!("subtable.format{fmt}"));
        }
    }
    // --- sbix
    let rounds = if t { 360 } else { 60 };
    for round in 0..rounds {
        let (b, ng, glyphs) = sbix_case(&mut ctx.rng, round as u64);
        // ground truth
        if let Ok(sbix) = Sbix::read(FontData::new(&b.v[2..]), ng) {
            for (k, gl) in glyphs.iter().enumerate() {
                for (g, want) in gl.iter().enumerate() {
                    let got = catch(|| sbix.strikes().get(k).ok().and_then(|s| s.glyph_data(GlyphId::new(g as u32)).ok()).map(|d| d.map(|d| d.data().to_vec()))).ok().flatten();
                    ctx.oracle("generator.sbix", got.as_ref() == Some(want), || format!("bitmap.sbix {}", hex(&b.v)), || format!("strike {k} glyph {g}: {got:?}, generated {want:?}"));
                }
            }
        } else {
            ctx.oracle("generator.sbix", false, || format!("bitmap.sbix {}", hex(&b.v)), || "generated sbix does not read".into());
        }
        ctx.drive("bitmap.sbix", &b, &walk_sbix);
        flush_rel(ctx);
        ctx.count(&format!("sbix.glyphs{}", ng.min(2)));
    }
    // --- random bytes
    ctx.drive_random("bitmap.pair", if t { 3000 } else { 500 }, 120, &walk_pair);
    ctx.drive_random("bitmap.data", if t { 3000 } else { 500 }, 48, &walk_data);
    ctx.drive_random("bitmap.subtable", if t { 6000 } else { 1000 }, 40, &walk_subtable);
    ctx.drive_random("bitmap.sbix", if t { 6000 } else { 1000 }, 64, &walk_sbix);
    flush_rel(ctx);
}
