//! group `text.model` — correspondence of the real hand-written functions of
//! name.rs / post.rs / cmap.rs (NameString / CharIter / MacRoman, Post::glyph_name / PString, cmap formats 0/2/6/10/13/14 lookups and iterators)
//! with Model/HandText.lean (`ht.*` driver commands), on generator-based inputs with truncations and
//! boundary fields; plus the group's own byte-level oracles.
//!
//! The tables are read by the REAL generated readers (`Cmap4::read`, `Cmap::read`, `Name::read`, …); what the
//! model is given are the arrays / records the real accessors return, so a truncated or field-mutated table
//! reaches the model exactly as the hand-written code sees it.  `ht.post` and `ht.pstr` hand the raw bytes over
//! (the model re-reads them with the cursor model).
use super::*;
use font_types::{GlyphId, GlyphId16};
use read_fonts::collections::IntSet;
use read_fonts::tables::cmap::{Cmap, Cmap12, Cmap14, Cmap4, CmapSubtable, MapVariant, VariationSelector};
use read_fonts::tables::name::{Encoding, MacRomanMapping, Name};
use read_fonts::tables::post::{PString, Post, DEFAULT_GLYPH_NAMES};
use read_fonts::{FontData, FontRead, ReadError};

// ------------------------------------------------------------------------------------------------
// plumbing

/// the variants of a generated input: the base, every prefix, each registered field at boundary values
fn vars(b: &B, max_prefixes: usize) -> Vec<Vec<u8>> {
    let n = b.v.len();
    let mut out = vec![b.v.clone()];
    if n <= max_prefixes {
        for c in 0..n {
            out.push(b.v[..c].to_vec());
        }
    } else {
        // every cut in the head and the tail, every other one in between
        for c in 0..n {
            if c < max_prefixes / 2 || c + max_prefixes / 2 >= n || c % 3 == 0 {
                out.push(b.v[..c].to_vec());
            }
        }
    }
    for (p, w) in &b.fields {
        let w = *w as usize;
        if p + w > n {
            continue;
        }
        let max: u64 = (1u64 << (8 * w)) - 1;
        let mut cur = 0u64;
        for k in 0..w {
            cur = (cur << 8) | b.v[p + k] as u64;
        }
        let rest = (n - p) as u64;
        let mut vals = vec![0u64, 1, max, max - 1, max / 2 + 1, cur.wrapping_add(1), cur.wrapping_sub(1), cur.wrapping_mul(2), n as u64, rest, rest / 2];
        vals.sort();
        vals.dedup();
        for v in vals {
            let v = v & max;
            if v == cur {
                continue;
            }
            let mut m = b.v.clone();
            for k in 0..w {
                m[p + k] = (v >> (8 * (w - 1 - k))) as u8;
            }
            out.push(m);
        }
    }
    out
}

/// evaluate `f` on the real code; `Some(response)` becomes a correspondence case, a panic a `no-panic`
/// failure with the input
/// tell the watchdog / crash tracer what is being evaluated (as `Ctx::call` does)
fn mark(what: &str, bytes: &[u8]) {
    PROGRESS.fetch_add(1, Ordering::Relaxed);
    {
        let mut cur = CURRENT.lock().unwrap();
        cur.0.clear();
        cur.0.push_str(what);
        cur.1.clear();
        cur.1.extend_from_slice(bytes);
    }
    if let Some(t) = TRACE.lock().unwrap().as_mut() {
        use std::io::Write;
        let _ = writeln!(t, "{} {}", what, hex(bytes));
        let _ = t.flush();
    }
}

fn ask(ctx: &mut Ctx, what: &str, bytes: &[u8], f: impl FnOnce() -> Option<(String, String)>) {
    mark(what, bytes);
    match catch(f) {
        Ok(Some((req, resp))) => {
            ctx.oracle("no-panic", true, String::new, String::new);
            ctx.case(req, resp);
        }
        Ok(None) => ctx.oracle("no-panic", true, String::new, String::new),
        Err(m) => ctx.oracle("no-panic", false, || format!("{what} {}", hex(bytes)), || format!("panicked: {m}")),
    }
}

fn commas<T: std::fmt::Display>(xs: impl Iterator<Item = T>) -> String {
    let v: Vec<String> = xs.map(|x| x.to_string()).collect();
    if v.is_empty() {
        "-".into()
    } else {
        v.join(",")
    }
}

fn gid_str(g: Option<GlyphId>) -> String {
    g.map(|g| g.to_u32().to_string()).unwrap_or("n".into())
}

/// `Drv.C01Iter.fnv` / `summary`
struct Summary {
    n: u64,
    h: u64,
    first: Option<String>,
    last: Option<String>,
}

impl Summary {
    fn new() -> Self {
        Summary { n: 0, h: 14695981039346656037, first: None, last: None }
    }
    fn row(&mut self, r: &[u64]) {
        self.n += 1;
        for x in r {
            self.h = (self.h ^ *x).wrapping_mul(1099511628211);
        }
        let s = r.iter().map(|x| x.to_string()).collect::<Vec<_>>().join(":");
        if self.first.is_none() {
            self.first = Some(s.clone());
        }
        self.last = Some(s);
    }
    fn render(&self) -> String {
        format!("{} {} {} {}", self.n, self.h, self.first.clone().unwrap_or("-".into()), self.last.clone().unwrap_or("-".into()))
    }
}

// ------------------------------------------------------------------------------------------------
// format 4

#[derive(Clone, Debug)]
struct Seg {
    start: u16,
    end: u16,
    delta: i16,
    ro: u16,
}

fn cmap4_bytes(segs: &[Seg], gids: &[u16], seg_count_x2: Option<u16>) -> B {
    let n = segs.len();
    let mut b = B::new();
    b.u16(4).u16((16 + 8 * n + 2 * gids.len()) as u16).u16(0).f16(seg_count_x2.unwrap_or(2 * n as u16)).u16(0).u16(0).u16(0);
    for s in segs {
        b.f16(s.end);
    }
    b.u16(0);
    for s in segs {
        b.f16(s.start);
    }
    for s in segs {
        b.i16(s.delta);
    }
    for s in segs {
        b.f16(s.ro);
    }
    for g in gids {
        b.u16(*g);
    }
    b
}

fn gen_cmap4(rng: &mut Rng) -> B {
    let n = 1 + rng.below(6) as usize;
    let ngid = rng.below(8) as usize;
    let gids: Vec<u16> = (0..ngid).map(|_| if rng.chance(1, 5) { 0 } else { rng.below(500) as u16 }).collect();
    let mut segs = vec![];
    let mut cur = rng.below(40) as u32;
    for i in 0..n {
        let last = i == n - 1;
        let (start, end) = if last && rng.chance(3, 4) { (0xFFFFu32, 0xFFFFu32) } else { (cur, cur + rng.below(12) as u32) };
        cur = end + 1 + rng.below(20) as u32;
        let ro = match rng.below(9) {
            0 | 1 | 2 => 0,
            3 => 2 * (n - i) as u16,
            4 => (2 * (n - i) + 2 * ngid) as u16,
            5 => (2 * (n - i) + 2 * ngid).saturating_sub(2 * (end - start) as usize + 2) as u16,
            6 => *rng.pick(&[1u16, 2, 3, 0xFFFE, 0xFFFF, 0x8000]),
            _ => (2 * (n - i) + 2 * rng.below(ngid as u64 + 1) as usize) as u16,
        };
        let delta = *rng.pick(&[0i16, 1, -1, 100, i16::MAX, i16::MIN, -29]);
        segs.push(Seg { start: start.min(0xFFFF) as u16, end: end.min(0xFFFF) as u16, delta, ro });
    }
    match rng.below(8) {
        0 => rng.shuffle(&mut segs),
        1 => {
            let k = rng.below(n as u64) as usize;
            segs[k].start = 0;
        }
        2 => {
            let k = rng.below(n as u64) as usize;
            let s = &mut segs[k];
            std::mem::swap(&mut s.start, &mut s.end);
        }
        _ => {}
    }
    let x2 = match rng.below(10) {
        0 => Some(2 * n as u16 + 1),
        1 => Some(2 * n as u16 - 1),
        _ => None,
    };
    let mut b = cmap4_bytes(&segs, &gids, x2);
    if rng.chance(1, 4) {
        b.u8(rng.next() as u8);
    }
    b
}

/// `x2 end start delta rangeOffset glyphs` as the real accessors give them
fn tok4(t: &Cmap4) -> String {
    format!(
        "{} {} {} {} {} {}",
        t.seg_count_x2(),
        commas(t.end_code().iter().map(|x| x.get())),
        commas(t.start_code().iter().map(|x| x.get())),
        commas(t.id_delta().iter().map(|x| x.get())),
        commas(t.id_range_offsets().iter().map(|x| x.get())),
        commas(t.glyph_id_array().iter().map(|x| x.get()))
    )
}

fn cps4(t: &Cmap4) -> Vec<u32> {
    let mut vals = vec![];
    for (s, e) in t.start_code().iter().zip(t.end_code().iter()).take(12) {
        let (s, e) = (s.get() as u64, e.get() as u64);
        vals.extend([s, e, (s + e) / 2]);
    }
    edge32(&vals)
}

fn case4(ctx: &mut Ctx, bytes: &[u8]) {
    let mut stats: Vec<&'static str> = vec![];
    ask(ctx, "map4", bytes, || {
        let t = match Cmap4::read(FontData::new(bytes)) {
            Ok(t) => t,
            Err(_) => {
                stats.push("map4.read-err");
                return None;
            }
        };
        let cps = cps4(&t);
        let resp: Vec<String> = cps
            .iter()
            .map(|c| {
                let g = t.map_codepoint(*c);
                // branch statistics: which way the containing segment (if any) answers
                let seg = t.start_code().iter().zip(t.end_code().iter()).position(|(s, e)| s.get() as u32 <= *c && *c <= e.get() as u32);
                stats.push(match (seg, g) {
                    _ if *c > 0xFFFF => "map4.cp>0xffff",
                    (None, _) => "map4.no-segment",
                    (Some(i), Some(_)) if t.id_range_offsets()[i].get() == 0 => "map4.hit.delta",
                    (Some(_), Some(_)) => "map4.hit.glyph-array",
                    (Some(i), None) if t.id_range_offsets()[i].get() == 0 => "map4.segment-not-found(unsorted)",
                    (Some(_), None) => "map4.none.glyph-array(0/outside/unsorted)",
                });
                gid_str(g)
            })
            .collect();
        Some((format!("ht.map4 {} | {}", tok4(&t), join(&cps)), join(&resp)))
    });
    for s in stats {
        ctx.count(s);
    }
}

// ------------------------------------------------------------------------------------------------
// format 12

fn cmap12_bytes(format: u16, groups: &[(u32, u32, u32)], num_groups: Option<u32>) -> B {
    let mut b = B::new();
    b.u16(format).u16(0).u32(16 + 12 * groups.len() as u32).u32(0).f32(num_groups.unwrap_or(groups.len() as u32));
    for (s, e, g) in groups {
        b.f32(*s).f32(*e).f32(*g);
    }
    b
}

fn gen_groups(rng: &mut Rng) -> Vec<(u32, u32, u32)> {
    let n = rng.below(7) as usize;
    let mut groups = vec![];
    let mut cur = match rng.below(4) {
        0 => 0x10FFF0,
        1 => 0xFFF0,
        _ => rng.below(100) as u32,
    };
    for _ in 0..n {
        let end = cur + rng.below(30) as u32;
        let gid = match rng.below(6) {
            0 => 0xFFFF - rng.below(12) as u32,
            1 => u32::MAX - rng.below(12) as u32,
            2 => 290 + rng.below(12) as u32,
            _ => rng.below(60) as u32,
        };
        groups.push((cur, end, gid));
        cur = end + 1 + rng.below(10) as u32;
    }
    match rng.below(8) {
        0 => rng.shuffle(&mut groups),
        1 if n > 0 => {
            let k = rng.below(n as u64) as usize;
            groups[k].0 = groups[0].0;
        }
        2 if n > 0 => {
            let k = rng.below(n as u64) as usize;
            groups[k] = (groups[k].1, groups[k].0, groups[k].2);
        }
        3 if n > 1 => groups[n - 1].1 = groups[0].0,
        4 if n > 0 => groups[n - 1].1 = u32::MAX.min(groups[n - 1].0 + 40),
        5 if n > 0 => groups[n - 1] = (u32::MAX - 3, u32::MAX, u32::MAX - 1),
        _ => {}
    }
    groups
}

fn tok12(t: &Cmap12) -> String {
    let v: Vec<u32> = t.groups().iter().flat_map(|g| [g.start_char_code(), g.end_char_code(), g.start_glyph_id()]).collect();
    join(&v)
}

fn cps12(t: &Cmap12) -> Vec<u32> {
    let mut vals = vec![];
    for g in t.groups().iter().take(12) {
        let (s, e) = (g.start_char_code() as u64, g.end_char_code() as u64);
        vals.extend([s, e, (s + e) / 2]);
    }
    edge32(&vals)
}

fn case12(ctx: &mut Ctx, bytes: &[u8]) {
    let mut stats: Vec<&'static str> = vec![];
    ask(ctx, "map12", bytes, || {
        let t = match Cmap12::read(FontData::new(bytes)) {
            Ok(t) => t,
            Err(_) => {
                stats.push("map12.read-err");
                return None;
            }
        };
        let cps = cps12(&t);
        let resp: Vec<String> = cps
            .iter()
            .map(|c| {
                let g = t.map_codepoint(*c);
                let seg = t.groups().iter().any(|g| g.start_char_code() <= *c && *c <= g.end_char_code());
                stats.push(match (seg, g) {
                    (false, _) => "map12.no-group",
                    (true, Some(_)) => "map12.hit",
                    (true, None) => "map12.group-not-found(unsorted)",
                });
                gid_str(g)
            })
            .collect();
        Some((format!("ht.map12 {} | {}", tok12(&t), join(&cps)), join(&resp)))
    });
    for s in stats {
        ctx.count(s);
    }
}

// ------------------------------------------------------------------------------------------------
// format 14

#[derive(Clone, Default)]
struct Sel {
    selector: u32,
    default: Option<Vec<(u32, u8)>>,
    non_default: Option<Vec<(u32, u16)>>,
}

fn cmap14_bytes(rng: &mut Rng, sels: &[Sel], hostile_offsets: bool) -> B {
    let mut b = B::new();
    b.u16(14).u32(0).f32(sels.len() as u32);
    for s in sels {
        b.f24(s.selector).f32(0).f32(0);
    }
    for (i, s) in sels.iter().enumerate() {
        if let Some(d) = &s.default {
            let at = b.len() as u32;
            b.set32(10 + 11 * i + 3, at);
            b.f32(d.len() as u32);
            for (st, add) in d {
                b.f24(*st).f8(*add);
            }
        }
        if let Some(nd) = &s.non_default {
            let at = b.len() as u32;
            b.set32(10 + 11 * i + 7, at);
            b.f32(nd.len() as u32);
            for (u, g) in nd {
                b.f24(*u).u16(*g);
            }
        }
    }
    let len = b.len() as u32;
    b.set32(2, len);
    if hostile_offsets && !sels.is_empty() {
        let i = rng.below(sels.len() as u64) as usize;
        let which = 3 + 4 * rng.below(2) as usize;
        let v = match rng.below(6) {
            0 => len,
            1 => len - 1,
            2 => len - 4,
            3 => 10 + 11 * i as u32,
            4 => 6,
            _ => u32::MAX,
        };
        b.set32(10 + 11 * i + which, v);
    }
    b
}

fn gen_sels(rng: &mut Rng) -> Vec<Sel> {
    let n = rng.below(4) as usize;
    let mut sels = vec![];
    let mut s = *rng.pick(&[0xFE00u32, 0xE0100, 0, 0xFFFFF0]);
    for _ in 0..n {
        let default = if rng.chance(2, 3) {
            let k = rng.below(4) as usize;
            let mut v = vec![];
            let mut cur = *rng.pick(&[0x30u32, 0x4E00, 0x10FF00, 0xFFFF00, 0xFFFFF0]);
            for _ in 0..k {
                let add = match rng.below(5) {
                    0 => 0,
                    1 => 255,
                    _ => rng.below(12) as u8,
                };
                v.push((cur.min(0xFFFFFF), add));
                cur = cur + add as u32 + 1 + rng.below(8) as u32;
            }
            if rng.chance(1, 6) {
                rng.shuffle(&mut v);
            }
            if rng.chance(1, 6) && k > 0 {
                v[k - 1] = (0xFFFFFF, 255);
            }
            Some(v)
        } else {
            None
        };
        let non_default = if rng.chance(2, 3) {
            let k = rng.below(5) as usize;
            let mut v = vec![];
            let mut cur = *rng.pick(&[0x28u32, 0x4E00, 0xFFFFF0]);
            for _ in 0..k {
                v.push((cur.min(0xFFFFFF), rng.below(400) as u16));
                cur += 1 + rng.below(9) as u32;
            }
            if rng.chance(1, 6) {
                rng.shuffle(&mut v);
            }
            Some(v)
        } else {
            None
        };
        sels.push(Sel { selector: s.min(0xFFFFFF), default, non_default });
        s += 1 + rng.below(3) as u32;
    }
    match rng.below(8) {
        0 => rng.shuffle(&mut sels),
        1 if n > 1 => sels[1].selector = sels[0].selector,
        _ => {}
    }
    sels
}

/// one selector record as the hand-written code sees it (both `None` and `Some(Err)` = absent)
struct Rec14 {
    selector: u32,
    defaults: Option<Vec<(u32, u8)>>,
    non_defaults: Option<Vec<(u32, u16)>>,
}

fn rec14(r: &VariationSelector, data: FontData) -> Rec14 {
    let defaults = match r.default_uvs(data) {
        Some(Ok(d)) => Some(d.ranges().iter().map(|x| (x.start_unicode_value().to_u32(), x.additional_count())).collect()),
        _ => None,
    };
    let non_defaults = match r.non_default_uvs(data) {
        Some(Ok(d)) => Some(d.uvs_mapping().iter().map(|x| (x.unicode_value().to_u32(), x.glyph_id())).collect()),
        _ => None,
    };
    Rec14 { selector: r.var_selector().to_u32(), defaults, non_defaults }
}

fn recs14(t: &Cmap14) -> Vec<Rec14> {
    t.var_selector().iter().map(|r| rec14(r, t.offset_data())).collect()
}

fn tok14(recs: &[Rec14]) -> String {
    if recs.is_empty() {
        return "-".into();
    }
    recs.iter()
        .map(|r| {
            let d = match &r.defaults {
                None => "x".to_string(),
                Some(v) => commas(v.iter().flat_map(|(a, c)| [*a, *c as u32])),
            };
            let n = match &r.non_defaults {
                None => "x".to_string(),
                Some(v) => commas(v.iter().flat_map(|(a, g)| [*a, *g as u32])),
            };
            format!("{} {} {}", r.selector, d, n)
        })
        .collect::<Vec<_>>()
        .join(" ")
}

fn total14(recs: &[Rec14]) -> u64 {
    recs.iter().map(|r| r.defaults.iter().flatten().map(|x| x.1 as u64 + 1).sum::<u64>() + r.non_defaults.as_ref().map(|n| n.len() as u64).unwrap_or(0)).sum()
}

fn args14(recs: &[Rec14]) -> (Vec<u32>, Vec<u32>) {
    let mut sels = vec![];
    let mut cps = vec![];
    for r in recs.iter().take(6) {
        sels.push(r.selector as u64);
        for (a, c) in r.defaults.iter().flatten().take(5) {
            cps.push(*a as u64);
            cps.push(*a as u64 + *c as u64);
        }
        for (u, _) in r.non_defaults.iter().flatten().take(5) {
            cps.push(*u as u64);
        }
    }
    let mut s = edge32(&sels);
    s.retain(|s| [0, 0xFFFFFF, 0x1000000].contains(s) || recs.iter().any(|r| (r.selector as i64 - *s as i64).abs() <= 1));
    let mut c = edge32(&cps);
    c.retain(|c| [0, 0x10FFFF, 0xFFFFFF, 0x1000000, u32::MAX].contains(c) || cps.iter().any(|x| (*x as i64 - *c as i64).abs() <= 1));
    (s, c)
}

fn mv_str(v: Option<MapVariant>) -> String {
    match v {
        None => "n".into(),
        Some(MapVariant::UseDefault) => "d".into(),
        Some(MapVariant::Variant(g)) => format!("v{}", g.to_u32()),
    }
}

/// cases of one readable format 14 subtable: `map_variant`, the iterator, `closure_glyphs`
fn cases14(ctx: &mut Ctx, bytes: &[u8]) {
    mark("Cmap14::read + records", bytes);
    let t = match catch(|| Cmap14::read(FontData::new(bytes))) {
        Ok(Ok(t)) => t,
        Ok(Err(_)) => {
            ctx.count("cmap14.read-err");
            return;
        }
        Err(m) => {
            ctx.oracle("no-panic", false, || format!("Cmap14::read {}", hex(bytes)), || m.clone());
            return;
        }
    };
    let recs = match catch(|| recs14(&t)) {
        Ok(r) => r,
        Err(m) => {
            ctx.oracle("no-panic", false, || format!("cmap14 records {}", hex(bytes)), || m.clone());
            return;
        }
    };
    let tok = tok14(&recs);
    let (sels, cps) = args14(&recs);
    let mut stats: Vec<&'static str> = vec![];
    ask(ctx, "map_variant", bytes, || {
        let mut resp = vec![];
        for s in &sels {
            for c in &cps {
                let r = t.map_variant(*c, *s);
                stats.push(match r {
                    None => "mv14.none",
                    Some(MapVariant::UseDefault) => "mv14.use-default",
                    Some(MapVariant::Variant(_)) => "mv14.variant",
                });
                resp.push(mv_str(r));
            }
        }
        Some((format!("ht.mv14 {} | {} | {}", tok, join(&sels), join(&cps)), join(&resp)))
    });
    for s in stats {
        ctx.count(s);
    }
    // the iterator: digest + count, and the model independent bound Σ(additional_count + 1) + #mappings
    let total = total14(&recs);
    if total <= 60_000 {
        let mut over = None;
        let mut bad_item = None;
        ask(ctx, "Cmap14::iter", bytes, || {
            let mut sm = Summary::new();
            for (c, s, v) in t.iter() {
                if sm.n > total {
                    over = Some(sm.n);
                    break;
                }
                let code = match v {
                    MapVariant::UseDefault => 1,
                    MapVariant::Variant(g) => 2 + g.to_u32() as u64,
                };
                // every item comes from a record with that selector: a default range containing it / a mapping
                let ok = recs.iter().any(|r| {
                    r.selector == s
                        && match v {
                            MapVariant::UseDefault => r.defaults.iter().flatten().any(|(a, k)| *a <= c && c <= *a + *k as u32),
                            MapVariant::Variant(g) => r.non_defaults.iter().flatten().any(|(u, gg)| *u == c && *gg as u32 == g.to_u32()),
                        }
                });
                if !ok && bad_item.is_none() {
                    bad_item = Some((c, s, code));
                }
                sm.row(&[c as u64, s as u64, code]);
            }
            Some((format!("ht.it14 {}", tok), sm.render()))
        });
        ctx.oracle("cmap14.iter-bounded", over.is_none(), || format!("Cmap14::iter {}", hex(bytes)), || format!("more than {total} items"));
        ctx.oracle("cmap14.item-from-record", bad_item.is_none(), || format!("Cmap14::iter {}", hex(bytes)), || format!("item {bad_item:?} is in no record"));
        ctx.count(if total == 0 { "it14.empty" } else if total > 2000 { "it14.big" } else { "it14.small" });
        if recs.iter().any(|r| r.defaults.is_some() && r.non_defaults.is_some()) {
            ctx.count("it14.record-with-both-tables");
        }
        if recs.iter().any(|r| r.defaults.is_none() && r.non_defaults.is_none()) {
            ctx.count("it14.record-with-no-table");
        }
    } else {
        ctx.count("it14.skipped-too-big");
    }
    // closure
    let mut us: Vec<u32> = sels.iter().chain(cps.iter()).copied().collect();
    if ctx.rng.chance(1, 2) {
        // drop some so that both filters have something to reject
        us.retain(|_| ctx.rng.chance(2, 3));
    }
    us.sort();
    us.dedup();
    let n_map: u64 = recs.iter().map(|r| r.non_defaults.as_ref().map(|n| n.len() as u64).unwrap_or(0)).sum();
    let mut too_many = None;
    let mut nonempty = false;
    ask(ctx, "Cmap14::closure_glyphs", bytes, || {
        let mut unicodes: IntSet<u32> = IntSet::empty();
        for u in &us {
            unicodes.insert(*u);
        }
        let mut glyphs: IntSet<GlyphId> = IntSet::empty();
        t.closure_glyphs(&unicodes, &mut glyphs);
        if glyphs.len() > n_map {
            too_many = Some(glyphs.len());
        }
        nonempty = !glyphs.is_empty();
        let g: Vec<u32> = glyphs.iter().map(|g| g.to_u32()).collect();
        Some((format!("ht.clo14 {} | {}", tok, join(&us)), join(&g)))
    });
    ctx.oracle("cmap14.closure-bounded", too_many.is_none(), || format!("Cmap14::closure_glyphs {}", hex(bytes)), || format!("{too_many:?} glyphs for {n_map} mappings"));
    ctx.count(if nonempty { "clo14.some" } else { "clo14.empty" });
}

// ------------------------------------------------------------------------------------------------
// the whole table: `Cmap::map_codepoint`, `Cmap::closure_glyphs`

fn other_subtable(rng: &mut Rng, format: u16) -> B {
    let mut b = B::new();
    match format {
        6 => {
            let n = rng.below(6) as u16;
            b.u16(6).u16(10 + 2 * n).u16(1).u16(0x20).u16(n);
            b.bytes(&rng.bytes(2 * n as usize));
        }
        10 => {
            let n = rng.below(6) as u32;
            b.u16(10).u16(0).u32(20 + 2 * n).u32(3).u32(0x1F600).u32(n);
            b.bytes(&rng.bytes(2 * n as usize));
        }
        0 => {
            b.u16(0).u16(262).u16(7);
            b.bytes(&rng.bytes(256));
        }
        _ => {
            let g = gen_groups(rng);
            return cmap12_bytes(13, &g, None);
        }
    }
    b
}

fn cmap_table(subs: &[(u16, u16, usize)], tables: &[B]) -> B {
    let mut b = B::new();
    b.u16(0).f16(subs.len() as u16);
    for (p, e, _) in subs {
        b.u16(*p).u16(*e).f32(0);
    }
    let mut at = vec![];
    for t in tables {
        at.push(b.len());
        // only the table's own count fields stay registered (keeps the variant count down)
        let keep: Vec<(usize, u8)> = t.fields.iter().take(2).copied().collect();
        let start = b.len();
        b.bytes(&t.v);
        for (p, w) in keep {
            b.mark(start + p, w);
        }
    }
    for (k, (_, _, which)) in subs.iter().enumerate() {
        if let Some(a) = at.get(*which) {
            b.set32(4 + 8 * k + 4, *a as u32);
        }
    }
    b
}

fn case_cmap(ctx: &mut Ctx, bytes: &[u8]) {
    mark("Cmap::read", bytes);
    let cmap = match catch(|| Cmap::read(FontData::new(bytes))) {
        Ok(Ok(t)) => t,
        Ok(Err(_)) => {
            ctx.count("cmap.read-err");
            return;
        }
        Err(m) => {
            ctx.oracle("no-panic", false, || format!("Cmap::read {}", hex(bytes)), || m.clone());
            return;
        }
    };
    let mut stats: Vec<String> = vec![];
    let mut closure_req: Option<(String, Vec<u32>)> = None;
    ask(ctx, "Cmap::map_codepoint", bytes, || {
        let mut toks = vec![];
        let mut clo = vec![];
        let mut vals: Vec<u64> = vec![0x41];
        let mut us: Vec<u32> = vec![];
        for rec in cmap.encoding_records().iter() {
            match rec.subtable(cmap.offset_data()) {
                Ok(CmapSubtable::Format4(t)) => {
                    toks.push(format!("4 {}", tok4(&t)));
                    vals.extend(cps4(&t).iter().take(24).map(|x| *x as u64));
                    clo.push("x".to_string());
                    stats.push("cmap.sub.format4".into());
                }
                Ok(CmapSubtable::Format12(t)) => {
                    toks.push(format!("12 {}", tok12(&t)));
                    vals.extend(cps12(&t).iter().take(24).map(|x| *x as u64));
                    clo.push("x".to_string());
                    stats.push("cmap.sub.format12".into());
                }
                Ok(CmapSubtable::Format14(t)) => {
                    toks.push("o".into());
                    let recs = recs14(&t);
                    let (s, c) = args14(&recs);
                    us.extend(s);
                    us.extend(c);
                    clo.push(tok14(&recs));
                    stats.push("cmap.sub.format14".into());
                }
                Ok(_) => {
                    toks.push("o".into());
                    clo.push("x".to_string());
                    stats.push("cmap.sub.other".into());
                }
                Err(_) => {
                    toks.push("e".into());
                    clo.push("x".to_string());
                    stats.push("cmap.sub.err".into());
                }
            }
        }
        vals.sort();
        vals.dedup();
        let cps: Vec<u32> = vals.iter().map(|x| *x as u32).collect();
        let mut first_answers = [0u32; 4];
        let resp: Vec<String> = cps
            .iter()
            .map(|c| {
                let g = cmap.map_codepoint(*c);
                // which record answered (statistics)
                let k = cmap.encoding_records().iter().position(|r| match r.subtable(cmap.offset_data()) {
                    Ok(CmapSubtable::Format4(t)) => t.map_codepoint(*c).is_some(),
                    Ok(CmapSubtable::Format12(t)) => t.map_codepoint(*c).is_some(),
                    _ => false,
                });
                first_answers[k.map(|k| k.min(2) + 1).unwrap_or(0)] += 1;
                gid_str(g)
            })
            .collect();
        for (k, n) in first_answers.iter().enumerate() {
            for _ in 0..*n {
                stats.push(["cmap.map.none", "cmap.map.record0", "cmap.map.record1", "cmap.map.record2+"][k].into());
            }
        }
        us.sort();
        us.dedup();
        let mut req = format!("ht.cmap {}", join(&cps));
        for t in &toks {
            req.push_str(" | ");
            req.push_str(t);
        }
        let mut creq = format!("ht.cmapclo {}", join(&us));
        for t in &clo {
            creq.push_str(" | ");
            creq.push_str(t);
        }
        closure_req = Some((creq, us));
        Some((req, join(&resp)))
    });
    for s in stats {
        ctx.count(&s);
    }
    if let Some((creq, us)) = closure_req {
        let mut nonempty = false;
        ask(ctx, "Cmap::closure_glyphs", bytes, || {
            let mut unicodes: IntSet<u32> = IntSet::empty();
            for u in &us {
                unicodes.insert(*u);
            }
            let mut glyphs: IntSet<GlyphId> = IntSet::empty();
            cmap.closure_glyphs(&unicodes, &mut glyphs);
            nonempty = !glyphs.is_empty();
            let g: Vec<u32> = glyphs.iter().map(|g| g.to_u32()).collect();
            Some((creq, join(&g)))
        });
        ctx.count(if nonempty { "cmapclo.some" } else { "cmapclo.empty" });
    }
}

// ------------------------------------------------------------------------------------------------
// name

#[derive(Clone, Copy)]
struct NameRec {
    pid: u16,
    eid: u16,
    len: u16,
    off: u16,
}

fn name_bytes(version: u16, recs: &[NameRec], langs: &[(u16, u16)], storage: &[u8], storage_offset: Option<u16>) -> B {
    let mut b = B::new();
    b.u16(version).f16(recs.len() as u16).f16(0);
    for (i, r) in recs.iter().enumerate() {
        b.u16(r.pid).u16(r.eid).u16(0x409).u16(i as u16).f16(r.len).f16(r.off);
    }
    if version >= 1 {
        b.f16(langs.len() as u16);
        for (l, o) in langs {
            b.f16(*l).f16(*o);
        }
    }
    let so = storage_offset.unwrap_or(b.len() as u16);
    b.set16(4, so);
    b.bytes(storage);
    b
}

const PAIRS: [(u16, u16); 16] = [(0, 0), (0, 3), (0, 4), (0, 0xFFFF), (1, 0), (1, 1), (1, 0xFFFF), (2, 0), (2, 1), (3, 0), (3, 1), (3, 10), (3, 2), (3, 9), (4, 0), (0xFFFF, 0xFFFF)];

fn utf16_payload(rng: &mut Rng, n_units: usize) -> Vec<u8> {
    let mut v = vec![];
    for _ in 0..n_units {
        let u: u16 = match rng.below(8) {
            0 => 0xD800 + rng.below(0x400) as u16,
            1 => 0xDC00 + rng.below(0x400) as u16,
            2 => *rng.pick(&[0xD7FFu16, 0xD800, 0xDBFF, 0xDC00, 0xDFFF, 0xE000, 0xFFFE, 0xFFFF, 0]),
            3 => 0x80 + rng.below(0x80) as u16 | ((rng.below(0x80) as u16 + 0x80) << 8),
            _ => 0x20 + rng.below(0x60) as u16,
        };
        v.extend_from_slice(&u.to_be_bytes());
    }
    v
}

fn enc_char(e: Encoding) -> char {
    match e {
        Encoding::Utf16Be => 'u',
        Encoding::MacRoman => 'm',
        Encoding::Unknown => 'x',
    }
}

/// one `NameString` against the model + the CharIter oracles
#[allow(clippy::too_many_arguments)]
fn name_string_case(ctx: &mut Ctx, bytes: &[u8], storage: &[u8], pid: u16, eid: u16, off: u16, len: u16, r: Result<read_fonts::tables::name::NameString, ReadError>) {
    let req = format!("ht.name {} {} {} {} {}", pid, eid, off, len, hex(storage));
    match r {
        Err(e) => {
            ctx.oracle("name.error-kind", matches!(e, ReadError::OutOfBounds), || format!("{req} in {}", hex(bytes)), || format!("{e:?}"));
            ctx.count("name.string.oob");
            ctx.case(req, "oob".into());
        }
        Ok(s) => {
            let enc = Encoding::new(pid, eid);
            let cap = match enc {
                Encoding::Utf16Be => len as usize / 2,
                Encoding::MacRoman => len as usize,
                Encoding::Unknown => 0,
            };
            mark(&req, bytes);
            // every walk of the string inside one `catch`: a panic of `CharIter` is a `no-panic` failure with the input
            let walks = catch(|| {
                let chars: Vec<u32> = s.chars().take(cap + 2).map(|c| c as u32).collect();
                if chars.len() > cap {
                    return (chars, None);
                }
                // `Display`, `IntoIterator` and `SomeString::iter_chars` walk the same iterator
                let shown: Vec<u32> = s.to_string().chars().map(|c| c as u32).collect();
                let again: Vec<u32> = s.into_iter().map(|c| c as u32).collect();
                let boxed: Vec<u32> = read_fonts::traversal::SomeString::iter_chars(&s).take(cap + 2).map(|c| c as u32).collect();
                (chars, Some((shown, again, boxed)))
            });
            let (chars, others) = match walks {
                Ok(w) => w,
                Err(m) => {
                    ctx.oracle("no-panic", false, || format!("{req} in {}", hex(bytes)), || format!("panicked: {m}"));
                    return;
                }
            };
            ctx.oracle("no-panic", true, String::new, String::new);
            ctx.oracle("name.chars-bounded", chars.len() <= cap, || format!("{req} in {}", hex(bytes)), || format!("{} chars from {} bytes ({})", chars.len(), len, enc_char(enc)));
            if let Some((shown, again, boxed)) = others {
                ctx.oracle("name.display-is-chars", shown == chars, || format!("{req} in {}", hex(bytes)), || format!("{shown:?} vs {chars:?}"));
                ctx.oracle("name.into-iter-is-chars", again == chars, || format!("{req} in {}", hex(bytes)), || format!("{again:?} vs {chars:?}"));
                ctx.oracle("name.iter-chars-is-chars", boxed == chars, || format!("{req} in {}", hex(bytes)), || format!("{boxed:?} vs {chars:?}"));
            }
            let start = off as usize;
            ctx.count(match enc {
                Encoding::Utf16Be if len % 2 == 1 => "name.string.utf16.odd",
                Encoding::Utf16Be if chars.contains(&0xFFFD) => "name.string.utf16.replacement",
                Encoding::Utf16Be if chars.iter().any(|c| *c >= 0x10000) => "name.string.utf16.pair",
                Encoding::Utf16Be => "name.string.utf16.plain",
                Encoding::MacRoman if chars.iter().any(|c| *c >= 128) => "name.string.mac.high",
                Encoding::MacRoman => "name.string.mac.ascii",
                Encoding::Unknown => "name.string.unknown",
            });
            ctx.case(req, format!("{}:{} {} {}", start, start + len as usize, enc_char(enc), join(&chars)));
        }
    }
}

fn case_name(ctx: &mut Ctx, bytes: &[u8]) {
    mark("Name::read + NameRecord::string + chars", bytes);
    let name = match catch(|| Name::read(FontData::new(bytes))) {
        Ok(Ok(t)) => t,
        Ok(Err(_)) => {
            ctx.count("name.read-err");
            return;
        }
        Err(m) => {
            ctx.oracle("no-panic", false, || format!("Name::read {}", hex(bytes)), || m.clone());
            return;
        }
    };
    let r = catch(|| {
        let sd = name.string_data();
        let storage = sd.as_bytes().to_vec();
        let mut out = vec![];
        for rec in name.name_record().iter().take(8) {
            out.push((rec.platform_id(), rec.encoding_id(), rec.string_offset().to_u32() as u16, rec.length(), rec.string(sd)));
        }
        for rec in name.lang_tag_record().iter().flat_map(|t| t.iter()).take(4) {
            // `lang_tag` always decodes UTF-16BE = what platform 0 selects
            out.push((0, 0, rec.lang_tag_offset().to_u32() as u16, rec.length(), rec.lang_tag(sd)));
        }
        (storage, name.storage_offset(), out)
    });
    match r {
        Err(m) => ctx.oracle("no-panic", false, || format!("name strings {}", hex(bytes)), || m.clone()),
        Ok((storage, so, recs)) => {
            ctx.oracle("no-panic", true, String::new, String::new);
            ctx.oracle("name.storage-in-data", storage.len() <= bytes.len(), || hex(bytes), || format!("{} storage bytes", storage.len()));
            ctx.count(if so as usize > bytes.len() { "name.sdata.offset-past-end" } else { "name.sdata.inside" });
            ctx.case(format!("ht.sdata {} {}", bytes.len(), so), storage.len().to_string());
            for (pid, eid, off, len, r) in recs {
                name_string_case(ctx, bytes, &storage, pid, eid, off, len, r);
            }
        }
    }
}

// ------------------------------------------------------------------------------------------------
// post

#[derive(Clone, Default)]
struct PostSpec {
    version: u32,
    num_glyphs: u16,
    idx: Vec<u16>,
    strings: Vec<(u8, Vec<u8>)>,
    tail: Vec<u8>,
}

fn post_bytes(s: &PostSpec) -> B {
    let mut b = B::new();
    b.f32(s.version).u32(0xFFF4_0000).i16(-100).i16(50).u32(0).u32(0).u32(0).u32(0).u32(0);
    if s.version >> 16 == 2 {
        b.f16(s.num_glyphs);
        for i in &s.idx {
            b.f16(*i);
        }
        for (l, p) in &s.strings {
            b.f8(*l).bytes(p);
        }
    }
    b.bytes(&s.tail);
    b
}

fn be16(b: &[u8], p: usize) -> Option<u16> {
    Some(u16::from_be_bytes([*b.get(p)?, *b.get(p + 1)?]))
}

fn post_gids(b: &[u8]) -> Vec<u16> {
    let n = be16(b, 32).unwrap_or(0) as u32;
    let mut g = edge16(&[n, 257, 258, 259]);
    g.retain(|x| *x < 12 || (*x as u32).abs_diff(n) <= 1 || [257, 258, 259, 0x7FFF, 0xFFFF].contains(x));
    g.extend(0..n.min(10) as u16);
    g.sort();
    g.dedup();
    g
}

fn case_post(ctx: &mut Ctx, bytes: &[u8]) {
    let mut stats: Vec<&'static str> = vec![];
    let mut bad_name = None;
    ask(ctx, "Post::glyph_name", bytes, || {
        let gids = post_gids(bytes);
        let req = format!("ht.post {} | {}", hex(bytes), join(&gids));
        let post = match Post::read(FontData::new(bytes)) {
            Ok(p) => p,
            Err(_) => {
                stats.push("post.read-err");
                return Some((req, "err".into()));
            }
        };
        let lo = bytes.as_ptr() as usize;
        let hi = lo + bytes.len();
        let mut resp = vec![post.num_names().to_string()];
        for g in &gids {
            resp.push(match post.glyph_name(GlyphId16::new(*g)) {
                None => {
                    stats.push("post.name.none");
                    "n".into()
                }
                Some(s) => {
                    let p = s.as_ptr() as usize;
                    if let Some(i) = DEFAULT_GLYPH_NAMES.iter().position(|d| d.as_ptr() == s.as_ptr() && d.len() == s.len()) {
                        stats.push("post.name.standard");
                        format!("s{i}")
                    } else {
                        // a custom name is a slice of the table's own bytes
                        if !(lo <= p && p + s.len() <= hi) && bad_name.is_none() {
                            bad_name = Some(*g);
                        }
                        stats.push("post.name.custom");
                        format!("x{}", hex(s.as_bytes()))
                    }
                }
            });
        }
        Some((req, resp.join(" ")))
    });
    ctx.oracle("post.name-inside-table", bad_name.is_none(), || format!("Post::glyph_name {}", hex(bytes)), || format!("glyph {bad_name:?}: the name is neither a standard name nor a slice of the table"));
    for s in stats {
        ctx.count(s);
    }
}

fn case_pstr(ctx: &mut Ctx, bytes: &[u8]) {
    let mut stat = "";
    ask(ctx, "PString::read", bytes, || {
        let r = match PString::read(FontData::new(bytes)) {
            Ok(s) => {
                stat = "pstr.ok";
                format!("x{}", hex(s.as_str().as_bytes()))
            }
            Err(ReadError::OutOfBounds) => {
                stat = "pstr.oob";
                "eO".into()
            }
            Err(ReadError::MalformedData(_)) => {
                stat = "pstr.malformed";
                "eM".into()
            }
            Err(e) => format!("unexpected {e:?}"),
        };
        Some((format!("ht.pstr {}", hex(bytes)), r))
    });
    ctx.count(stat);
}

// ------------------------------------------------------------------------------------------------

pub fn run(ctx: &mut Ctx) {
    let k = if ctx.thorough { 5 } else { 1 };

    // ---- cmap format 4
    for _ in 0..10 * k {
        let b = gen_cmap4(&mut ctx.rng);
        for v in vars(&b, 400) {
            case4(ctx, &v);
        }
        ctx.count("gen.cmap4");
    }
    // idRangeOffset arithmetic at the glyph array ends
    for n in 1..=2usize {
        for g in 0..=2usize {
            for i in 0..n {
                for ro in 0..=(2 * (n - i) + 2 * g + 3) as u16 {
                    let mut segs: Vec<Seg> = (0..n).map(|k| Seg { start: 10 * k as u16, end: 10 * k as u16 + 2, delta: 0, ro: 0 }).collect();
                    segs[i].ro = ro;
                    segs[i].delta = -7;
                    let gids: Vec<u16> = (0..g as u16).map(|k| 100 + k).collect();
                    case4(ctx, &cmap4_bytes(&segs, &gids, None).v);
                }
            }
        }
    }
    // many segments (depth of the search), sorted and not
    for round in 0..6 * k {
        let n = [7usize, 8, 15, 16, 31, 33][round % 6];
        let mut segs: Vec<Seg> = (0..n).map(|i| Seg { start: (20 * i) as u16, end: (20 * i + ctx.rng.below(19) as usize) as u16, delta: i as i16, ro: 0 }).collect();
        if round >= 6 {
            let a = ctx.rng.below(n as u64) as usize;
            let c = ctx.rng.below(n as u64) as usize;
            segs.swap(a, c);
        }
        case4(ctx, &cmap4_bytes(&segs, &[], None).v);
        ctx.count("gen.cmap4.deep");
    }

    // ---- cmap format 12
    for _ in 0..14 * k {
        let g = gen_groups(&mut ctx.rng);
        let ng = match ctx.rng.below(8) {
            0 => Some(g.len() as u32 + 1),
            1 => Some((g.len() as u32).saturating_sub(1)),
            _ => None,
        };
        let b = cmap12_bytes(12, &g, ng);
        for v in vars(&b, 400) {
            case12(ctx, &v);
        }
        ctx.count("gen.cmap12");
    }
    for round in 0..6 * k {
        let n = [7usize, 8, 15, 16, 31, 33][round % 6];
        let mut groups: Vec<(u32, u32, u32)> = (0..n).map(|i| (1000 * i as u32, 1000 * i as u32 + ctx.rng.below(999) as u32, 7 * i as u32)).collect();
        if round >= 6 {
            let a = ctx.rng.below(n as u64) as usize;
            let c = ctx.rng.below(n as u64) as usize;
            groups.swap(a, c);
        }
        case12(ctx, &cmap12_bytes(12, &groups, None).v);
        ctx.count("gen.cmap12.deep");
    }

    // ---- cmap format 14
    for round in 0..14 * k {
        let sels = gen_sels(&mut ctx.rng);
        let b = cmap14_bytes(&mut ctx.rng, &sels, round % 3 == 0);
        for v in vars(&b, 160) {
            cases14(ctx, &v);
        }
        ctx.count("gen.cmap14");
    }
    // default UVS ranges: additional counts for starts around the u24 / Unicode ends
    for start in [0u32, 0x10FFFF, 0xFFFF00, 0xFFFFFE, 0xFFFFFF] {
        for add in [0u8, 1, 0x7F, 0xFE, 0xFF] {
            let sels = vec![Sel { selector: 0xFE00, default: Some(vec![(start, add), (start, add)]), non_default: Some(vec![(start, 7)]) }];
            let b = cmap14_bytes(&mut ctx.rng, &sels, false);
            cases14(ctx, &b.v);
        }
    }
    // many selector records sharing one big default UVS table
    {
        let mut b = B::new();
        let n = 12u32;
        b.u16(14).u32(0).u32(n);
        for i in 0..n {
            b.u24(0xFE00 + i).u32(10 + 11 * n).u32(0);
        }
        b.u32(16);
        for i in 0..16u32 {
            b.u24(0x1000 * i).u8(0xFF);
        }
        cases14(ctx, &b.v);
    }

    // ---- whole cmap tables
    for _ in 0..12 * k {
        let mut tables: Vec<B> = vec![];
        for _ in 0..1 + ctx.rng.below(3) {
            let t = match ctx.rng.below(7) {
                0 | 1 => gen_cmap4(&mut ctx.rng),
                2 | 3 => {
                    let g = gen_groups(&mut ctx.rng);
                    cmap12_bytes(12, &g, None)
                }
                4 | 5 => {
                    let s = gen_sels(&mut ctx.rng);
                    cmap14_bytes(&mut ctx.rng, &s, false)
                }
                _ => {
                    let f = *ctx.rng.pick(&[0u16, 6, 10, 13]);
                    other_subtable(&mut ctx.rng, f)
                }
            };
            tables.push(t);
        }
        let n_rec = 1 + ctx.rng.below(4) as usize;
        let subs: Vec<(u16, u16, usize)> = (0..n_rec).map(|_| (*ctx.rng.pick(&[0u16, 1, 3, 4]), *ctx.rng.pick(&[0u16, 1, 3, 4, 5, 10]), ctx.rng.below(tables.len() as u64 + 1) as usize)).collect();
        let mut b = cmap_table(&subs, &tables);
        for r in 0..n_rec {
            b.mark(4 + 8 * r + 4, 4);
        }
        for v in vars(&b, 120) {
            case_cmap(ctx, &v);
        }
        ctx.count("gen.cmap");
    }

    // ---- name: static tables
    {
        let all: Vec<u32> = (0..256).collect();
        ask(ctx, "MacRomanMapping::decode(0..=255)", &[], || {
            let resp: Vec<String> = all.iter().map(|b| (MacRomanMapping.decode(*b as u8) as u32).to_string()).collect();
            Some((format!("ht.macdec {}", join(&all)), join(&resp)))
        });
        // `decode` may be what panics: the arguments of `encode` come from the reference table of misc.rs' ROMAN.TXT copy
        let decoded: Vec<u32> = catch(|| (0..256u32).map(|b| MacRomanMapping.decode(b as u8) as u32).collect()).unwrap_or_default();
        let mut cs: Vec<u32> = vec![0, 0x7F, 0x80, 0x9F, 0xA0, 0xA4, 0xFF, 0x100, 0xFFFF, 0x10000, 0x10FFFF, 0xF8FF, 0xFB02, 0xFB03, 0xD7FF, 0xE000];
        cs.extend(decoded.iter().copied());
        cs.extend(decoded.iter().flat_map(|c| [c.wrapping_sub(1), c + 1]));
        cs.extend((0..40 * k).map(|_| ctx.rng.below(0x2800) as u32));
        cs.retain(|c| char::from_u32(*c).is_some());
        cs.sort();
        cs.dedup();
        for chunk in cs.chunks(64) {
            let mut some = 0u64;
            ask(ctx, &format!("MacRomanMapping::encode {}", join(chunk)), &[], || {
                let resp: Vec<String> = chunk
                    .iter()
                    .map(|c| match MacRomanMapping.encode(char::from_u32(*c).unwrap()) {
                        Some(b) => {
                            some += 1;
                            b.to_string()
                        }
                        None => "n".into(),
                    })
                    .collect();
                Some((format!("ht.macenc {}", join(chunk)), join(&resp)))
            });
            ctx.count_n("macenc.some", some);
            ctx.count_n("macenc.none", chunk.len() as u64 - some);
        }
        for p in (0..6u16).chain([0x7FFF, 0xFFFF]) {
            for e in (0..12u16).chain([0x7FFF, 0xFFFF]) {
                ctx.case(format!("ht.enc {p} {e}"), enc_char(Encoding::new(p, e)).to_string());
            }
        }
    }
    // ---- name tables
    for round in 0..14 * k {
        let version = match round % 5 {
            0 | 1 => 0,
            2 | 3 => 1,
            _ => *ctx.rng.pick(&[2u16, 0xFFFF, 0x100]),
        };
        let slen = match ctx.rng.below(5) {
            0 => 0,
            1 => 1,
            _ => 2 + ctx.rng.below(24) as usize,
        };
        let mut storage = utf16_payload(&mut ctx.rng, slen / 2);
        if slen % 2 == 1 {
            storage.push(ctx.rng.next() as u8);
        }
        let n = ctx.rng.below(5) as usize;
        let slen16 = storage.len() as u16;
        let span = |rng: &mut Rng| -> (u16, u16) {
            match rng.below(9) {
                0 => (slen16, 0),
                1 => (1, slen16),
                2 => (slen16, slen16.saturating_sub(slen16 / 2)),
                3 => (0xFFFF, 0xFFFF),
                4 => (1, 0xFFFF),
                5 => (0, slen16 + 1),
                6 => (slen16, rng.below(3) as u16),
                _ => {
                    let off = rng.below(slen16 as u64 + 1) as u16;
                    let len = rng.below((slen16 - off) as u64 + 1) as u16;
                    (len, off)
                }
            }
        };
        let recs: Vec<NameRec> = (0..n)
            .map(|_| {
                let (pid, eid) = *ctx.rng.pick(&PAIRS);
                let (len, off) = span(&mut ctx.rng);
                NameRec { pid, eid, len, off }
            })
            .collect();
        let langs: Vec<(u16, u16)> = (0..ctx.rng.below(3)).map(|_| span(&mut ctx.rng)).collect();
        let so = match ctx.rng.below(8) {
            0 => Some(0),
            1 => Some(0xFFFF),
            2 => Some(6),
            _ => None,
        };
        let mut b = name_bytes(version, &recs, &langs, &storage, so);
        match ctx.rng.below(8) {
            0 => {
                let l = b.len() as u16;
                b.set16(4, l)
            }
            1 => {
                let l = b.len() as u16 + 1;
                b.set16(4, l)
            }
            _ => {}
        }
        for v in vars(&b, 200) {
            case_name(ctx, &v);
        }
        ctx.count("gen.name");
    }
    // CharIter on payloads from the surrogate boundary set (+ an odd trailing byte), every single byte
    {
        const UNITS: [u16; 9] = [0x41, 0xD7FF, 0xD800, 0xDBFF, 0xDC00, 0xDFFF, 0xE000, 0xFFFD, 0xFFFF];
        let mut payloads: Vec<Vec<u8>> = vec![vec![]];
        for b in 0..=255u8 {
            payloads.push(vec![b]);
        }
        for a in UNITS {
            let mut s1 = a.to_be_bytes().to_vec();
            payloads.push(s1.clone());
            s1.push(0xD8);
            payloads.push(s1);
            for b in UNITS {
                let mut s2 = [a.to_be_bytes(), b.to_be_bytes()].concat();
                payloads.push(s2.clone());
                s2.push(0xDB);
                payloads.push(s2);
            }
        }
        for a in [0xD800u16, 0xDBFF, 0xDC00, 0x41] {
            for b in [0xD800u16, 0xDC00, 0xDFFF, 0x41] {
                for c in [0xDBFFu16, 0xDC00, 0x41] {
                    payloads.push([a.to_be_bytes(), b.to_be_bytes(), c.to_be_bytes()].concat());
                }
            }
        }
        for _ in 0..60 * k {
            let n = ctx.rng.below(9) as usize;
            let mut p = utf16_payload(&mut ctx.rng, n);
            if ctx.rng.chance(1, 3) {
                p.push(ctx.rng.next() as u8);
            }
            payloads.push(p);
        }
        for (k, p) in payloads.iter().enumerate() {
            let classes: &[(u16, u16)] = if k % 16 == 0 { &PAIRS } else if p.len() == 1 { &[(1, 0), (3, 1), (2, 0)] } else { &[(0, 3), (3, 10), (1, 0), (3, 2)] };
            let recs: Vec<NameRec> = classes.iter().map(|(pid, eid)| NameRec { pid: *pid, eid: *eid, len: p.len() as u16, off: 0 }).collect();
            let b = name_bytes(1, &recs, &[(p.len() as u16, 0)], p, None);
            case_name(ctx, &b.v);
        }
        ctx.count_n("gen.chariter-payloads", payloads.len() as u64);
    }

    // ---- post
    const VERSIONS: [u32; 9] = [0x0001_0000, 0x0002_0000, 0x0002_5000, 0x0003_0000, 0x0004_0000, 0x0002_0001, 0x0001_FFFF, 0, 0xFFFF_FFFF];
    for round in 0..18 * k {
        let version = if round % 3 != 0 { 0x0002_0000 } else { VERSIONS[(round / 3) % VERSIONS.len()] };
        let nstr = ctx.rng.below(5) as usize;
        let mut strings: Vec<(u8, Vec<u8>)> = vec![];
        for _ in 0..nstr {
            let l = match ctx.rng.below(6) {
                0 => 0,
                1 => 1,
                _ => ctx.rng.below(9) as usize,
            };
            let mut p: Vec<u8> = (0..l).map(|_| b'a' + ctx.rng.below(26) as u8).collect();
            if l > 0 && ctx.rng.chance(1, 5) {
                let k = ctx.rng.below(l as u64) as usize;
                p[k] = *ctx.rng.pick(&[0x80u8, 0xFF, 0xC3, 0x7F, 0]);
            }
            strings.push((l as u8, p));
        }
        match ctx.rng.below(5) {
            0 if nstr > 0 => strings[nstr - 1].0 = strings[nstr - 1].0.wrapping_add(1 + ctx.rng.below(3) as u8),
            1 if nstr > 0 => strings[nstr - 1] = (0xFF, vec![b'x'; ctx.rng.below(3) as usize]),
            2 => strings.push((ctx.rng.next() as u8, vec![])),
            _ => {}
        }
        let ng = ctx.rng.below(8) as usize;
        let idx: Vec<u16> = (0..ng)
            .map(|_| match ctx.rng.below(8) {
                0 => ctx.rng.below(258) as u16,
                1 => 257,
                2 => 258,
                3 => 258 + nstr as u16,
                4 => (257 + nstr as u16).max(258),
                5 => 259 + nstr as u16,
                6 => 0xFFFF,
                _ => 258 + ctx.rng.below(nstr as u64 + 1) as u16,
            })
            .collect();
        let num_glyphs = match ctx.rng.below(6) {
            0 => ng as u16 + 1,
            1 => (ng as u16).saturating_sub(1),
            _ => ng as u16,
        };
        let spec = PostSpec { version, num_glyphs, idx, strings, tail: if ctx.rng.chance(1, 4) { rbytes(&mut ctx.rng, 4) } else { vec![] } };
        let b = post_bytes(&spec);
        for v in vars(&b, 200) {
            case_post(ctx, &v);
        }
        ctx.count(&format!("gen.post.version{:08x}", version));
    }
    // pascal strings: length bytes × payload sizes around them, as string 0 and 1, and on their own
    for l in (0..=255u8).filter(|l| *l < 6 || *l > 250 || [0x7F, 0x80, 0x81].contains(l)) {
        for have in [0usize, 1, (l as usize).saturating_sub(1), l as usize, l as usize + 1] {
            for hi in [false, true] {
                let mut p = vec![b'q'; have];
                if hi && have > 0 {
                    p[have - 1] = 0x80;
                }
                let spec = PostSpec { version: 0x0002_0000, num_glyphs: 3, idx: vec![258, 259, 260], strings: vec![(1, vec![b'z']), (l, p.clone())], tail: vec![] };
                case_post(ctx, &post_bytes(&spec).v);
                let mut own = vec![l];
                own.extend(&p);
                case_pstr(ctx, &own);
            }
        }
    }
    for _ in 0..80 * k {
        let mut v = rbytes(&mut ctx.rng, 12);
        if !v.is_empty() && ctx.rng.chance(2, 3) {
            v[0] = ctx.rng.below(v.len() as u64 + 2) as u8;
        }
        if ctx.rng.chance(1, 2) {
            for x in v.iter_mut().skip(1) {
                *x &= 0x7F;
            }
        }
        case_pstr(ctx, &v);
    }
    // version 1.0: every standard name index around the table end
    {
        let b = post_bytes(&PostSpec { version: 0x0001_0000, ..Default::default() });
        case_post(ctx, &b.v);
    }
    // random tails behind a version 2.0 header
    for _ in 0..60 * k {
        let mut v = post_bytes(&PostSpec { version: 0x0002_0000, ..Default::default() }).v;
        v.truncate(32);
        let n = ctx.rng.below(4) as u16;
        v.extend_from_slice(&n.to_be_bytes());
        for _ in 0..n {
            let i = 256 + ctx.rng.below(8) as u16;
            v.extend_from_slice(&i.to_be_bytes());
        }
        let mut t = rbytes(&mut ctx.rng, 14);
        for x in t.iter_mut() {
            if ctx.rng.chance(1, 2) {
                *x &= 3;
            }
        }
        v.extend(t);
        case_post(ctx, &v);
    }
}
