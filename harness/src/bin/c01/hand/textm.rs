//! group `text.model` — correspondence of the real hand-written functions of
//! name.rs / post.rs / cmap.rs (NameString / CharIter / MacRoman, Post::glyph_name / PString, cmap formats 0/2/6/10/13/14 lookups and iterators)
//! with Model/HandText.lean (`ht.*` driver commands), on generator-based inputs with truncations and
//! boundary fields; plus the group's own byte-level oracles.
use super::*;

pub fn run(_ctx: &mut Ctx) {}
