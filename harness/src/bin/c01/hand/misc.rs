//! Hand-written code of the "small" tables: `post.rs` (`Post::{glyph_name,num_names}`, `PString`,
//! `DEFAULT_GLYPH_NAMES`), `array.rs` (`VarLenArray::{get,iter}`, `ComputedArray::{get,iter,len}`),
//! `name.rs` (`NameRecord::string`, `LangTagRecord::lang_tag`, `NameString`, `CharIter`, `Encoding`,
//! `MacRomanMapping`), `meta.rs`, `hdmx.rs`, `hmtx.rs`/`vmtx.rs`, `vorg.rs`, `svg.rs`, `stat.rs`,
//! `base.rs`, `cpal.rs`, `os2.rs`/`head.rs`/`hhea.rs`/`maxp.rs`/`gasp.rs`, `offset_array.rs`
//! (`ArrayOfOffsets`/`ArrayOfNullableOffsets::{get,iter,len}`), `offset.rs`, `table_ref.rs`,
//! `tables.rs::compute_checksum`, `table_provider.rs` (through `FontRef`).
//!
//! Besides the generic oracles (no-panic / iter-bounded / time-bounded / pure) every lookup has a
//! small independent model (`hand.<group>.model`): linear search instead of binary search, plain
//! index arithmetic in u64, evaluated on the generated base, its prefixes and its field variants.
use super::*;
use font_types::{GlyphId, GlyphId16, Tag};
use read_fonts::tables::name::{Encoding, MacRomanMapping, Name, NameString};
use read_fonts::tables::post::{PString, Post, DEFAULT_GLYPH_NAMES};
use read_fonts::{FontData, FontRead, FontRef, TableProvider};

// ------------------------------------------------------------------------------------------------
// shared helpers

fn be16(b: &[u8], p: usize) -> Option<u16> {
    Some(u16::from_be_bytes([*b.get(p)?, *b.get(p.checked_add(1)?)?]))
}

fn be32(b: &[u8], p: usize) -> Option<u32> {
    Some(((be16(b, p)? as u32) << 16) | be16(b, p.checked_add(2)?)? as u32)
}

/// the variants of a generated input on which the relational checks are evaluated: the base, every
/// prefix (at most 300) and each field at its boundary values
pub fn variants(b: &B) -> Vec<Vec<u8>> {
    let n = b.v.len();
    let mut out = vec![b.v.clone()];
    for c in 0..n.min(300) {
        out.push(b.v[..c].to_vec());
    }
    for (p, w) in &b.fields {
        let w = *w as usize;
        if p + w > n {
            continue;
        }
        let max: u64 = (1u64 << (8 * w)) - 1;
        let mut cur = 0u64;
        for k in 0..w {
            cur = (cur << 8) | b.v[p + k] as u64;
        }
        let rest = (n - p) as u64;
        for v in [0u64, 1, 2, max, max - 1, max / 2, max / 2 + 1, cur.wrapping_add(1), cur.wrapping_sub(1), cur.wrapping_mul(2), n as u64, n as u64 + 1, (n as u64).wrapping_sub(1), rest, rest + 1, rest.wrapping_sub(1)] {
            let v = v & max;
            if v == cur {
                continue;
            }
            let mut m = b.v.clone();
            for k in 0..w {
                m[p + k] = (v >> (8 * (w - 1 - k))) as u8;
            }
            out.push(m);
        }
    }
    out
}

/// relational oracle `name`: `check` returns a description of the first disagreement between the
/// real code and the independent model on these bytes
pub fn rel(ctx: &mut Ctx, name: &str, what: &str, b: &B, check: &dyn Fn(&[u8]) -> Option<String>) {
    for inp in variants(b) {
        rel1(ctx, name, what, &inp, check);
    }
}

pub fn rel1(ctx: &mut Ctx, name: &str, what: &str, inp: &[u8], check: &dyn Fn(&[u8]) -> Option<String>) {
    PROGRESS.fetch_add(1, Ordering::Relaxed);
    match catch(|| check(inp)) {
        Ok(None) => ctx.oracle(name, true, String::new, String::new),
        Ok(Some(d)) => ctx.oracle(name, false, || format!("{what} {}", hex(inp)), || d.clone()),
        Err(m) => ctx.oracle("no-panic", false, || format!("{what} {}", hex(inp)), || format!("panicked: {m}")),
    }
}

fn scale(ctx: &Ctx, quick: usize) -> usize {
    if ctx.thorough {
        quick * 24
    } else {
        quick * 4
    }
}

// ------------------------------------------------------------------------------------------------
// post

#[derive(Clone, Default)]
struct PostSpec {
    version: u32,
    num_glyphs: u16,
    idx: Vec<u16>,
    /// (length byte, payload) — the length byte may lie
    strings: Vec<(u8, Vec<u8>)>,
    tail: Vec<u8>,
}

fn post_bytes(s: &PostSpec) -> B {
    let mut b = B::new();
    b.f32(s.version).u32(0xFFF4_0000).i16(-100).i16(50).u32(0).u32(0).u32(0).u32(0).u32(0);
    if s.version >> 16 == 2 {
        b.f16(s.num_glyphs);
        for i in &s.idx {
            b.f16(*i);
        }
        for (l, p) in &s.strings {
            b.f8(*l).bytes(p);
        }
    }
    b.bytes(&s.tail);
    b
}

/// model of `Post::read` + `glyph_name`: `Err(())` = the table is not readable
fn post_model(b: &[u8], gid: u16) -> Result<Option<String>, ()> {
    if b.len() < 32 {
        return Err(());
    }
    let version = be32(b, 0).unwrap();
    let mut sdata: &[u8] = &[];
    let mut n = 0usize;
    if version >> 16 == 2 {
        n = be16(b, 32).ok_or(())? as usize;
        if 34 + 2 * n > b.len() {
            return Err(());
        }
        sdata = &b[34 + 2 * n..];
    }
    Ok(match version {
        0x0001_0000 => DEFAULT_GLYPH_NAMES.get(gid as usize).map(|s| s.to_string()),
        0x0002_0000 => (|| {
            if gid as usize >= n {
                return None;
            }
            let idx = be16(b, 34 + 2 * gid as usize)? as usize;
            if idx < 258 {
                return Some(DEFAULT_GLYPH_NAMES[idx].to_string());
            }
            let mut pos = 0usize;
            for _ in 0..idx - 258 {
                pos += 1 + *sdata.get(pos)? as usize;
            }
            let l = *sdata.get(pos)? as usize;
            let s = sdata.get(pos + 1..pos + 1 + l)?;
            if !s.is_ascii() {
                return None;
            }
            Some(String::from_utf8(s.to_vec()).unwrap())
        })(),
        _ => None,
    })
}

fn post_gids(b: &[u8]) -> Vec<u16> {
    let n = be16(b, 32).unwrap_or(0) as u32;
    let mut g = edge16(&[n, 257, 258, 259]);
    g.extend(0..n.min(40) as u16);
    g
}

fn post_check(b: &[u8]) -> Option<String> {
    let r = Post::read(FontData::new(b));
    for g in post_gids(b) {
        let m = post_model(b, g);
        match (&r, &m) {
            (Err(_), Err(())) => return None,
            (Ok(p), Ok(m)) => {
                let got = p.glyph_name(GlyphId16::new(g)).map(|s| s.to_string());
                if got != *m {
                    return Some(format!("glyph_name({g}) = {got:?}, model {m:?}"));
                }
            }
            _ => return Some(format!("Post::read ok={} but model readable={}", r.is_ok(), m.is_ok())),
        }
    }
    None
}

fn post_walk(bytes: &[u8], o: &mut Obs) {
    let len = bytes.len();
    // PString on its own (FontRead is public)
    let ps = PString::read(FontData::new(bytes));
    if o.res(&ps) {
        let s = ps.unwrap();
        o.note_str(s.as_str());
        o.note(s.len() as u64);
        o.note((s == "A") as u64);
    }
    let r = Post::read(FontData::new(bytes));
    if !o.res(&r) {
        return;
    }
    let post = r.unwrap();
    o.note(post.version().to_major_minor().0 as u64);
    o.note(post.num_names() as u64);
    o.note(post.num_glyphs().map(|v| v as u64 + 1).unwrap_or(0));
    o.note(post.glyph_name_index().map(|v| v.len() as u64 + 1).unwrap_or(0));
    for g in post_gids(bytes) {
        match post.glyph_name(GlyphId16::new(g)) {
            Some(s) => o.note_str(s),
            None => o.note(0),
        }
    }
    if let Some(sd) = post.string_data() {
        // every item takes at least its length byte
        let n = o.drain("post.string_data.iter", len + 1, sd.iter(), |o, r| match r {
            Ok(s) => o.note_str(s.as_str()),
            Err(e) => o.note_str(&format!("{e:?}")),
        });
        if o.over.is_some() {
            return; // runaway iterator: `get` walks the same items
        }
        let mut ids = edge_usize(&[n, len]);
        ids.extend(0..n.min(8));
        for i in ids {
            match sd.get(i) {
                None => o.note(0),
                Some(Ok(s)) => o.note_str(s.as_str()),
                Some(Err(e)) => o.note_str(&format!("{e:?}")),
            }
        }
    }
    if len <= 400 {
        // traversal (`traverse_string_data`)
        o.note(format!("{post:?}").len() as u64);
    }
}

pub fn run_post(ctx: &mut Ctx) {
    const VERSIONS: [u32; 9] = [0x0001_0000, 0x0002_0000, 0x0002_5000, 0x0003_0000, 0x0004_0000, 0x0002_0001, 0x0001_FFFF, 0, 0xFFFF_FFFF];
    for round in 0..scale(ctx, 60) {
        let version = if round % 3 != 0 { 0x0002_0000 } else { VERSIONS[(round / 3) % VERSIONS.len()] };
        let nstr = ctx.rng.below(5) as usize;
        let mut strings: Vec<(u8, Vec<u8>)> = vec![];
        for _ in 0..nstr {
            let l = match ctx.rng.below(6) {
                0 => 0,
                1 => 1,
                _ => ctx.rng.below(9) as usize,
            };
            let mut p: Vec<u8> = (0..l).map(|_| b'a' + ctx.rng.below(26) as u8).collect();
            if l > 0 && ctx.rng.chance(1, 5) {
                let k = ctx.rng.below(l as u64) as usize;
                p[k] = *ctx.rng.pick(&[0x80u8, 0xFF, 0xC3, 0x7F, 0]);
            }
            strings.push((l as u8, p));
        }
        match ctx.rng.below(5) {
            // the last length byte runs past the data / is the last byte of the table
            0 if nstr > 0 => strings[nstr - 1].0 = strings[nstr - 1].0.wrapping_add(1 + ctx.rng.below(3) as u8),
            1 if nstr > 0 => strings[nstr - 1] = (0xFF, vec![b'x'; ctx.rng.below(3) as usize]),
            2 => strings.push((ctx.rng.next() as u8, vec![])),
            _ => {}
        }
        let ng = ctx.rng.below(8) as usize;
        let idx: Vec<u16> = (0..ng)
            .map(|_| match ctx.rng.below(8) {
                0 => ctx.rng.below(258) as u16,
                1 => 257,
                2 => 258,
                3 => 258 + nstr as u16,
                4 => (257 + nstr as u16).max(258),
                5 => 259 + nstr as u16,
                6 => 0xFFFF,
                _ => 258 + ctx.rng.below(nstr as u64 + 1) as u16,
            })
            .collect();
        let num_glyphs = match ctx.rng.below(6) {
            0 => ng as u16 + 1,
            1 => (ng as u16).saturating_sub(1),
            _ => ng as u16,
        };
        let spec = PostSpec { version, num_glyphs, idx, strings, tail: if ctx.rng.chance(1, 4) { rbytes(&mut ctx.rng, 4) } else { vec![] } };
        let b = post_bytes(&spec);
        ctx.drive("post", &b, &post_walk);
        rel(ctx, "model", "post", &b, &post_check);
        ctx.count(&format!("version{:08x}", version));
    }
    // pascal strings exhaustively: every length byte × payload sizes around it, as string 0 and 1
    for l in 0..=255u8 {
        for have in [0usize, 1, (l as usize).saturating_sub(1), l as usize, l as usize + 1] {
            for hi in [false, true] {
                let mut p = vec![b'q'; have];
                if hi && have > 0 {
                    p[have - 1] = 0x80;
                }
                let spec = PostSpec { version: 0x0002_0000, num_glyphs: 3, idx: vec![258, 259, 260], strings: vec![(1, vec![b'z']), (l, p)], tail: vec![] };
                let b = post_bytes(&spec);
                ctx.call("post", &b.v, &post_walk);
                rel1(ctx, "model", "post", &b.v, &post_check);
            }
        }
    }
    ctx.count("pstring-sweep");
    // version 1.0: the whole standard name table
    let b = post_bytes(&PostSpec { version: 0x0001_0000, ..Default::default() });
    ctx.call("post", &b.v, &|bytes: &[u8], o: &mut Obs| {
        if let Ok(p) = Post::read(FontData::new(bytes)) {
            for g in 0..=0xFFFFu16 {
                if let Some(s) = p.glyph_name(GlyphId16::new(g)) {
                    o.note_str(s);
                }
            }
        }
    });
    ctx.drive_random("post", scale(ctx, 1500), 64, &post_walk);
    // random tails behind a version 2.0 header
    for _ in 0..scale(ctx, 1500) {
        let mut v = post_bytes(&PostSpec { version: 0x0002_0000, ..Default::default() }).v;
        v.truncate(32);
        let n = ctx.rng.below(4) as u16;
        v.extend_from_slice(&n.to_be_bytes());
        for _ in 0..n {
            let i = 256 + ctx.rng.below(8) as u16;
            v.extend_from_slice(&i.to_be_bytes());
        }
        let mut t = rbytes(&mut ctx.rng, 14);
        for x in t.iter_mut() {
            if ctx.rng.chance(1, 2) {
                *x &= 3;
            }
        }
        v.extend(t);
        ctx.call("post", &v, &post_walk);
        rel1(ctx, "model", "post", &v, &post_check);
    }
}

// ------------------------------------------------------------------------------------------------
// name

#[derive(Clone, Copy)]
struct NameRec {
    pid: u16,
    eid: u16,
    len: u16,
    off: u16,
}

fn name_bytes(version: u16, recs: &[NameRec], langs: &[(u16, u16)], storage: &[u8], storage_offset: Option<u16>) -> B {
    let mut b = B::new();
    b.f16(version).f16(recs.len() as u16).f16(0);
    for (i, r) in recs.iter().enumerate() {
        b.f16(r.pid).f16(r.eid).u16(0x409).u16(i as u16).f16(r.len).f16(r.off);
    }
    if version >= 1 {
        b.f16(langs.len() as u16);
        for (l, o) in langs {
            b.f16(*l).f16(*o);
        }
    }
    let so = storage_offset.unwrap_or(b.len() as u16);
    b.set16(4, so);
    b.bytes(storage);
    b
}

#[derive(Clone, Copy, PartialEq, Debug)]
enum Enc {
    Utf16,
    Mac,
    Unknown,
}

fn enc_of(pid: u16, eid: u16) -> Enc {
    match (pid, eid) {
        (0, _) | (3, 0) | (3, 1) | (3, 10) => Enc::Utf16,
        (1, 0) => Enc::Mac,
        _ => Enc::Unknown,
    }
}

/// the Mac OS Roman upper half, from the Unicode consortium's ROMAN.TXT (independent of the table
/// in name.rs)
const MAC_ROMAN_HIGH: &str = "ÄÅÇÉÑÖÜáàâäãåçéèêëíìîïñóòôöõúùûü†°¢£§•¶ß®©™´¨≠ÆØ∞±≤≥¥µ∂∑∏π∫ªºΩæø¿¡¬√ƒ≈∆«»…\u{a0}ÀÃÕŒœ–—“”‘’÷◊ÿŸ⁄€‹›ﬁﬂ‡·‚„‰ÂÊÁËÈÍÎÏÌÓÔ\u{f8ff}ÒÚÛÙıˆ˜¯˘˙˚¸˝˛ˇ";

/// model of `CharIter`
fn chars_model(data: &[u8], enc: Enc) -> String {
    let mut out = String::new();
    match enc {
        Enc::Unknown => {}
        Enc::Mac => {
            let hi: Vec<char> = MAC_ROMAN_HIGH.chars().collect();
            for b in data {
                out.push(if *b < 128 { *b as char } else { hi[*b as usize - 128] });
            }
        }
        Enc::Utf16 => {
            let units: Vec<u32> = data.chunks_exact(2).map(|c| u16::from_be_bytes([c[0], c[1]]) as u32).collect();
            let mut i = 0;
            while i < units.len() {
                let c1 = units[i];
                i += 1;
                let raw = if (0xD800..0xDC00).contains(&c1) {
                    if i < units.len() {
                        let c2 = units[i];
                        i += 1;
                        ((c1 & 0x3FF) << 10) + (c2 & 0x3FF) + 0x10000
                    } else {
                        out.push('\u{FFFD}');
                        break;
                    }
                } else {
                    c1
                };
                out.push(char::from_u32(raw).unwrap_or('\u{FFFD}'));
            }
        }
    }
    out
}

fn name_string_walk(o: &mut Obs, s: NameString, enc: Enc, byte_len: usize) {
    let cap = match enc {
        Enc::Utf16 => byte_len / 2,
        Enc::Mac => byte_len,
        Enc::Unknown => 0,
    };
    let n = o.drain("NameString.chars", cap, s.chars(), |o, c| o.note(c as u64));
    if n > cap {
        return; // runaway iterator: Display would not return
    }
    o.drain("NameString.into_iter", cap, s.into_iter(), |o, c| o.note(c as u64));
    let mut it = s.chars();
    let first = it.next();
    let it2 = it.clone();
    o.note(first.map(|c| c as u64 + 1).unwrap_or(0));
    o.drain("CharIter.clone", cap, it2, |o, c| o.note(c as u64));
    o.note_str(&s.to_string());
    o.note(format!("{s:?}").len() as u64);
    o.note((s == s) as u64);
}

fn name_walk(bytes: &[u8], o: &mut Obs) {
    let r = Name::read(FontData::new(bytes));
    if !o.res(&r) {
        return;
    }
    let name = r.unwrap();
    let sd = name.string_data();
    o.note(sd.len() as u64);
    for rec in name.name_record().iter().take(48) {
        o.note(rec.is_unicode() as u64);
        let r = rec.string(sd);
        if o.res(&r) {
            name_string_walk(o, r.unwrap(), enc_of(rec.platform_id(), rec.encoding_id()), rec.length() as usize);
        }
    }
    if let Some(tags) = name.lang_tag_record() {
        for rec in tags.iter().take(48) {
            let r = rec.lang_tag(sd);
            if o.res(&r) {
                name_string_walk(o, r.unwrap(), Enc::Utf16, rec.length() as usize);
            }
        }
    }
    if bytes.len() <= 320 && o.over.is_none() {
        // traversal: `traverse_string`, `traverse_lang_tag`, `SomeString::iter_chars`
        o.note(format!("{name:?}").len() as u64);
    }
}

/// `string()` of every record against the model (bounds of the storage slice and decoded text)
fn name_check(b: &[u8]) -> Option<String> {
    let r = Name::read(FontData::new(b));
    let count = be16(b, 2).unwrap_or(0) as usize;
    let readable = (|| {
        let version = be16(b, 0)?;
        let mut end = 6 + 12 * count;
        if version >= 1 {
            let n = be16(b, end)? as usize;
            end += 2 + 4 * n;
        }
        (end <= b.len() && b.len() >= 6).then_some(())
    })()
    .is_some();
    if r.is_ok() != readable {
        return Some(format!("Name::read ok={} but model readable={}", r.is_ok(), readable));
    }
    let name = r.ok()?;
    let so = be16(b, 4).unwrap() as usize;
    let storage: &[u8] = b.get(so..).unwrap_or(&[]);
    if name.string_data().as_bytes() != storage {
        return Some(format!("string_data() has {} bytes, model {}", name.string_data().len(), storage.len()));
    }
    for (i, rec) in name.name_record().iter().enumerate().take(48) {
        let at = 6 + 12 * i;
        let (pid, eid, len, off) = (be16(b, at)?, be16(b, at + 2)?, be16(b, at + 8)? as usize, be16(b, at + 10)? as usize);
        let want = storage.get(off..off + len).map(|d| chars_model(d, enc_of(pid, eid)));
        let got = rec.string(name.string_data()).ok().map(|s| s.chars().take(len + 2).collect::<String>());
        if got != want {
            return Some(format!("record {i} ({pid},{eid}) off {off} len {len}: got {got:?}, model {want:?}"));
        }
        let uni = pid == 0 || (pid == 3 && (eid == 0 || eid == 1 || eid == 10));
        if rec.is_unicode() != uni {
            return Some(format!("record {i}: is_unicode {}", rec.is_unicode()));
        }
    }
    if let Some(tags) = name.lang_tag_record() {
        let base = 6 + 12 * count + 2;
        for (i, rec) in tags.iter().enumerate().take(48) {
            let (len, off) = (be16(b, base + 4 * i)? as usize, be16(b, base + 4 * i + 2)? as usize);
            let want = storage.get(off..off + len).map(|d| chars_model(d, Enc::Utf16));
            let got = rec.lang_tag(name.string_data()).ok().map(|s| s.chars().take(len + 2).collect::<String>());
            if got != want {
                return Some(format!("lang tag {i} off {off} len {len}: got {got:?}, model {want:?}"));
            }
        }
    }
    None
}

const PAIRS: [(u16, u16); 16] = [(0, 0), (0, 3), (0, 4), (0, 0xFFFF), (1, 0), (1, 1), (1, 0xFFFF), (2, 0), (2, 1), (3, 0), (3, 1), (3, 10), (3, 2), (3, 9), (4, 0), (0xFFFF, 0xFFFF)];

fn utf16_payload(rng: &mut Rng, n_units: usize) -> Vec<u8> {
    let mut v = vec![];
    for _ in 0..n_units {
        let u: u16 = match rng.below(8) {
            0 => 0xD800 + rng.below(0x400) as u16,
            1 => 0xDC00 + rng.below(0x400) as u16,
            2 => *rng.pick(&[0xD7FFu16, 0xD800, 0xDBFF, 0xDC00, 0xDFFF, 0xE000, 0xFFFE, 0xFFFF, 0]),
            _ => 0x20 + rng.below(0x60) as u16,
        };
        v.extend_from_slice(&u.to_be_bytes());
    }
    v
}

pub fn run_name(ctx: &mut Ctx) {
    // static tables: every Mac Roman byte, every (platform, encoding) of interest
    {
        PROGRESS.fetch_add(1, Ordering::Relaxed);
        let r = catch(|| {
            let hi: Vec<char> = MAC_ROMAN_HIGH.chars().collect();
            assert_eq!(hi.len(), 128);
            for b in 0..=255u8 {
                let c = MacRomanMapping.decode(b);
                let want = if b < 128 { b as char } else { hi[b as usize - 128] };
                if c != want {
                    return Some(format!("decode({b}) = {c:?}, ROMAN.TXT {want:?}"));
                }
                if MacRomanMapping.encode(c) != Some(b) {
                    return Some(format!("encode(decode({b})) = {:?}", MacRomanMapping.encode(c)));
                }
            }
            for c in ['\0', '\u{7f}', '\u{80}', '\u{9f}', '\u{a0}', '\u{a4}', '\u{ff}', '\u{100}', '\u{ffff}', '\u{10000}', '\u{10ffff}', '\u{f8ff}', '\u{fb02}', '\u{fb03}', '\u{d7ff}', '\u{e000}'] {
                let e = MacRomanMapping.encode(c);
                if let Some(b) = e {
                    if MacRomanMapping.decode(b) != c {
                        return Some(format!("decode(encode({c:?})) differs"));
                    }
                }
            }
            for c in (0..0x2700u32).chain(0xF000..0x11000).filter_map(char::from_u32) {
                let _ = MacRomanMapping.encode(c);
            }
            for p in (0..8u16).chain([0x7FFF, 0x8000, 0xFFFF]) {
                for e in (0..12u16).chain([0x7FFF, 0x8000, 0xFFFF]) {
                    let got = match Encoding::new(p, e) {
                        Encoding::Utf16Be => Enc::Utf16,
                        Encoding::MacRoman => Enc::Mac,
                        Encoding::Unknown => Enc::Unknown,
                    };
                    if got != enc_of(p, e) {
                        return Some(format!("Encoding::new({p},{e}) = {got:?}"));
                    }
                }
            }
            None
        });
        match r {
            Ok(d) => ctx.oracle("model", d.is_none(), || "MacRomanMapping / Encoding::new".into(), || d.clone().unwrap_or_default()),
            Err(m) => ctx.oracle("no-panic", false, || "MacRomanMapping / Encoding::new".into(), || m.clone()),
        }
    }
    for round in 0..scale(ctx, 50) {
        let version = match round % 5 {
            0 | 1 => 0,
            2 | 3 => 1,
            _ => *ctx.rng.pick(&[2u16, 0xFFFF, 0x100]),
        };
        let slen = match ctx.rng.below(5) {
            0 => 0,
            1 => 1,
            _ => 2 + ctx.rng.below(24) as usize,
        };
        let mut storage = utf16_payload(&mut ctx.rng, slen / 2);
        if slen % 2 == 1 {
            storage.push(ctx.rng.next() as u8);
        }
        let n = ctx.rng.below(6) as usize;
        let slen16 = storage.len() as u16;
        let span = |rng: &mut Rng| -> (u16, u16) {
            match rng.below(9) {
                0 => (slen16, 0),                    // empty string at the end
                1 => (1, slen16),                    // one past the end
                2 => (slen16, slen16.saturating_sub(slen16 / 2)), // ends one... past the end
                3 => (0xFFFF, 0xFFFF),               // u16 sum overflow
                4 => (1, 0xFFFF),
                5 => (0, slen16 + 1),
                6 => (slen16, rng.below(3) as u16),  // offset 0/1/2 = null offset
                _ => {
                    let off = rng.below(slen16 as u64 + 1) as u16;
                    let len = rng.below((slen16 - off) as u64 + 1) as u16;
                    (len, off)
                }
            }
        };
        let recs: Vec<NameRec> = (0..n)
            .map(|_| {
                let (pid, eid) = *ctx.rng.pick(&PAIRS);
                let (len, off) = span(&mut ctx.rng);
                NameRec { pid, eid, len, off }
            })
            .collect();
        let langs: Vec<(u16, u16)> = (0..ctx.rng.below(3)).map(|_| span(&mut ctx.rng)).collect();
        let so = match ctx.rng.below(8) {
            0 => Some(0),
            1 => Some(0xFFFF),
            2 => Some(6),
            _ => None,
        };
        let mut b = name_bytes(version, &recs, &langs, &storage, so);
        match ctx.rng.below(8) {
            // storage offset exactly at / one past the end of the table
            0 => {
                let l = b.len() as u16;
                b.set16(4, l)
            }
            1 => {
                let l = b.len() as u16 + 1;
                b.set16(4, l)
            }
            _ => {}
        }
        ctx.drive("name", &b, &name_walk);
        rel(ctx, "model", "name", &b, &name_check);
        ctx.count(&format!("version{}", version.min(2)));
    }
    // CharIter exhaustively: 1..3 UTF-16 units from the surrogate boundary set (+ an odd trailing
    // byte), every single byte, for every (platform, encoding) class
    const UNITS: [u16; 11] = [0, 0x41, 0xD7FF, 0xD800, 0xDBFF, 0xDC00, 0xDFFF, 0xE000, 0xFFFD, 0xFFFE, 0xFFFF];
    let mut payloads: Vec<Vec<u8>> = vec![vec![]];
    for b in 0..=255u8 {
        payloads.push(vec![b]);
    }
    for a in UNITS {
        let mut s1 = a.to_be_bytes().to_vec();
        payloads.push(s1.clone());
        s1.push(0xD8);
        payloads.push(s1);
        for b in UNITS {
            let mut s2 = [a.to_be_bytes(), b.to_be_bytes()].concat();
            payloads.push(s2.clone());
            s2.push(0xDB);
            payloads.push(s2);
            for c in UNITS {
                payloads.push([a.to_be_bytes(), b.to_be_bytes(), c.to_be_bytes()].concat());
            }
        }
    }
    for _ in 0..scale(ctx, 300) {
        let n = ctx.rng.below(9) as usize;
        let mut p = utf16_payload(&mut ctx.rng, n);
        if ctx.rng.chance(1, 3) {
            p.push(ctx.rng.next() as u8);
        }
        payloads.push(p);
    }
    for (k, p) in payloads.iter().enumerate() {
        let classes: &[(u16, u16)] = if p.len() == 1 || k % 16 == 0 { &PAIRS } else { &[(0, 3), (3, 1), (3, 10), (1, 0), (3, 2)] };
        let recs: Vec<NameRec> = classes.iter().map(|(pid, eid)| NameRec { pid: *pid, eid: *eid, len: p.len() as u16, off: 0 }).collect();
        let b = name_bytes(1, &recs, &[(p.len() as u16, 0)], p, None);
        ctx.call("name", &b.v, &name_walk);
        rel1(ctx, "model", "name", &b.v, &name_check);
    }
    ctx.count_n("chariter-payloads", payloads.len() as u64);
    ctx.drive_random("name", scale(ctx, 1500), 72, &name_walk);
    // random records in front of a fixed storage
    for _ in 0..scale(ctx, 800) {
        let n = 1 + ctx.rng.below(3) as usize;
        let recs: Vec<NameRec> = (0..n)
            .map(|_| {
                let (pid, eid) = *ctx.rng.pick(&PAIRS);
                NameRec { pid, eid, len: ctx.rng.below(12) as u16, off: ctx.rng.below(12) as u16 }
            })
            .collect();
        let st = utf16_payload(&mut ctx.rng, 4);
        let b = name_bytes(0, &recs, &[], &st, None);
        ctx.call("name", &b.v, &name_walk);
        rel1(ctx, "model", "name", &b.v, &name_check);
    }
}

// ------------------------------------------------------------------------------------------------
// misc: meta

use read_fonts::tables::meta::{Meta, Metadata};

fn meta_bytes(rng: &mut Rng) -> B {
    let n = rng.below(4) as usize;
    let mut b = B::new();
    b.u32(1).u32(0).u32(0).f32(n as u32);
    let recs_at = b.len();
    for _ in 0..n {
        let tag: &[u8; 4] = *rng.pick(&[b"dlng", b"slng", b"appl", b"bild"]);
        b.tag(tag).f32(0).f32(0);
    }
    for k in 0..n {
        let at = b.len();
        let data: Vec<u8> = match rng.below(7) {
            0 => vec![],
            1 => b",".to_vec(),
            2 => b"en-Latn, fr ,,de-Latn-DE,".to_vec(),
            3 => b" Zyyy ,\xFF\xFE, x".to_vec(),
            4 => b",,,,,,,,".to_vec(),
            5 => b"no-comma".to_vec(),
            _ => {
                let l = rng.below(12) as usize;
                (0..l).map(|_| *rng.pick(&[b',', b' ', b'a', b'-', 0xC3, 0xA9, b'Z'])).collect()
            }
        };
        let (off, len) = match rng.below(8) {
            0 => (at as u32, data.len() as u32 + 1),          // one beyond the table (last blob)
            1 => (at as u32 + data.len() as u32, 0),          // empty at the end
            2 => (at as u32 + data.len() as u32 + 1, 0),      // one past the end
            3 => (0, data.len() as u32),                      // null offset
            4 => (at as u32, u32::MAX),
            _ => (at as u32, data.len() as u32),
        };
        b.set32(recs_at + 12 * k + 4, off);
        b.set32(recs_at + 12 * k + 8, len);
        b.bytes(&data);
    }
    b
}

fn meta_walk(bytes: &[u8], o: &mut Obs) {
    let len = bytes.len();
    let r = Meta::read(FontData::new(bytes));
    if !o.res(&r) {
        return;
    }
    let meta = r.unwrap();
    o.note(meta.data_maps_count() as u64);
    for rec in meta.data_maps().iter().take(32) {
        let r = rec.data(meta.offset_data());
        if !o.res(&r) {
            continue;
        }
        let dlen = (rec.data_length() as usize).min(len);
        match r.unwrap() {
            Metadata::Other(d) => {
                o.note(d.len() as u64);
                assert!(d.len() <= len);
            }
            Metadata::ScriptLangTags(arr) => {
                // every item takes at least one byte of the blob
                let n = o.drain("meta.ScriptLangTags.iter", dlen + 1, arr.iter(), |o, t| match t {
                    Ok(t) => {
                        o.note_str(t.as_str());
                        o.note_str(AsRef::<str>::as_ref(&t));
                        o.note(String::from(t).len() as u64);
                    }
                    Err(e) => o.note_str(&format!("{e:?}")),
                });
                if o.over.is_some() {
                    return; // runaway iterator: `get` walks the same items
                }
                let mut ids = edge_usize(&[n, dlen]);
                ids.extend(0..n.min(6));
                for i in ids {
                    match arr.get(i) {
                        None => o.note(0),
                        Some(Ok(t)) => o.note_str(t.as_str()),
                        Some(Err(e)) => o.note_str(&format!("{e:?}")),
                    }
                }
            }
        }
    }
    if len <= 300 && o.over.is_none() {
        o.note(format!("{meta:?}").len() as u64);
    }
}

/// `DataMapRecord::data`: the slice is exactly `[offset, offset + length)` of the table or an error
fn meta_check(b: &[u8]) -> Option<String> {
    let meta = Meta::read(FontData::new(b)).ok()?;
    for (i, rec) in meta.data_maps().iter().enumerate().take(32) {
        let at = 16 + 12 * i;
        let (off, dl) = (be32(b, at + 4)? as u64, be32(b, at + 8)? as u64);
        let tag = &b[at..at + 4];
        let want: Option<&[u8]> = if off == 0 || off + dl > b.len() as u64 { None } else { Some(&b[off as usize..(off + dl) as usize]) };
        let got = rec.data(meta.offset_data());
        match (got, want) {
            (Err(_), None) => {}
            (Ok(Metadata::Other(d)), Some(w)) => {
                if d != w || tag == b"dlng" || tag == b"slng" {
                    return Some(format!("record {i}: Other({} bytes), model {} bytes", d.len(), w.len()));
                }
            }
            (Ok(Metadata::ScriptLangTags(arr)), Some(w)) => {
                if !(tag == b"dlng" || tag == b"slng") {
                    return Some(format!("record {i}: ScriptLangTags for another tag"));
                }
                // the tags, as the iterator sees them: split after every comma
                let mut want_tags: Vec<Option<String>> = vec![];
                let mut rest = w;
                while !rest.is_empty() {
                    let end = rest.iter().position(|c| *c == b',').map(|p| p + 1).unwrap_or(rest.len());
                    want_tags.push(std::str::from_utf8(&rest[..end]).ok().map(|s| s.trim_matches([' ', ',']).to_string()));
                    rest = &rest[end..];
                }
                let got_tags: Vec<Option<String>> = arr.iter().take(w.len() + 2).map(|t| t.ok().map(|t| t.as_str().to_string())).collect();
                if got_tags != want_tags {
                    return Some(format!("record {i}: tags {got_tags:?}, model {want_tags:?}"));
                }
            }
            (g, w) => return Some(format!("record {i}: off {off} len {dl}: ok={} model ok={}", g.is_ok(), w.is_some())),
        }
    }
    None
}

// ------------------------------------------------------------------------------------------------
// misc: hdmx  — input `[num_glyphs u16][hdmx table]`

use read_fonts::tables::hdmx::{DeviceRecord, Hdmx};

fn hdmx_bytes(rng: &mut Rng) -> B {
    let ng = rng.below(6) as u16;
    let natural = 2 + ng as u32;
    let size = match rng.below(9) {
        0 => 0,
        1 => 1,
        2 => 2,
        3 => natural.saturating_sub(1),
        4 => natural + 1,
        5 => (natural + 3) & !3,
        _ => natural,
    };
    let n = rng.below(6) as u16;
    let mut b = B::new();
    b.f16(ng);
    b.u16(0).f16(n).f32(size);
    let mut ppem: Vec<u8> = (0..n).map(|_| rng.below(40) as u8).collect();
    if rng.chance(4, 5) {
        ppem.sort();
    }
    if rng.chance(1, 4) && n > 0 {
        ppem[0] = 0;
        ppem[n as usize - 1] = 255;
    }
    for p in ppem {
        let mut r = vec![p, 9];
        r.extend((0..ng).map(|g| g as u8 + 1));
        r.resize(size as usize, 0xEE);
        b.bytes(&r);
    }
    if rng.chance(1, 3) {
        b.bytes(&rng.bytes(3));
    }
    b
}

fn hdmx_walk(bytes: &[u8], o: &mut Obs) {
    let Some(ng) = be16(bytes, 0) else { return };
    let table = &bytes[2..];
    let len = table.len();
    for ng in [ng, ng.wrapping_add(1), ng.wrapping_sub(1)] {
        let r = Hdmx::read(FontData::new(table), ng);
        if !o.res(&r) {
            continue;
        }
        let hdmx = r.unwrap();
        let recs = hdmx.records();
        let n = recs.len();
        o.note(n as u64);
        o.note(recs.is_empty() as u64);
        // exactly `len()` items (`len()` itself is compared with the model in `hdmx_check`)
        assert!(n <= len);
        o.drain("hdmx.records.iter", n, recs.iter(), |o, r| {
            if o.res(&r) {
                let r = r.unwrap();
                o.note(r.pixel_size() as u64);
                o.note(r.max_width() as u64);
                o.note_bytes(r.widths());
            }
        });
        for i in edge_usize(&[n, hdmx.num_records() as usize]) {
            let r = recs.get(i);
            if o.res(&r) {
                o.note_bytes(r.unwrap().widths);
            }
        }
        for s in 0..=255u8 {
            match hdmx.record_for_size(s) {
                Some(r) => {
                    o.note(r.pixel_size as u64 + 1);
                    o.note_bytes(r.widths());
                }
                None => o.note(0),
            }
        }
        if len <= 200 {
            o.note(format!("{hdmx:?}").len() as u64);
        }
    }
    for size in [0u32, 1, 2, ng as u32 + 2, u32::MAX] {
        let r = DeviceRecord::read(FontData::new(table), ng, size);
        if o.res(&r) {
            o.note_bytes(r.unwrap().widths());
        }
    }
}

/// `record_for_size` against a linear search (sound always; complete when the sizes are sorted)
fn hdmx_check(b: &[u8]) -> Option<String> {
    let ng = be16(b, 0)?;
    let t = b.get(2..)?;
    let hdmx = Hdmx::read(FontData::new(t), ng).ok()?;
    let size = be32(t, 4)? as usize;
    let n = be16(t, 2)? as usize;
    // the records are read inside the `num_records * size_device_record` bytes of the array
    let area = t.get(8..8 + n * size)?;
    let recs: Vec<Option<(u8, &[u8])>> = (0..if size == 0 { 0 } else { n })
        .map(|i| {
            let at = i * size;
            let r = area.get(at..at + 2 + ng as usize)?;
            Some((r[0], &r[2..]))
        })
        .collect();
    if hdmx.records().len() != recs.len() {
        return Some(format!("records().len() = {}, model {}", hdmx.records().len(), recs.len()));
    }
    let all_ok = recs.iter().all(|r| r.is_some());
    let sorted = all_ok && recs.windows(2).all(|w| w[0].unwrap().0 < w[1].unwrap().0);
    for s in 0..=255u8 {
        let got = hdmx.record_for_size(s);
        if let Some(g) = &got {
            if g.pixel_size != s || !recs.iter().flatten().any(|(p, w)| *p == s && *w == g.widths) {
                return Some(format!("record_for_size({s}) returned a record that is not in the table"));
            }
        }
        if sorted && got.is_some() != recs.iter().flatten().any(|(p, _)| *p == s) {
            return Some(format!("record_for_size({s}) found={} on sorted records", got.is_some()));
        }
    }
    None
}

// ------------------------------------------------------------------------------------------------
// misc: hmtx / vmtx — input `[number_of_long_metrics u16][num_glyphs u16][table]`

use read_fonts::tables::hmtx::Hmtx;
use read_fonts::tables::vmtx::Vmtx;

fn hmtx_bytes(rng: &mut Rng) -> B {
    let nl = match rng.below(5) {
        0 => 0,
        1 => 1,
        _ => rng.below(6) as u16,
    };
    let ng = match rng.below(5) {
        0 => nl,
        1 => nl.saturating_sub(1),
        _ => nl + rng.below(5) as u16,
    };
    let mut b = B::new();
    b.f16(nl).f16(ng);
    for i in 0..nl {
        b.u16(500 + i).i16(-(i as i16) - 1);
    }
    for i in 0..ng.saturating_sub(nl) {
        b.i16(100 + i as i16);
    }
    if rng.chance(1, 3) {
        b.bytes(&rbytes(rng, 5));
    }
    b
}

fn hmtx_gids(nl: u16, ng: u16) -> Vec<u32> {
    edge32(&[nl as u64, ng as u64, ng.saturating_sub(nl) as u64, 0xFFFF])
}

fn hmtx_walk(bytes: &[u8], o: &mut Obs) {
    let (Some(nl), Some(ng)) = (be16(bytes, 0), be16(bytes, 2)) else { return };
    let t = &bytes[4..];
    let r = Hmtx::read(FontData::new(t), nl, ng);
    if o.res(&r) {
        let h = r.unwrap();
        o.note(h.h_metrics().len() as u64);
        o.note(h.left_side_bearings().len() as u64);
        for g in hmtx_gids(nl, ng) {
            o.note(h.advance(GlyphId::new(g)).map(|v| v as u64 + 1).unwrap_or(0));
            o.note(h.side_bearing(GlyphId::new(g)).map(|v| v as u16 as u64 + 1).unwrap_or(0));
        }
    }
    let r = Vmtx::read(FontData::new(t), nl, ng);
    if o.res(&r) {
        let h = r.unwrap();
        for g in hmtx_gids(nl, ng) {
            o.note(h.advance(GlyphId::new(g)).map(|v| v as u64 + 1).unwrap_or(0));
            o.note(h.side_bearing(GlyphId::new(g)).map(|v| v as u16 as u64 + 1).unwrap_or(0));
        }
    }
}

fn hmtx_check(b: &[u8]) -> Option<String> {
    let (nl, ng) = (be16(b, 0)? as usize, be16(b, 2)? as usize);
    let t = b.get(4..)?;
    let nb = ng.saturating_sub(nl);
    let readable = 4 * nl + 2 * nb <= t.len();
    let h = Hmtx::read(FontData::new(t), nl as u16, ng as u16);
    let v = Vmtx::read(FontData::new(t), nl as u16, ng as u16);
    if h.is_ok() != readable || v.is_ok() != readable {
        return Some(format!("read ok={}/{} model {readable}", h.is_ok(), v.is_ok()));
    }
    let (h, v) = (h.ok()?, v.ok()?);
    for g in hmtx_gids(nl as u16, ng as u16) {
        let gi = g as usize;
        let adv = if nl == 0 { None } else { be16(t, 4 * gi.min(nl - 1)) };
        let sb = if gi < nl { be16(t, 4 * gi + 2) } else if gi - nl < nb { be16(t, 4 * nl + 2 * (gi - nl)) } else { None }.map(|x| x as i16);
        let gid = GlyphId::new(g);
        if h.advance(gid) != adv || v.advance(gid) != adv {
            return Some(format!("advance({g}) = {:?}/{:?}, model {adv:?}", h.advance(gid), v.advance(gid)));
        }
        if h.side_bearing(gid) != sb || v.side_bearing(gid) != sb {
            return Some(format!("side_bearing({g}) = {:?}/{:?}, model {sb:?}", h.side_bearing(gid), v.side_bearing(gid)));
        }
    }
    None
}

// ------------------------------------------------------------------------------------------------
// misc: VORG

use read_fonts::tables::vorg::Vorg;

fn vorg_bytes(rng: &mut Rng) -> B {
    let n = rng.below(7) as u16;
    let mut gids: Vec<u16> = (0..n).map(|_| if rng.chance(1, 6) { *rng.pick(&[0u16, 0xFFFF, 0xFFFE, 1]) } else { rng.below(30) as u16 }).collect();
    if rng.chance(4, 5) {
        gids.sort();
    }
    let mut b = B::new();
    b.u16(1).u16(0).i16(880).f16(n);
    for (i, g) in gids.iter().enumerate() {
        b.f16(*g).i16(i as i16 - 3);
    }
    b
}

fn vorg_gids(b: &[u8]) -> Vec<u32> {
    let n = be16(b, 6).unwrap_or(0) as usize;
    let mut vals: Vec<u64> = vec![n as u64];
    for i in 0..n.min(24) {
        if let Some(g) = be16(b, 8 + 4 * i) {
            vals.push(g as u64);
        }
    }
    edge32(&vals)
}

fn vorg_walk(bytes: &[u8], o: &mut Obs) {
    let r = Vorg::read(FontData::new(bytes));
    if !o.res(&r) {
        return;
    }
    let v = r.unwrap();
    o.note(v.vert_origin_y_metrics().len() as u64);
    for g in vorg_gids(bytes) {
        o.note(v.vertical_origin_y(GlyphId::new(g)) as u16 as u64);
    }
}

fn vorg_check(b: &[u8]) -> Option<String> {
    let v = Vorg::read(FontData::new(b)).ok()?;
    let n = be16(b, 6)? as usize;
    let recs: Vec<(u16, i16)> = (0..n).map(|i| (be16(b, 8 + 4 * i).unwrap(), be16(b, 10 + 4 * i).unwrap() as i16)).collect();
    let default = be16(b, 4)? as i16;
    let sorted = recs.windows(2).all(|w| w[0].0 < w[1].0);
    for g in vorg_gids(b) {
        let got = v.vertical_origin_y(GlyphId::new(g));
        let hits: Vec<i16> = recs.iter().filter(|r| r.0 as u32 == g).map(|r| r.1).collect();
        let ok = if sorted { got == hits.first().copied().unwrap_or(default) } else { got == default || hits.contains(&got) };
        if !ok {
            return Some(format!("vertical_origin_y({g}) = {got}, records {recs:?} default {default}"));
        }
    }
    None
}

// ------------------------------------------------------------------------------------------------
// misc: SVG

use read_fonts::tables::svg::Svg;

fn svg_bytes(rng: &mut Rng) -> B {
    let n = rng.below(5) as usize;
    let mut b = B::new();
    b.u16(0).f32(10).u16(0).u16(0); // version, list offset, reserved (u32 in the spec)
    let list_at = b.len();
    b.f16(n as u16);
    let mut start = rng.below(4) as u16;
    let mut ranges: Vec<(u16, u16)> = vec![];
    for _ in 0..n {
        let end = start + rng.below(3) as u16;
        ranges.push((start, end));
        start = end + 1 + rng.below(3) as u16;
    }
    match rng.below(6) {
        0 => rng.shuffle(&mut ranges),
        1 if n > 0 => ranges[n - 1].1 = 0xFFFF,
        2 if n > 0 => ranges[0] = (ranges[0].1, ranges[0].0), // end < start
        _ => {}
    }
    let recs_at = b.len();
    for (s, e) in &ranges {
        b.f16(*s).f16(*e).f32(0).f32(0);
    }
    for k in 0..n {
        let doc = rbytes(rng, 6);
        let rel_off = (b.len() - list_at) as u32;
        let (off, len) = match rng.below(9) {
            0 => (rel_off, doc.len() as u32 + 1),       // one beyond the data (last doc)
            1 => (rel_off + doc.len() as u32, 0),       // empty at the very end
            2 => (rel_off + doc.len() as u32 + 1, 0),   // one past the end
            3 => (0, 2),                                // the list header itself
            _ => (rel_off, doc.len() as u32),
        };
        b.set32(recs_at + 12 * k + 4, off);
        b.set32(recs_at + 12 * k + 8, len);
        b.bytes(&doc);
    }
    b
}

fn svg_gids(b: &[u8]) -> Vec<u32> {
    let at = be32(b, 2).unwrap_or(0) as usize;
    let n = be16(b, at).unwrap_or(0) as usize;
    let mut vals = vec![n as u64];
    for i in 0..n.min(16) {
        for d in [0, 2] {
            if let Some(g) = be16(b, at.saturating_add(2 + 12 * i + d)) {
                vals.push(g as u64);
            }
        }
    }
    edge32(&vals)
}

fn svg_walk(bytes: &[u8], o: &mut Obs) {
    let r = Svg::read(FontData::new(bytes));
    if !o.res(&r) {
        return;
    }
    let svg = r.unwrap();
    let dl = svg.svg_document_list();
    o.res(&dl);
    for g in svg_gids(bytes) {
        let r = svg.glyph_data(GlyphId::new(g));
        if o.res(&r) {
            match r.unwrap() {
                Some(d) => o.note_bytes(d),
                None => o.note(0),
            }
        }
    }
}

fn svg_check(b: &[u8]) -> Option<String> {
    let svg = Svg::read(FontData::new(b)).ok()?;
    let at = be32(b, 2)? as usize;
    let list = b.get(at..).filter(|_| at != 0);
    let recs: Option<Vec<(u16, u16, u64, u64)>> = list.and_then(|l| {
        let n = be16(l, 0)? as usize;
        if 2 + 12 * n > l.len() {
            return None;
        }
        Some((0..n).map(|i| (be16(l, 2 + 12 * i).unwrap(), be16(l, 4 + 12 * i).unwrap(), be32(l, 6 + 12 * i).unwrap() as u64, be32(l, 10 + 12 * i).unwrap() as u64)).collect())
    });
    for g in svg_gids(b) {
        let got = svg.glyph_data(GlyphId::new(g));
        match (&got, &recs) {
            (Err(_), None) => {}
            (Ok(got), Some(recs)) => {
                let l = list.unwrap();
                let sorted = recs.iter().all(|r| r.0 <= r.1) && recs.windows(2).all(|w| w[0].1 < w[1].0);
                let docs: Vec<Option<&[u8]>> = recs.iter().filter(|r| r.0 as u32 <= g && g <= r.1 as u32).map(|r| if r.2 + r.3 <= l.len() as u64 { Some(&l[r.2 as usize..(r.2 + r.3) as usize]) } else { None }).collect();
                let ok = if sorted { *got == docs.first().copied().flatten() } else { got.is_none() || docs.contains(got) };
                if !ok {
                    return Some(format!("glyph_data({g}) = {:?}, records {recs:?}", got.map(|d| d.len())));
                }
            }
            _ => return Some(format!("glyph_data({g}) ok={} but document list readable={}", got.is_ok(), recs.is_some())),
        }
    }
    None
}

// ------------------------------------------------------------------------------------------------
// misc: STAT (AxisValue accessors, ArrayOfOffsets)

use read_fonts::tables::stat::{AxisValue, Stat};

fn stat_bytes(rng: &mut Rng) -> B {
    let minor = *rng.pick(&[0u16, 1, 2]);
    let na = rng.below(4) as u16;
    let nv = rng.below(6) as u16;
    let mut b = B::new();
    b.u16(1).f16(minor).f16(8).f16(na).f32(0).f16(nv).f32(0);
    if minor >= 1 {
        b.u16(2);
    }
    let at = b.len() as u32;
    b.set32(8, at);
    for i in 0..na {
        b.tag(b"wght").u16(256 + i).u16(i);
    }
    if nv > 0 || rng.chance(1, 2) {
        let arr = b.len();
        b.set32(14, arr as u32);
        for _ in 0..nv {
            b.f16(0);
        }
        for k in 0..nv as usize {
            let off = (b.len() - arr) as u16;
            let off = match rng.below(10) {
                0 => 0,
                1 => off.wrapping_add(1),
                2 => 0xFFFF,
                _ => off,
            };
            b.set16(arr + 2 * k, off);
            let format = 1 + rng.below(4) as u16;
            match format {
                1 => b.f16(1).u16(rng.below(4) as u16).u16(2).u16(300).i32(0x10000),
                2 => b.f16(2).u16(0).u16(0).u16(301).i32(1).i32(0).i32(2),
                3 => b.f16(3).u16(1).u16(1).u16(302).i32(400 << 16).i32(700 << 16),
                _ => {
                    let c = rng.below(4) as u16;
                    b.f16(4).f16(c).u16(0).u16(303);
                    for i in 0..c {
                        b.u16(i).i32(i as i32);
                    }
                    &mut b
                }
            };
        }
    }
    b
}

fn stat_walk(bytes: &[u8], o: &mut Obs) {
    let len = bytes.len();
    let r = Stat::read(FontData::new(bytes));
    if !o.res(&r) {
        return;
    }
    let stat = r.unwrap();
    o.note(stat.elided_fallback_name_id().map(|n| n.to_u16() as u64 + 1).unwrap_or(0));
    let da = stat.design_axes();
    if o.res(&da) {
        for a in da.unwrap().iter().take(40) {
            o.note(a.axis_ordering() as u64);
        }
    }
    let Some(av) = stat.offset_to_axis_values() else {
        o.note(0);
        return;
    };
    if !o.res(&av) {
        return;
    }
    let arr = av.unwrap().axis_values();
    let n = arr.len();
    o.note(n as u64);
    o.note(arr.is_empty() as u64);
    let digest = |o: &mut Obs, r: Result<AxisValue, read_fonts::ReadError>| {
        if o.res(&r) {
            let v = r.unwrap();
            o.note(v.format() as u64);
            o.note(v.value().map(|f| f.to_bits() as u32 as u64 + 1).unwrap_or(0));
            o.note(v.linked_value().map(|f| f.to_bits() as u32 as u64 + 1).unwrap_or(0));
            o.note(v.axis_index().map(|f| f as u64 + 1).unwrap_or(0));
            o.note(v.flags().bits() as u64);
            if let AxisValue::Format4(f) = v {
                o.note(f.axis_values().len() as u64);
            }
        }
    };
    // one offset (2 bytes) per item
    o.drain("stat.axis_values.iter", len / 2 + 1, arr.iter(), |o, r| digest(o, r));
    let mut ids = edge_usize(&[n]);
    ids.extend(0..n.min(8));
    for i in ids {
        digest(o, arr.get(i));
    }
}

// ------------------------------------------------------------------------------------------------
// misc: BASE (ArrayOfOffsets<BaseCoord>, nullable offsets, MinMax ↔ FeatMinMaxRecord recursion)

use read_fonts::tables::base::{Axis, Base, BaseCoord, MinMax};

fn base_coord(rng: &mut Rng) -> B {
    let mut b = B::new();
    match rng.below(4) {
        0 => b.f16(1).i16(-120),
        1 => b.f16(2).i16(700).u16(3).u16(1),
        2 => b.f16(3).i16(10).f16(6).u16(0).u16(1).u16(0x8000), // VariationIndex
        _ => b.f16(3).i16(10).f16(0),
    };
    b
}

fn min_max(rng: &mut Rng, depth: u32) -> B {
    let nf = if depth == 0 { 0 } else { rng.below(3) as usize };
    let mut b = B::new();
    b.f16(0).f16(0).f16(nf as u16);
    for _ in 0..nf {
        b.tag(b"kern").f16(0).f16(0);
    }
    for k in 0..2 {
        if rng.chance(2, 3) {
            let at = b.append(&base_coord(rng));
            b.set16(2 * k, at as u16);
        }
    }
    for k in 0..nf {
        for j in 0..2 {
            match rng.below(4) {
                0 => {}
                1 => b.set16(6 + 8 * k + 4 + 2 * j, 0), // the record points at its own MinMax via 0 = null
                2 => {
                    // cycle: the feature record points back at this MinMax table … offsets are
                    // relative to the MinMax, so 0 is null; use the first coord instead
                    let v = u16::from_be_bytes([b.v[0], b.v[1]]);
                    b.set16(6 + 8 * k + 4 + 2 * j, v);
                }
                _ => {
                    let at = b.append(&min_max(rng, depth - 1));
                    b.set16(6 + 8 * k + 4 + 2 * j, at as u16);
                }
            }
        }
    }
    b
}

fn base_axis(rng: &mut Rng) -> B {
    let mut b = B::new();
    b.f16(0).f16(0);
    let nt = rng.below(3) as u16;
    if rng.chance(2, 3) {
        let mut t = B::new();
        t.f16(nt);
        for _ in 0..nt {
            t.tag(b"romn");
        }
        let at = b.append(&t);
        b.set16(0, at as u16);
    }
    // script list
    let ns = rng.below(3) as usize;
    let mut sl = B::new();
    sl.f16(ns as u16);
    for _ in 0..ns {
        sl.tag(b"latn").f16(0);
    }
    for k in 0..ns {
        let nl = rng.below(3) as usize;
        let mut sc = B::new();
        sc.f16(0).f16(0).f16(nl as u16);
        for _ in 0..nl {
            sc.tag(b"ENG ").f16(0);
        }
        if rng.chance(3, 4) {
            let nc = rng.below(4) as usize;
            let mut bv = B::new();
            bv.u16(0).f16(nc as u16);
            for _ in 0..nc {
                bv.f16(0);
            }
            for c in 0..nc {
                let at = bv.append(&base_coord(rng));
                let at = match rng.below(8) {
                    0 => 0,
                    1 => 0xFFFF,
                    _ => at as u16,
                };
                bv.set16(4 + 2 * c, at);
            }
            let at = sc.append(&bv);
            sc.set16(0, at as u16);
        }
        if rng.chance(1, 2) {
            let at = sc.append(&min_max(rng, 2));
            sc.set16(2, at as u16);
        }
        for l in 0..nl {
            let at = sc.append(&min_max(rng, 1));
            sc.set16(6 + 6 * l + 4, at as u16);
        }
        let at = sl.append(&sc);
        sl.set16(2 + 6 * k + 4, at as u16);
    }
    let at = b.append(&sl);
    b.set16(2, at as u16);
    b
}

fn base_bytes(rng: &mut Rng) -> B {
    let minor = rng.below(2) as u16;
    let mut b = B::new();
    b.u16(1).f16(minor).f16(0).f16(0);
    if minor >= 1 {
        b.f32(0);
    }
    for k in 0..2 {
        if rng.chance(2, 3) {
            let at = b.append(&base_axis(rng));
            b.set16(4 + 2 * k, at as u16);
        }
    }
    if minor >= 1 && rng.chance(1, 2) {
        let ivs = super::ps::ivs_bytes(rng, 1, 1, 1);
        let at = b.append(&ivs);
        b.set32(8, at as u32);
    }
    b
}

fn base_coord_walk(o: &mut Obs, c: Result<BaseCoord, read_fonts::ReadError>) {
    if o.res(&c) {
        let c = c.unwrap();
        o.note(c.base_coord_format() as u64);
        o.note(c.coordinate() as u16 as u64);
        if let BaseCoord::Format3(f) = c {
            match f.device() {
                None => o.note(0),
                Some(d) => {
                    o.res(&d);
                }
            }
        }
    }
}

/// `budget` bounds the number of MinMax tables visited (feature records may form cycles / DAGs)
fn min_max_walk(o: &mut Obs, m: Result<MinMax, read_fonts::ReadError>, depth: u32, budget: &mut u32) {
    if !o.res(&m) || *budget == 0 {
        return;
    }
    *budget -= 1;
    let m = m.unwrap();
    for c in [m.min_coord(), m.max_coord()] {
        match c {
            None => o.note(0),
            Some(c) => base_coord_walk(o, c),
        }
    }
    o.note(m.feat_min_max_count() as u64);
    if depth == 0 {
        return;
    }
    for rec in m.feat_min_max_records().iter().take(6) {
        for c in [rec.min_coord(m.offset_data()), rec.max_coord(m.offset_data())] {
            match c {
                None => o.note(0),
                Some(c) => min_max_walk(o, c, depth - 1, budget),
            }
        }
    }
}

fn base_axis_walk(o: &mut Obs, a: Option<Result<Axis, read_fonts::ReadError>>, len: usize) {
    let Some(a) = a else {
        o.note(0);
        return;
    };
    if !o.res(&a) {
        return;
    }
    let a = a.unwrap();
    match a.base_tag_list() {
        None => o.note(0),
        Some(t) => {
            if o.res(&t) {
                o.note(t.unwrap().baseline_tags().len() as u64);
            }
        }
    }
    let sl = a.base_script_list();
    if !o.res(&sl) {
        return;
    }
    let sl = sl.unwrap();
    let mut budget = 64u32;
    for rec in sl.base_script_records().iter().take(8) {
        let s = rec.base_script(sl.offset_data());
        if !o.res(&s) {
            continue;
        }
        let s = s.unwrap();
        match s.base_values() {
            None => o.note(0),
            Some(bv) => {
                if o.res(&bv) {
                    let arr = bv.unwrap().base_coords();
                    let n = arr.len();
                    o.note(n as u64);
                    o.note(arr.is_empty() as u64);
                    o.drain("base.base_coords.iter", len / 2 + 1, arr.iter(), |o, c| base_coord_walk(o, c));
                    let mut ids = edge_usize(&[n]);
                    ids.extend(0..n.min(6));
                    for i in ids {
                        base_coord_walk(o, arr.get(i));
                    }
                }
            }
        }
        match s.default_min_max() {
            None => o.note(0),
            Some(m) => min_max_walk(o, m, 3, &mut budget),
        }
        for l in s.base_lang_sys_records().iter().take(6) {
            min_max_walk(o, l.min_max(s.offset_data()), 3, &mut budget);
        }
    }
}

fn base_walk(bytes: &[u8], o: &mut Obs) {
    let r = Base::read(FontData::new(bytes));
    if !o.res(&r) {
        return;
    }
    let base = r.unwrap();
    base_axis_walk(o, base.horiz_axis(), bytes.len());
    base_axis_walk(o, base.vert_axis(), bytes.len());
    match base.item_var_store() {
        None => o.note(0),
        Some(s) => {
            o.res(&s);
        }
    }
    o.note(base.min_byte_range().end as u64);
    o.note(base.min_table_bytes().len() as u64);
    o.res(&base.resolve_offset::<_, Axis>(*base.horiz_axis_offset().offset()));
    o.note(base.shape().version_byte_range().end as u64);
}

// ------------------------------------------------------------------------------------------------
// misc: ArrayOfNullableOffsets (ItemVariationStore::variation_data, Offset32)

use read_fonts::tables::variations::ItemVariationStore;

fn ivs_null_bytes(rng: &mut Rng) -> B {
    let n_data = rng.below(5) as u16;
    let (na, nr) = (1 + rng.below(2) as u16, rng.below(3) as u16);
    let mut b = super::ps::ivs_bytes(rng, na, nr, n_data);
    for k in 0..n_data as usize {
        match rng.below(6) {
            0 => b.set32(8 + 4 * k, 0), // null
            1 => {
                let l = b.len() as u32;
                b.set32(8 + 4 * k, l - rng.below(3) as u32) // at / just before the end
            }
            2 => b.set32(8 + 4 * k, u32::MAX),
            _ => {}
        }
    }
    b
}

fn ivs_walk(bytes: &[u8], o: &mut Obs) {
    let r = ItemVariationStore::read(FontData::new(bytes));
    if !o.res(&r) {
        return;
    }
    let arr = r.unwrap().item_variation_data();
    let n = arr.len();
    o.note(n as u64);
    o.note(arr.is_empty() as u64);
    let digest = |o: &mut Obs, r: Option<Result<read_fonts::tables::variations::ItemVariationData, read_fonts::ReadError>>| match r {
        None => o.note(0),
        Some(r) => {
            if o.res(&r) {
                o.note(r.unwrap().item_count() as u64);
            }
        }
    };
    // one 4 byte offset per item
    o.drain("ivs.variation_data.iter", bytes.len() / 4 + 1, arr.iter(), |o, r| digest(o, r));
    let mut ids = edge_usize(&[n]);
    ids.extend(0..n.min(6));
    for i in ids {
        digest(o, arr.get(i));
    }
}

// ------------------------------------------------------------------------------------------------
// misc: CPAL, OS/2, head, hhea, maxp, gasp (generated getters + the few hand-written items)

use read_fonts::tables::cpal::Cpal;
use read_fonts::tables::gasp::Gasp;
use read_fonts::tables::head::Head;
use read_fonts::tables::hhea::Hhea;
use read_fonts::tables::maxp::Maxp;
use read_fonts::tables::os2::{Os2, OS2_UNICODE_RANGES};

fn cpal_bytes(rng: &mut Rng) -> B {
    let version = rng.below(2) as u16;
    let (ne, np, nc) = (rng.below(4) as u16, rng.below(4) as u16, rng.below(6) as u16);
    let mut b = B::new();
    b.f16(version).f16(ne).f16(np).f16(nc).f32(0);
    for i in 0..np {
        b.f16(i * ne);
    }
    if version >= 1 {
        b.f32(0).f32(0).f32(0);
    }
    let at = b.len() as u32;
    b.set32(8, at);
    b.bytes(&rng.bytes(4 * nc as usize));
    if version >= 1 {
        let base = 12 + 2 * np as usize;
        for (k, (count, width)) in [(np, 4usize), (np, 2), (ne, 2)].into_iter().enumerate() {
            if rng.chance(2, 3) {
                let at = b.len() as u32;
                b.set32(base + 4 * k, at);
                b.bytes(&rng.bytes(count as usize * width));
            }
        }
    }
    b
}

fn cpal_walk(bytes: &[u8], o: &mut Obs) {
    let r = Cpal::read(FontData::new(bytes));
    if !o.res(&r) {
        return;
    }
    let c = r.unwrap();
    o.note(c.color_record_indices().len() as u64);
    match c.color_records_array() {
        None => o.note(0),
        Some(r) => {
            if o.res(&r) {
                for x in r.unwrap().iter().take(32) {
                    o.note(x.red() as u64 + x.alpha() as u64);
                }
            }
        }
    }
    match c.palette_types_array() {
        None => o.note(0),
        Some(r) => {
            if o.res(&r) {
                o.note(r.unwrap().len() as u64);
            }
        }
    }
    match c.palette_labels_array() {
        None => o.note(0),
        Some(r) => {
            if o.res(&r) {
                o.note(r.unwrap().len() as u64);
            }
        }
    }
    match c.palette_entry_labels_array() {
        None => o.note(0),
        Some(r) => {
            if o.res(&r) {
                o.note(r.unwrap().len() as u64);
            }
        }
    }
    if bytes.len() <= 200 {
        o.note(format!("{c:?}").len() as u64);
    }
}

/// every generated getter through the traversal Debug impl, plus the hand-written extras
fn fixed_tables_walk(bytes: &[u8], o: &mut Obs) {
    let d = FontData::new(bytes);
    if let Ok(t) = Os2::read(d) {
        o.note(format!("{t:?}").len() as u64);
        o.note(t.panose_10().len() as u64);
        o.note(t.us_upper_optical_point_size().map(|v| v as u64 + 1).unwrap_or(0));
    }
    if let Ok(t) = Head::read(d) {
        o.note(format!("{t:?}").len() as u64);
        o.note(t.units_per_em() as u64);
    }
    if let Ok(t) = Hhea::read(d) {
        o.note(format!("{t:?}").len() as u64);
        #[allow(deprecated)]
        o.note(t.number_of_long_metrics() as u64);
    }
    if let Ok(t) = Maxp::read(d) {
        o.note(format!("{t:?}").len() as u64);
        o.note(t.max_component_depth().map(|v| v as u64 + 1).unwrap_or(0));
    }
    if let Ok(t) = Gasp::read(d) {
        if bytes.len() <= 200 {
            o.note(format!("{t:?}").len() as u64);
        }
        for r in t.gasp_ranges().iter().take(64) {
            o.note(r.range_max_ppem() as u64);
            o.note(r.range_gasp_behavior().bits() as u64);
        }
    }
    o.note(read_fonts::tables::compute_checksum(bytes) as u64);
}

fn checksum_model(b: &[u8]) -> u32 {
    let mut sum = 0u32;
    for (i, x) in b.iter().enumerate() {
        sum = sum.wrapping_add((*x as u32) << (8 * (3 - i % 4)));
    }
    sum
}

// ------------------------------------------------------------------------------------------------
// misc: TableProvider through a FontRef

fn sfnt(tables: &[(&[u8; 4], Vec<u8>)]) -> B {
    let mut t: Vec<(&[u8; 4], &Vec<u8>)> = tables.iter().map(|(a, b)| (*a, b)).collect();
    t.sort_by_key(|x| *x.0);
    let mut b = B::new();
    b.u32(0x0001_0000).f16(t.len() as u16).u16(0).u16(0).u16(0);
    let mut off = 12 + 16 * t.len();
    for (tag, data) in &t {
        b.tag(tag).u32(0).f32(off as u32).f32(data.len() as u32);
        off += data.len();
    }
    for (_, data) in &t {
        b.bytes(data);
    }
    b
}

fn provider_font(rng: &mut Rng) -> B {
    let ng = rng.below(5) as u16;
    let nl = rng.below(ng as u64 + 2) as u16;
    let mut maxp = B::new();
    maxp.u32(0x0000_5000).u16(ng);
    let mut hhea = B::new();
    hhea.u16(1).u16(0).zeros(30).u16(nl);
    let mut head = B::new();
    head.u16(1).u16(0).zeros(46).i16(rng.below(3) as i16 - 1).i16(0);
    let mut mtx = vec![];
    for i in 0..nl {
        mtx.extend_from_slice(&[0, i as u8, 0, 1]);
    }
    mtx.extend(vec![0u8; 2 * ng.saturating_sub(nl) as usize]);
    if rng.chance(1, 4) {
        mtx.pop();
    }
    let mut hdmx = B::new();
    hdmx.u16(0).u16(1).u32(2 + ng as u32).u8(12).u8(3).zeros(ng as usize);
    let loca: Vec<u8> = vec![0; rng.below(12) as usize];
    let cvt: Vec<u8> = rbytes(rng, 7);
    let mut tables: Vec<(&[u8; 4], Vec<u8>)> = vec![(b"maxp", maxp.v), (b"hhea", hhea.v.clone()), (b"vhea", hhea.v), (b"head", head.v), (b"hmtx", mtx.clone()), (b"vmtx", mtx), (b"hdmx", hdmx.v), (b"loca", loca), (b"cvt ", cvt)];
    tables.push((b"VORG", vorg_bytes(rng).v));
    tables.push((b"post", post_bytes(&PostSpec { version: 0x0003_0000, ..Default::default() }).v));
    tables.push((b"name", name_bytes(0, &[], &[], &[], None).v));
    tables.push((b"meta", meta_bytes(rng).v));
    tables.push((b"STAT", stat_bytes(rng).v));
    tables.push((b"SVG ", svg_bytes(rng).v));
    tables.push((b"BASE", base_bytes(rng).v));
    tables.push((b"CPAL", cpal_bytes(rng).v));
    tables.push((b"sbix", vec![0, 1, 0, 0, 0, 0, 0, 0]));
    // drop a few at random: the providers that need two tables must cope
    for _ in 0..rng.below(3) {
        let k = rng.below(tables.len() as u64) as usize;
        tables.remove(k);
    }
    sfnt(&tables)
}

fn provider_walk(bytes: &[u8], o: &mut Obs) {
    let r = FontRef::new(bytes);
    if !o.res(&r) {
        return;
    }
    let f = r.unwrap();
    macro_rules! t {
        ($($m:ident),*) => { $( o.note(f.$m().is_ok() as u64); )* };
    }
    t!(head, name, hhea, vhea, hmtx, hdmx, vmtx, vorg, fvar, avar, hvar, vvar, mvar, maxp, os2, post, gasp, glyf, gvar, cvar, cff, cff2, cmap, gdef, gpos, gsub, feat, ltag, ankr, colr, cpal, cblc, cbdt, eblc, ebdt, sbix, stat, svg, varc, ift, iftx, meta, base);
    for is_long in [None, Some(false), Some(true)] {
        let l = f.loca(is_long);
        if o.res(&l) {
            o.note(l.unwrap().len() as u64);
        }
    }
    let c = f.cvt();
    if o.res(&c) {
        o.note(c.unwrap().len() as u64);
    }
    o.res(&f.expect_data_for_tag(Tag::new(b"zzzz")));
    for tag in [b"maxp", b"hmtx", b"zzzz", b"\0\0\0\0", b"\xFF\xFF\xFF\xFF"] {
        match f.data_for_tag(Tag::new(tag)) {
            Some(d) => {
                assert!(d.len() <= bytes.len());
                o.note(d.len() as u64 + 1)
            }
            None => o.note(0),
        }
    }
    if let Ok(h) = f.hmtx() {
        for g in [0u32, 1, 4, 5, 0xFFFF, u32::MAX] {
            o.note(h.advance(GlyphId::new(g)).map(|v| v as u64 + 1).unwrap_or(0));
            o.note(h.side_bearing(GlyphId::new(g)).map(|v| v as u16 as u64 + 1).unwrap_or(0));
        }
    }
    if let Ok(h) = f.hdmx() {
        o.note(h.record_for_size(12).is_some() as u64);
    }
}

pub fn run_misc(ctx: &mut Ctx) {
    // OS/2 range table: sorted by start, start <= end (static data used by binary searches)
    let sorted = OS2_UNICODE_RANGES.windows(2).all(|w| w[0].0 < w[1].0 && w[0].1 < w[1].0) && OS2_UNICODE_RANGES.iter().all(|r| r.0 <= r.1 && r.2 < 128);
    ctx.oracle("model", sorted, || "OS2_UNICODE_RANGES".into(), || "not sorted / overlapping".into());
    for _ in 0..scale(ctx, 30) {
        let b = meta_bytes(&mut ctx.rng);
        ctx.drive("meta", &b, &meta_walk);
        rel(ctx, "model", "meta", &b, &meta_check);
    }
    for _ in 0..scale(ctx, 36) {
        let b = hdmx_bytes(&mut ctx.rng);
        ctx.drive("hdmx", &b, &hdmx_walk);
        rel(ctx, "model", "hdmx", &b, &hdmx_check);
    }
    // size_device_record × num_glyphs exhaustively on a 3 record table
    for size in 0..=9u32 {
        for ng in 0..=7u16 {
            let mut b = B::new();
            b.u16(ng).u16(0).u16(3).u32(size);
            for p in [5u8, 9, 200] {
                let mut r = vec![p, 1, 2, 3, 4, 5, 6, 7, 8, 9];
                r.truncate(size as usize);
                b.bytes(&r);
            }
            for extra in [0usize, 1, 7] {
                let mut v = b.v.clone();
                v.extend(vec![0x33; extra]);
                ctx.call("hdmx", &v, &hdmx_walk);
                rel1(ctx, "model", "hdmx", &v, &hdmx_check);
            }
        }
    }
    ctx.count("hdmx-size-sweep");
    for _ in 0..scale(ctx, 40) {
        let b = hmtx_bytes(&mut ctx.rng);
        ctx.drive("hmtx", &b, &hmtx_walk);
        rel(ctx, "model", "hmtx", &b, &hmtx_check);
    }
    for nl in 0..=4u16 {
        for ng in 0..=6u16 {
            for len in 0..=(4 * nl + 2 * ng.saturating_sub(nl) + 2) as usize {
                let mut v = vec![];
                v.extend_from_slice(&nl.to_be_bytes());
                v.extend_from_slice(&ng.to_be_bytes());
                v.extend((0..len).map(|i| i as u8 + 1));
                ctx.call("hmtx", &v, &hmtx_walk);
                rel1(ctx, "model", "hmtx", &v, &hmtx_check);
            }
        }
    }
    ctx.count("hmtx-count-sweep");
    for _ in 0..scale(ctx, 40) {
        let b = vorg_bytes(&mut ctx.rng);
        ctx.drive("vorg", &b, &vorg_walk);
        rel(ctx, "model", "vorg", &b, &vorg_check);
    }
    for _ in 0..scale(ctx, 40) {
        let b = svg_bytes(&mut ctx.rng);
        ctx.drive("svg", &b, &svg_walk);
        rel(ctx, "model", "svg", &b, &svg_check);
    }
    // the smallest input of the `offset + length` overflow in `Svg::glyph_data`
    {
        let mut b = B::new();
        b.u16(0).u32(8).u16(0).u16(1).u16(0).u16(0).f32(1).f32(u32::MAX);
        ctx.drive("svg", &b, &svg_walk);
    }
    for _ in 0..scale(ctx, 24) {
        let b = ivs_null_bytes(&mut ctx.rng);
        ctx.drive("ivs-nullable-offsets", &b, &ivs_walk);
    }
    for _ in 0..scale(ctx, 30) {
        let b = stat_bytes(&mut ctx.rng);
        ctx.drive("stat", &b, &stat_walk);
    }
    for _ in 0..scale(ctx, 24) {
        let b = base_bytes(&mut ctx.rng);
        ctx.drive("base", &b, &base_walk);
    }
    for _ in 0..scale(ctx, 24) {
        let b = cpal_bytes(&mut ctx.rng);
        ctx.drive("cpal", &b, &cpal_walk);
    }
    // fixed layout tables: all versions, every length around the versioned sizes
    for (n, major) in [(100usize, 0u16), (100, 1), (100, 2), (100, 3), (100, 4), (100, 5), (100, 6), (60, 1), (40, 0)] {
        for minor in [0u16, 0x5000] {
            let mut v = ctx.rng.bytes(n);
            v[0..2].copy_from_slice(&major.to_be_bytes());
            v[2..4].copy_from_slice(&minor.to_be_bytes());
            if major == 1 && n == 40 {
                v[2..4].copy_from_slice(&2u16.to_be_bytes()); // gasp: numRanges
            }
            let b = B { v, fields: vec![(0, 2), (2, 2)] };
            ctx.drive("fixed-tables", &b, &fixed_tables_walk);
        }
    }
    for n in 0..24usize {
        let v = ctx.rng.bytes(n);
        let ok = read_fonts::tables::compute_checksum(&v) == checksum_model(&v);
        ctx.oracle("model", ok, || format!("compute_checksum {}", hex(&v)), || "differs from the byte-wise sum".into());
    }
    for _ in 0..scale(ctx, 10) {
        let b = provider_font(&mut ctx.rng);
        ctx.drive("table-provider", &b, &provider_walk);
    }
    ctx.drive_random("meta", scale(ctx, 500), 64, &meta_walk);
    ctx.drive_random("hdmx", scale(ctx, 500), 40, &hdmx_walk);
    ctx.drive_random("hmtx", scale(ctx, 300), 32, &hmtx_walk);
    ctx.drive_random("vorg", scale(ctx, 300), 40, &vorg_walk);
    ctx.drive_random("svg", scale(ctx, 500), 64, &svg_walk);
    ctx.drive_random("stat", scale(ctx, 500), 64, &stat_walk);
    ctx.drive_random("base", scale(ctx, 500), 64, &base_walk);
    ctx.drive_random("cpal", scale(ctx, 300), 48, &cpal_walk);
    ctx.drive_random("table-provider", scale(ctx, 300), 80, &provider_walk);
    ctx.drive_random("ivs-nullable-offsets", scale(ctx, 300), 48, &ivs_walk);
}
