//! group `vars.model` — correspondence of the real hand-written functions of
//! variations.rs / gvar.rs / cvar.rs / hvar.rs / vvar.rs / mvar.rs / avar.rs (tuple variation headers, shared / private point numbers, phantom deltas, DeltaSetIndexMap, ItemVariationStore deltas)
//! with Model/HandVar.lean (`hv.*` driver commands), on generator-based inputs with truncations and
//! boundary fields; plus the group's own byte-level oracles.
use super::*;

pub fn run(_ctx: &mut Ctx) {}
