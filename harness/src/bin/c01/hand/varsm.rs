//! group `vars.model` — correspondence of the real hand-written functions of
//! variations.rs / gvar.rs / cvar.rs / hvar.rs / vvar.rs / mvar.rs / avar.rs (tuple variation headers, shared / private point numbers, phantom deltas, DeltaSetIndexMap, ItemVariationStore deltas)
//! with Model/HandVar.lean (`hv.*` driver commands), on generator-based inputs with truncations and
//! boundary fields; plus the group's own byte-level oracles.
//!
//! Every section: a generator of structurally valid tables with hostile-but-parsable shapes mixed in
//! (copied from / modelled on the no-model group `vars`), `variants` (every prefix truncation, every
//! registered count / offset / length field at boundary values, random flips), the real call inside
//! `catch`, a canonical rendering that the Lean driver reproduces from the bytes alone, and
//! model-independent oracles on the real result (no panic, iteration bounds, slices inside the data).
use super::*;
use font_types::{F2Dot14, GlyphId};
use read_fonts::tables::cvar::Cvar;
use read_fonts::tables::avar::SegmentMaps;
use read_fonts::tables::gvar::Gvar;
use read_fonts::tables::hvar::Hvar;
use read_fonts::tables::mvar::Mvar;
use read_fonts::tables::variations::{DeltaSetIndex, DeltaSetIndexMap, ItemVariationStore};
use read_fonts::tables::vvar::Vvar;
use font_types::{F26Dot6, Fixed, Point, Tag};
use read_fonts::tables::glyf::{CompositeGlyphFlags, Glyf, Glyph, PointCoord, PointFlags, PointMarker};
use read_fonts::tables::loca::Loca;
use read_fonts::tables::gvar::GlyphDelta;
use read_fonts::tables::variations::{Tuple, TupleDelta, TupleIndex, TupleVariation, TupleVariationCount, TupleVariationData, TupleVariationHeader};
use read_fonts::{FontData, FontRead, ReadError};

// ------------------------------------------------------------------------------------------------
// shared helpers

/// `Drv.C01Iter.fnv`
fn fnv(xs: impl IntoIterator<Item = u64>) -> u64 {
    let mut h = 0xcbf2_9ce4_8422_2325u64;
    for x in xs {
        h = (h ^ x).wrapping_mul(0x0000_0100_0000_01b3);
    }
    h
}

fn err_str(e: &ReadError) -> String {
    match e {
        ReadError::OutOfBounds => "eO".into(),
        ReadError::NullOffset => "eN".into(),
        ReadError::InvalidFormat(n) => format!("eF{n}"),
        ReadError::MalformedData(_) => "eM".into(),
        ReadError::InvalidCollectionIndex(i) => format!("eI{i}"),
        ReadError::MetricIsMissing(_) => "eT".into(),
        other => format!("e?{other:?}"),
    }
}

/// every prefix truncation, every registered field at boundary values, random flips
fn variants(rng: &mut Rng, b: &B, flips: usize) -> Vec<Vec<u8>> {
    let base = &b.v;
    let n = base.len();
    let mut out = vec![base.clone()];
    let mut cuts: Vec<usize> = vec![];
    if n <= 260 {
        cuts.extend(0..n);
    } else {
        cuts.extend(0..160);
        cuts.extend(n - 48..n);
        for (p, w) in &b.fields {
            for d in [0usize, 1] {
                cuts.push((*p + d).min(n - 1));
                cuts.push((*p + *w as usize + d).min(n - 1));
            }
        }
        cuts.sort();
        cuts.dedup();
    }
    for c in cuts {
        out.push(base[..c].to_vec());
    }
    for (p, w) in &b.fields {
        if *p + *w as usize > n {
            continue;
        }
        let max = (1u64 << (8 * *w as u32)) - 1;
        let cur = get_be(base, *p, *w);
        let rest = (n - *p) as u64;
        let mut vals = vec![0, 1, max - 1, max, max / 2, max / 2 + 1, n as u64, n as u64 + 1, (n as u64).saturating_sub(1), rest, rest + 1, rest / 2, cur.wrapping_add(1), cur.wrapping_sub(1), cur.wrapping_mul(2)];
        vals.sort();
        vals.dedup();
        for v in vals {
            let v = v & max;
            if v == cur {
                continue;
            }
            let mut m = base.clone();
            put_be(&mut m, *p, *w, v);
            out.push(m);
        }
    }
    for _ in 0..flips {
        if n == 0 {
            break;
        }
        let mut m = base.clone();
        for _ in 0..1 + rng.below(3) {
            let p = rng.below(n as u64) as usize;
            m[p] = match rng.below(4) {
                0 => 0,
                1 => 0xFF,
                2 => m[p] ^ (1 << rng.below(8)),
                _ => rng.next() as u8,
            };
        }
        out.push(m);
    }
    out
}

/// the slice lies inside `table` (empty slices are exempt: `Default` tuples point nowhere)
fn inside<T>(table: &[u8], s: &[T]) -> bool {
    if s.is_empty() {
        return true;
    }
    let a = s.as_ptr() as usize;
    let e = a + std::mem::size_of_val(s);
    let r = table.as_ptr_range();
    r.start as usize <= a && e <= r.end as usize
}

fn rcoord(rng: &mut Rng) -> i16 {
    match rng.below(9) {
        0 => 0,
        1 => 0x4000,
        2 => -0x4000,
        3 => 0x2000,
        4 => -0x2000,
        5 => 0x1000,
        6 => *rng.pick(&[1i16, -1, 0x7FFF, -0x8000, 0x4001, -0x4001, 0x3FFF]),
        _ => rng.next() as i16,
    }
}

fn rcoords(rng: &mut Rng, axis_count: u16) -> Vec<i16> {
    let n = match rng.below(6) {
        0 => axis_count.saturating_sub(1),
        1 => axis_count.saturating_add(1).min(100),
        _ => axis_count.min(100),
    };
    (0..n).map(|_| rcoord(rng)).collect()
}

/// the trailing coordinate arguments of a request line (nothing for an empty slice)
fn coord_args(cs: &[i16]) -> String {
    cs.iter().map(|c| format!(" {c}")).collect()
}

/// coordinates that land inside the generated regions most of the time
fn hot_coords(rng: &mut Rng, axis_count: u16) -> Vec<i16> {
    (0..axis_count)
        .map(|_| match rng.below(8) {
            0..=3 => 0x4000,
            4 => 0x2000,
            5 => -0x4000,
            6 => 0,
            _ => rcoord(rng),
        })
        .collect()
}

fn f2(cs: &[i16]) -> Vec<F2Dot14> {
    cs.iter().map(|c| F2Dot14::from_bits(*c)).collect()
}

// ------------------------------------------------------------------------------------------------
// packed point numbers + packed deltas + tuple variation store generator (after `vars::tuple_store`)

fn packed_deltas(vals: &[i32], rng: &mut Rng) -> Vec<u8> {
    let mut out = vec![];
    let mut i = 0;
    while i < vals.len() {
        let max_run = (vals.len() - i).min(64);
        let run = 1 + rng.below(max_run as u64) as usize;
        let chunk = &vals[i..i + run];
        let all_zero = chunk.iter().all(|v| *v == 0);
        let fits8 = chunk.iter().all(|v| (-128..=127).contains(v));
        let fits16 = chunk.iter().all(|v| (-32768..=32767).contains(v));
        if all_zero && rng.chance(3, 4) {
            out.push(0x80 | (run as u8 - 1));
        } else if fits8 && rng.chance(3, 4) {
            out.push(run as u8 - 1);
            for v in chunk {
                out.push(*v as i8 as u8);
            }
        } else if fits16 && rng.chance(3, 4) {
            out.push(0x40 | (run as u8 - 1));
            for v in chunk {
                out.extend_from_slice(&(*v as i16).to_be_bytes());
            }
        } else {
            out.push(0xC0 | (run as u8 - 1));
            for v in chunk {
                out.extend_from_slice(&v.to_be_bytes());
            }
        }
        i += run;
    }
    out
}

/// packed point numbers; returns the number of points (0 = all points)
fn packed_points(rng: &mut Rng) -> (Vec<u8>, usize) {
    match rng.below(9) {
        0 | 1 => return (vec![0], 0),
        2 => return (vec![0x80, 0x00], 0),
        _ => {}
    }
    let n: usize = match rng.below(7) {
        0 => 1,
        1 => 126 + rng.below(5) as usize,
        2 => 2,
        _ => 1 + rng.below(10) as usize,
    };
    let mut out = vec![];
    if n < 128 && rng.chance(5, 6) {
        out.push(n as u8);
    } else {
        out.push(0x80 | (n >> 8) as u8);
        out.push(n as u8);
    }
    let mut i = 0;
    while i < n {
        let run = 1 + rng.below((n - i).min(128) as u64) as usize;
        let words = rng.chance(1, 4);
        out.push((run as u8 - 1) | if words { 0x80 } else { 0 });
        for _ in 0..run {
            if words {
                let d = if rng.chance(1, 8) { rng.next() as u16 } else { rng.below(300) as u16 };
                out.extend_from_slice(&d.to_be_bytes());
            } else {
                out.push(if rng.chance(1, 6) { 0 } else { rng.below(4) as u8 + rng.chance(1, 10) as u8 * 200 });
            }
        }
        i += run;
    }
    if rng.chance(1, 10) && out.len() > 2 {
        let cut = 1 + rng.below(out.len() as u64 - 1) as usize;
        out.truncate(cut);
    }
    (out, n)
}

fn rdelta(rng: &mut Rng) -> i32 {
    match rng.below(12) {
        0 => rng.next() as i32,
        1 => i32::MAX,
        2 => i32::MIN,
        3 => 0,
        4 => rng.range(-40000, 40000) as i32,
        _ => rng.range(-200, 200) as i32,
    }
}

/// `[tupleVariationCount][dataOffset][headers…][serialized data]`; `base` = bytes of the enclosing
/// table in front of the count field (the data offset is relative to the table start)
fn tuple_store(rng: &mut Rng, axis_count: u16, is_point: bool, n_shared: u16, base: usize, n_points: usize) -> B {
    let n_tuples = match rng.below(7) {
        0 => 0,
        1 => 1,
        _ => 1 + rng.below(4) as usize,
    };
    let shared_points = rng.chance(1, 2);
    let mut ser: Vec<u8> = vec![];
    let mut shared_count = 0usize;
    if shared_points {
        let (p, n) = packed_points(rng);
        ser.extend(p);
        shared_count = n;
    }
    let mut headers = B::new();
    for _ in 0..n_tuples {
        let mut ti: u16 = 0;
        let embedded = if n_shared == 0 { rng.chance(7, 8) } else { rng.chance(1, 2) };
        if embedded {
            ti |= TupleIndex::EMBEDDED_PEAK_TUPLE | (rng.below(3) as u16);
        } else {
            ti |= match rng.below(8) {
                0 => n_shared,
                1 => 0x0FFF,
                _ => rng.below(n_shared.max(1) as u64) as u16,
            } & TupleIndex::TUPLE_INDEX_MASK;
        }
        let inter = rng.chance(1, 3);
        if inter {
            ti |= TupleIndex::INTERMEDIATE_REGION;
        }
        let private = if shared_points { rng.chance(1, 3) } else { rng.chance(3, 4) };
        if private {
            ti |= TupleIndex::PRIVATE_POINT_NUMBERS;
        }
        if rng.chance(1, 12) {
            ti |= 0x1000;
        }
        let mut body = vec![];
        let mut count = shared_count;
        if private {
            let (p, n) = packed_points(rng);
            body.extend(p);
            count = n;
        }
        let n_vals = if count == 0 { n_points } else { count } * if is_point { 2 } else { 1 };
        let n_vals = match rng.below(10) {
            0 => n_vals.saturating_sub(1),
            1 => n_vals + 1,
            2 => n_vals / 2,
            _ => n_vals,
        };
        let vals: Vec<i32> = (0..n_vals).map(|_| rdelta(rng)).collect();
        body.extend(packed_deltas(&vals, rng));
        let size = match rng.below(14) {
            0 => body.len() + 1,
            1 => body.len().saturating_sub(1),
            2 => 0xFFFF,
            _ => body.len(),
        };
        headers.f16(size as u16).f16(ti);
        let peaks: Vec<i16> = (0..axis_count).map(|_| rcoord(rng)).collect();
        if embedded {
            for p in &peaks {
                headers.i16(*p);
            }
        }
        if inter {
            let hostile = rng.chance(1, 5);
            let mut starts = vec![];
            let mut ends = vec![];
            for p in &peaks {
                if hostile {
                    starts.push(rcoord(rng));
                    ends.push(rcoord(rng));
                } else {
                    starts.push(p.saturating_sub(rng.below(0x3000) as i16));
                    ends.push(p.saturating_add(rng.below(0x3000) as i16));
                }
            }
            for s in starts {
                headers.i16(s);
            }
            for e in ends {
                headers.i16(e);
            }
        }
        ser.extend(body);
    }
    let mut b = B::new();
    let count = match rng.below(12) {
        0 => n_tuples + 1,
        1 => n_tuples.saturating_sub(1),
        2 => 0x0FFF,
        _ => n_tuples,
    };
    // reserved bits of the count word: 0x4000, and 0x1000 right above the 12 bit count
    b.f16(count as u16 | if shared_points { TupleVariationCount::SHARED_POINT_NUMBERS } else { 0 } | if rng.chance(1, 12) { 0x4000 } else { 0 } | if rng.chance(1, 6) { 0x1000 } else { 0 });
    b.f16((base + 4 + headers.len()) as u16);
    b.append(&headers);
    b.bytes(&ser);
    if rng.chance(1, 6) {
        b.bytes(&rng.bytes(3));
    }
    b
}

// ------------------------------------------------------------------------------------------------
// rendering of tuples / tuple variation data (`Drv.C01HandVar.renderTuple`, `renderTvd`)

fn tup_digest(t: &Tuple) -> String {
    format!("{}.{}", t.len(), fnv(t.values().iter().map(|v| v.get().to_bits() as u16 as u64)))
}

fn opt_tup(t: &Option<Tuple>) -> String {
    match t {
        Some(t) => tup_digest(t),
        None => "n".into(),
    }
}

/// what the oracles need to know about one walk
#[derive(Default)]
struct Seen {
    outside: Option<String>,
    over: Option<String>,
}

fn render_tuple<T: TupleDelta>(table: &[u8], t: &TupleVariation<T>, coords: &[F2Dot14], parts: &dyn Fn(&T) -> [u64; 3], seen: &mut Seen) -> String {
    let pk = t.peak();
    let is = t.intermediate_start();
    let ie = t.intermediate_end();
    for (name, tup) in [("peak", Some(&pk)), ("intermediate_start", is.as_ref()), ("intermediate_end", ie.as_ref())] {
        if let Some(tup) = tup {
            if !inside(table, tup.values()) && seen.outside.is_none() {
                seen.outside = Some(format!("{name} tuple of {} values outside the table", tup.len()));
            }
        }
    }
    let sc = match t.compute_scalar(coords) {
        Some(f) => f.to_bits().to_string(),
        None => "n".into(),
    };
    let f32s = if t.compute_scalar_f32(coords).is_some() { "s" } else { "n" };
    let all = t.has_deltas_for_all_points() as u8;
    let pn = t.point_numbers();
    let pts = format!("{}.{}", pn.len(), fnv(pn.take(300).map(|p| p as u64)));
    // every byte of packed deltas yields at most 64 values
    let cap = 64 * table.len() + 65;
    let mut n = 0usize;
    let mut h = 0xcbf2_9ce4_8422_2325u64;
    for d in t.deltas() {
        n += 1;
        if n > cap {
            if seen.over.is_none() {
                seen.over = Some(format!("deltas: more than {cap} items"));
            }
            break;
        }
        for x in parts(&d) {
            h = (h ^ x).wrapping_mul(0x0000_0100_0000_01b3);
        }
    }
    format!("{}:{}:{}:{}:{}:{}:{}:{}.{}", tup_digest(&pk), opt_tup(&is), opt_tup(&ie), sc, f32s, all, pts, n, h)
}

fn render_tvd<'a, T: TupleDelta>(table: &[u8], count_bits: u16, shared_pts: String, tvd: &TupleVariationData<'a, T>, coords: &'a [F2Dot14], parts: &dyn Fn(&T) -> [u64; 3], seen: &mut Seen) -> String {
    // at most `count & 0x0FFF` tuples, each with a header of at least 4 bytes
    let cap = ((count_bits & 0x0FFF) as usize).min(table.len() / 4);
    let mut out = vec![];
    let mut n = 0usize;
    for t in tvd.tuples() {
        n += 1;
        if n > cap {
            if seen.over.is_none() {
                seen.over = Some(format!("tuples: more than {cap} items"));
            }
            break;
        }
        out.push(render_tuple(table, &t, coords, parts, seen));
    }
    let mut act = vec![];
    for (_, s) in tvd.active_tuples_at(coords) {
        act.push(s.to_bits() as u32 as u64);
        if act.len() > cap {
            if seen.over.is_none() {
                seen.over = Some(format!("active_tuples_at: more than {cap} items"));
            }
            break;
        }
    }
    let head = format!("{} {} {} a{}.{}", count_bits, shared_pts, n, act.len(), fnv(act.iter().copied()));
    std::iter::once(head).chain(out).collect::<Vec<_>>().join(" | ")
}

/// what `Ctx::call` does before the real call: the watchdog (hang) and the crash tracer learn the input
fn begin(req: &str) {
    PROGRESS.fetch_add(1, Ordering::Relaxed);
    {
        let mut cur = CURRENT.lock().unwrap();
        cur.0.clear();
        cur.0.push_str(req);
        cur.1.clear();
    }
    if let Some(t) = TRACE.lock().unwrap().as_mut() {
        use std::io::Write;
        let _ = writeln!(t, "{req}");
        let _ = t.flush();
    }
}

/// record one case + the oracles of the call
fn settle(ctx: &mut Ctx, req: String, bytes: &[u8], r: Result<(String, Seen), String>) {
    PROGRESS.fetch_add(1, Ordering::Relaxed);
    match r {
        Ok((s, seen)) => {
            ctx.oracle("no-panic", true, String::new, String::new);
            ctx.oracle("iter-bounded", seen.over.is_none(), || format!("{req} [{}]", hex(bytes)), || seen.over.clone().unwrap_or_default());
            ctx.oracle("slice-inside-data", seen.outside.is_none(), || format!("{req} [{}]", hex(bytes)), || seen.outside.clone().unwrap_or_default());
            classify(ctx, &req, &s);
            ctx.case(req, s);
        }
        Err(m) => ctx.oracle("no-panic", false, || format!("{req} [{}]", hex(bytes)), || m.clone()),
    }
}

/// branch distribution: which kinds of results each command produced (`<cmd>.<kind>`: error kinds,
/// `none` / `n` answers, values, non-zero values)
fn classify(ctx: &mut Ctx, req: &str, resp: &str) {
    let mut words = req.split(' ');
    let mut cmd = words.next().unwrap_or("").trim_start_matches("hv.").to_string();
    if cmd == "acc" {
        // dense / sparse and the coordinate type separately
        cmd = format!("acc.{}{}", words.next().unwrap_or(""), words.next().unwrap_or(""));
    }
    let mut kinds: Vec<&'static str> = vec![];
    for tok in resp.split(|c: char| c == ' ' || c == '|' || c == ':' || c == '/' || c == '+') {
        let k = match tok {
            "" | "-" => continue,
            "eO" => "err-oob",
            "eN" => "err-null",
            "eM" => "err-malformed",
            "eT" => "err-metric-missing",
            "n" | "none" => "none",
            "trap" => "trap",
            "notuple" => "no-such-tuple",
            "s" | "ok" => "some",
            "0" => "zero",
            t if t.starts_with("eF") => "err-format",
            t if t.starts_with("eI") => "err-index",
            t if t.starts_with("e?") => "err-OTHER",
            t if t.starts_with('a') => continue,
            _ => "value",
        };
        if !kinds.contains(&k) {
            kinds.push(k);
        }
    }
    for k in kinds {
        ctx.count(&format!("{cmd}.{k}"));
    }
    ctx.count(&format!("{cmd}.cases"));
}

// ------------------------------------------------------------------------------------------------
// TupleVariationHeader: `hv.tvhdr <axis_count> <hex>`

fn ask_tvhdr(ctx: &mut Ctx, ac: u16, bytes: &[u8]) {
    let req = format!("hv.tvhdr {} {}", ac, hex(bytes));
    begin(&req);
    let r = catch(|| {
        let mut seen = Seen::default();
        let s = match TupleVariationHeader::read(FontData::new(bytes), ac) {
            Err(e) => err_str(&e),
            Ok(h) => {
                let pk = h.peak_tuple();
                let is = h.intermediate_start_tuple();
                let ie = h.intermediate_end_tuple();
                for t in [&pk, &is, &ie].into_iter().flatten() {
                    if t.len() != ac as usize && seen.over.is_none() {
                        seen.over = Some(format!("embedded tuple with {} values for {} axes", t.len(), ac));
                    }
                    if !inside(bytes, t.values()) && seen.outside.is_none() {
                        seen.outside = Some(format!("embedded tuple of {} values outside the header data", t.len()));
                    }
                }
                let both = match h.intermediate_tuples() {
                    Some((a, b)) => format!("{}+{}", tup_digest(&a), tup_digest(&b)),
                    None => "n".into(),
                };
                format!("{} {} {} {} {} {}", h.variation_data_size(), h.tuple_index().bits(), opt_tup(&pk), opt_tup(&is), opt_tup(&ie), both)
            }
        };
        (s, seen)
    });
    settle(ctx, req, bytes, r);
}

fn run_tvhdr(ctx: &mut Ctx) {
    for flags in [0u16, 0x8000, 0x4000, 0xC000, 0x2000, 0xE000, 0xFFFF, 0x0FFF, 0x8001] {
        for ac in [0u16, 1, 3] {
            let mut b = B::new();
            b.f16(ctx.rng.below(40) as u16).f16(flags);
            let n = (flags & 0x8000 != 0) as usize + 2 * (flags & 0x4000 != 0) as usize;
            for _ in 0..n * ac as usize {
                b.i16(rcoord(&mut ctx.rng));
            }
            b.bytes(&rbytes(&mut ctx.rng, 4));
            for v in variants(&mut ctx.rng, &b, 4) {
                ask_tvhdr(ctx, ac, &v);
                ask_tvhdr(ctx, if v.len() % 2 == 0 { ac + 1 } else { ac.saturating_sub(1) }, &v);
            }
            ctx.count(&format!("tvhdr.flags{:x}", flags >> 12));
        }
    }
    // axis counts far beyond the data
    for ac in [0x7FFFu16, 0x8000, 0xFFFF] {
        for flags in [0x8000u16, 0xC000, 0x4000, 0] {
            let mut v = vec![0, 4];
            v.extend_from_slice(&flags.to_be_bytes());
            v.extend_from_slice(&[1, 2, 3, 4, 5, 6, 7]);
            ask_tvhdr(ctx, ac, &v);
        }
    }
}

// ------------------------------------------------------------------------------------------------
// cvar: `hv.cvar <axis_count> <hex> <coords…>`

fn ask_cvar(ctx: &mut Ctx, ac: u16, coords: &[i16], bytes: &[u8]) {
    let req = format!("hv.cvar {} {}{}", ac, hex(bytes), coord_args(coords));
    begin(&req);
    let cs = f2(coords);
    let r = catch(|| {
        let mut seen = Seen::default();
        let s = match Cvar::read(FontData::new(bytes)).and_then(|c| c.variation_data(ac).map(|d| (c, d))) {
            Err(e) => err_str(&e),
            Ok((cvar, tvd)) => {
                let bits = cvar.tuple_variation_count().bits();
                // the shared point numbers are not exposed: a tuple without private numbers shows them
                render_tvd(bytes, bits, shared_pts_of(bytes, 4, 6), &tvd, &cs, &|d| [d.position as u64, d.value as u32 as u64, 0], &mut seen)
            }
        };
        (s, seen)
    });
    settle(ctx, req, bytes, r);
}

/// number of shared points as the first two bytes of the serialized data say (`-` = no shared
/// points); independent re-computation from the bytes: count field at `cpos`, data offset at `opos`
fn shared_pts_of(table: &[u8], cpos: usize, opos: usize) -> String {
    let count = u16::from_be_bytes([table[cpos], table[cpos + 1]]);
    if count & 0x8000 == 0 {
        return "-".into();
    }
    let off = u16::from_be_bytes([table[opos], table[opos + 1]]) as usize;
    let d = &table[off..];
    let n = match d.first() {
        None | Some(0) => 0,
        Some(b) if *b < 128 => *b as u16,
        Some(b) => d.get(1).map(|c| (((*b as u16) << 8) | *c as u16) & 0x7FFF).unwrap_or(0),
    };
    n.to_string()
}

fn run_cvar(ctx: &mut Ctx) {
    let rounds = if ctx.thorough { 60 } else { 12 };
    for round in 0..rounds {
        let ac = match round % 6 {
            0 => 0,
            1 => 1,
            5 => 7,
            _ => 1 + ctx.rng.below(3) as u16,
        };
        let mut b = B::new();
        b.u16(1).u16(0);
        let n_cvt = 1 + ctx.rng.below(12) as usize;
        let store = tuple_store(&mut ctx.rng, ac, false, 0, 4, n_cvt);
        b.append(&store);
        let coords = rcoords(&mut ctx.rng, ac);
        for (k, v) in variants(&mut ctx.rng, &b, 8).into_iter().enumerate() {
            ask_cvar(ctx, ac, &coords, &v);
            if k == 0 {
                // other axis counts and coordinate slices on the intact table
                ask_cvar(ctx, ac + 1, &coords, &v);
                ask_cvar(ctx, ac.saturating_sub(1), &coords, &v);
                ask_cvar(ctx, ac, &[], &v);
                ask_cvar(ctx, 0xFFFF, &coords, &v);
            }
        }
        ctx.count(&format!("cvar.axes{}", ac.min(4)));
    }
}

/// `Cvar::deltas`: `hv.cvard <axis_count> <n> <hex> <coords…>` with the buffer `[MAX, MIN, 0, …]`
fn ask_cvard(ctx: &mut Ctx, ac: u16, n: usize, coords: &[i16], bytes: &[u8]) {
    let req = format!("hv.cvard {} {} {}{}", ac, n, hex(bytes), coord_args(coords));
    begin(&req);
    let cs = f2(coords);
    let r = catch(|| {
        let s = match Cvar::read(FontData::new(bytes)) {
            Err(e) => err_str(&e),
            Ok(cvar) => {
                let mut buf = vec![0i32; n];
                if n > 0 {
                    buf[0] = i32::MAX;
                }
                if n > 1 {
                    buf[1] = i32::MIN;
                }
                match cvar.deltas(ac, &cs, &mut buf) {
                    Err(e) => err_str(&e),
                    Ok(()) => format!("{}.{} {}", n, fnv(buf.iter().map(|v| *v as u32 as u64)), join(&buf[..n.min(4)])),
                }
            }
        };
        (s, Seen::default())
    });
    settle(ctx, req, bytes, r);
}

// ------------------------------------------------------------------------------------------------
// gvar: `hv.gvarhdr <hex> <gids…>`, `hv.gvar <gid> <hex> <coords…>`

struct GvarSpec {
    axis_count: u16,
    n_shared: u16,
    glyphs: Vec<Vec<u8>>,
    long: bool,
}

fn gvar_table(rng: &mut Rng, s: &GvarSpec) -> B {
    let mut b = B::new();
    b.u16(1).u16(0);
    b.f16(s.axis_count).f16(s.n_shared).f32(0);
    b.f16(s.glyphs.len() as u16).f16(s.long as u16).f32(0);
    let mut off = 0u32;
    for k in 0..=s.glyphs.len() {
        if s.long {
            b.f32(off);
        } else {
            b.f16((off / 2) as u16);
        }
        if k < s.glyphs.len() {
            off += s.glyphs[k].len() as u32;
        }
    }
    let at = b.len();
    b.set32(8, at as u32);
    for _ in 0..s.n_shared as usize * s.axis_count as usize {
        b.i16(rcoord(rng));
    }
    let at = b.len();
    b.set32(16, at as u32);
    for g in &s.glyphs {
        // the glyph's own count / offset fields take part in the boundary values
        let at = b.len();
        b.bytes(g);
        if g.len() >= 4 {
            b.mark(at, 2);
            b.mark(at + 2, 2);
        }
    }
    b
}

fn ask_gvarhdr(ctx: &mut Ctx, gids: &[u32], bytes: &[u8]) {
    let req = format!("hv.gvarhdr {} {}", hex(bytes), join(gids));
    begin(&req);
    let r = catch(|| {
        let mut seen = Seen::default();
        let s = match Gvar::read(FontData::new(bytes)) {
            Err(e) => err_str(&e),
            Ok(g) => {
                let st = match g.shared_tuples() {
                    Err(e) => err_str(&e),
                    Ok(st) => {
                        let tuples = st.tuples();
                        // the array's bytes: `len()` whole items plus a possible partial one are not
                        // exposed; re-read them through `get`
                        let ac = g.axis_count() as usize;
                        let count = g.shared_tuple_count() as usize;
                        let mut bytes_seen = vec![];
                        for i in 0..count {
                            if let Ok(t) = tuples.get(i) {
                                if !inside(bytes, t.values()) && seen.outside.is_none() {
                                    seen.outside = Some(format!("shared tuple {i} outside the table"));
                                }
                                for v in t.values() {
                                    bytes_seen.extend_from_slice(&v.get().to_bits().to_be_bytes());
                                }
                            }
                        }
                        if ac > 0 && tuples.len() != count && seen.over.is_none() {
                            seen.over = Some(format!("{} shared tuples for a count of {count}", tuples.len()));
                        }
                        format!("{}.{}", bytes_seen.len(), fnv(bytes_seen.iter().map(|x| *x as u64)))
                    }
                };
                let per: Vec<String> = gids
                    .iter()
                    .map(|gid| match g.data_for_gid(GlyphId::new(*gid)) {
                        Err(e) => err_str(&e),
                        Ok(None) => "n".into(),
                        Ok(Some(d)) => {
                            if !inside(bytes, d.as_bytes()) && seen.outside.is_none() {
                                seen.outside = Some(format!("data of glyph {gid} outside the table"));
                            }
                            format!("{}.{}", d.len(), fnv(d.as_bytes().iter().map(|x| *x as u64)))
                        }
                    })
                    .collect();
                format!(
                    "{} {} {} {} {} {} {} | {}",
                    g.axis_count(),
                    g.shared_tuple_count(),
                    g.glyph_count(),
                    g.flags().bits(),
                    g.glyph_variation_data_array_offset(),
                    g.glyph_variation_data_offsets().len() * if g.flags().bits() & 1 == 1 { 4 } else { 2 },
                    st,
                    per.join(" ")
                )
            }
        };
        (s, seen)
    });
    settle(ctx, req, bytes, r);
}

fn ask_gvar(ctx: &mut Ctx, gid: u32, coords: &[i16], bytes: &[u8]) {
    let req = format!("hv.gvar {} {}{}", gid, hex(bytes), coord_args(coords));
    begin(&req);
    let cs = f2(coords);
    let r = catch(|| {
        let mut seen = Seen::default();
        let s = match Gvar::read(FontData::new(bytes)).and_then(|g| g.glyph_variation_data(GlyphId::new(gid)).map(|d| (g, d))) {
            Err(e) => err_str(&e),
            Ok((_, None)) => "none".into(),
            Ok((g, Some(tvd))) => {
                // the glyph's own data starts with the count bits and the data offset
                let data = g.data_for_gid(GlyphId::new(gid)).unwrap().unwrap();
                let gb = data.as_bytes();
                let bits = u16::from_be_bytes([gb[0], gb[1]]);
                render_tvd(bytes, bits, shared_pts_of(gb, 0, 2), &tvd, &cs, &|d| [d.position as u64, d.x_delta as u32 as u64, d.y_delta as u32 as u64], &mut seen)
            }
        };
        (s, seen)
    });
    settle(ctx, req, bytes, r);
}

fn run_gvar(ctx: &mut Ctx) {
    let rounds = if ctx.thorough { 30 } else { 8 };
    for round in 0..rounds {
        let axis_count = match round % 5 {
            0 => 0,
            1 => 1,
            _ => 1 + ctx.rng.below(3) as u16,
        };
        let n_shared = if round % 3 == 0 { 0 } else { 1 + ctx.rng.below(3) as u16 };
        let long = round % 2 == 0;
        let n_points = 1 + ctx.rng.below(9) as usize;
        let n_glyphs = 1 + ctx.rng.below(3) as usize;
        let mut glyphs = vec![];
        for k in 0..n_glyphs {
            if ctx.rng.chance(1, 4) && k != 0 {
                glyphs.push(vec![]);
                continue;
            }
            let t = tuple_store(&mut ctx.rng, axis_count, true, n_shared, 0, n_points + 4);
            let mut v = t.v;
            if v.len() % 2 == 1 {
                v.push(0);
            }
            glyphs.push(v);
        }
        let spec = GvarSpec { axis_count, n_shared, glyphs, long };
        let b = gvar_table(&mut ctx.rng, &spec);
        let coords = rcoords(&mut ctx.rng, axis_count);
        let gids = edge32(&[n_glyphs as u64]);
        for (k, v) in variants(&mut ctx.rng, &b, 8).into_iter().enumerate() {
            ask_gvarhdr(ctx, &gids, &v);
            ask_gvar(ctx, (k % n_glyphs) as u32, &coords, &v);
            if k == 0 {
                for gid in &gids {
                    ask_gvar(ctx, *gid, &coords, &v);
                }
                ask_gvar(ctx, 0, &[], &v);
            }
        }
        // hostile offset arrays: descending, beyond the data, all equal, random
        for variant in 0..4 {
            let mut m = b.clone();
            let w = if long { 4 } else { 2 };
            for k in 0..=n_glyphs {
                let pos = 20 + k * w;
                let v: u32 = match variant {
                    0 => ((n_glyphs - k) * 6) as u32,
                    1 => b.len() as u32 + k as u32 * 2,
                    2 => 4,
                    _ => ctx.rng.below(b.len() as u64 + 8) as u32,
                };
                if long {
                    m.set32(pos, v);
                } else {
                    m.set16(pos, (v / 2) as u16);
                }
            }
            ask_gvarhdr(ctx, &gids, &m.v);
            for gid in 0..n_glyphs as u32 {
                ask_gvar(ctx, gid, &coords, &m.v);
            }
        }
        ctx.count(if long { "gvar.long" } else { "gvar.short" });
    }
    // data array offset near u32::MAX: the checked additions
    for (dao, o0, o1) in [(0xFFFF_FFF0u32, 0x10u32, 0x20u32), (0xFFFF_FFFF, 0, 1), (0x20, 0xFFFF_FFE0, 0xFFFF_FFF0), (0x7FFF_FFFF, 0x7FFF_FFFF, 0x8000_0001), (24, 0, 8)] {
        let mut b = B::new();
        b.u16(1).u16(0).u16(1).u16(0).u32(0).u16(1).u16(1).u32(dao).u32(o0).u32(o1);
        b.bytes(&[0, 0, 0, 4, 0, 0, 0, 0]);
        ask_gvarhdr(ctx, &[0, 1, 2], &b.v);
        ask_gvar(ctx, 0, &[0x4000], &b.v);
        ctx.count("gvar.big-offsets");
    }
}

fn run_cvard(ctx: &mut Ctx) {
    let rounds = if ctx.thorough { 40 } else { 6 };
    for round in 0..rounds {
        let ac = match round % 4 {
            0 => 0,
            _ => 1 + ctx.rng.below(3) as u16,
        };
        let mut b = B::new();
        b.u16(1).u16(0);
        let n_cvt = 1 + ctx.rng.below(12) as usize;
        let store = tuple_store(&mut ctx.rng, ac, false, 0, 4, n_cvt);
        b.append(&store);
        let coords = rcoords(&mut ctx.rng, ac);
        for (k, v) in variants(&mut ctx.rng, &b, 6).into_iter().enumerate() {
            ask_cvard(ctx, ac, [n_cvt, 0, 1, 300][k % 4], &coords, &v);
        }
        ctx.count("cvard");
    }
}

// ------------------------------------------------------------------------------------------------
// DeltaSetIndexMap: `hv.dsim <hex> <indices…>`

fn dsim_bytes(rng: &mut Rng, format: u8, entry_format: u8, map_count: u32) -> B {
    let mut b = B::new();
    b.f8(format).f8(entry_format);
    if format == 0 {
        b.f16(map_count as u16);
    } else {
        b.f32(map_count);
    }
    let entry_size = ((entry_format >> 4) & 3) as usize + 1;
    b.bytes(&rng.bytes(entry_size * map_count as usize));
    b
}

fn ask_dsim(ctx: &mut Ctx, idxs: &[u32], bytes: &[u8]) {
    let req = format!("hv.dsim {} {}", hex(bytes), join(idxs));
    begin(&req);
    let r = catch(|| {
        let mut seen = Seen::default();
        let s = match DeltaSetIndexMap::read(FontData::new(bytes)) {
            Err(e) => err_str(&e),
            Ok(m) => {
                let ef = m.entry_format();
                let (fmt, mc) = match &m {
                    DeltaSetIndexMap::Format0(f) => (0, f.map_count() as u32),
                    DeltaSetIndexMap::Format1(f) => (1, f.map_count()),
                };
                if !inside(bytes, m.map_data()) {
                    seen.outside = Some("map_data outside the table".into());
                }
                let last = m.get(mc.saturating_sub(1));
                let per: Vec<String> = idxs
                    .iter()
                    .map(|i| {
                        let r = m.get(*i);
                        // an index at or beyond map_count uses the last entry
                        if *i >= mc && mc > 0 && r != last && seen.over.is_none() {
                            seen.over = Some(format!("get({i}) differs from the last entry"));
                        }
                        match r {
                            Ok(ix) => format!("{}:{}", ix.outer, ix.inner),
                            Err(e) => err_str(&e),
                        }
                    })
                    .collect();
                format!("{} {} {} {} {} {} | {}", fmt, ef.bits(), ef.entry_size(), ef.bit_count(), mc, m.map_data().len(), per.join(" "))
            }
        };
        (s, seen)
    });
    settle(ctx, req, bytes, r);
}

fn run_dsim(ctx: &mut Ctx) {
    // every entry format (entry size 1..4 × inner bit count 1..16) × both formats
    for ef in 0..=0x3Fu8 {
        for format in [0u8, 1] {
            let mc = match (ef as u32 + format as u32) % 4 {
                0 => 0,
                1 => 1,
                _ => 2 + ctx.rng.below(4) as u32,
            };
            let reserved = if ctx.rng.chance(1, 8) { 0xC0 } else { 0 };
            let b = dsim_bytes(&mut ctx.rng, format, ef | reserved, mc);
            let idxs = edge32(&[mc as u64, b.len() as u64]);
            if ef % 8 == format {
                for v in variants(&mut ctx.rng, &b, 4) {
                    ask_dsim(ctx, &idxs, &v);
                }
            } else {
                ask_dsim(ctx, &idxs, &b.v);
            }
            ctx.count(&format!("dsim.format{format}.size{}", ((ef >> 4) & 3) + 1));
        }
    }
    // large maps: count × entry size around the data length, format 1 counts up to u32::MAX
    for (format, ef, mc, data) in [(1u8, 0x30u8, u32::MAX, 8usize), (1, 0x30, 0x4000_0000, 16), (1, 0x00, 0x100, 0x100), (0, 0x3F, 0x40, 0x40 * 4), (0, 0x10, 0xFFFF, 30), (1, 0x20, 3, 8), (1, 0x20, 3, 9), (2, 0, 0, 4), (0xFF, 0, 0, 4)] {
        let mut b = B::new();
        b.u8(format).u8(ef);
        if format == 0 {
            b.u16(mc as u16);
        } else {
            b.u32(mc);
        }
        b.bytes(&ctx.rng.bytes(data));
        ask_dsim(ctx, &edge32(&[mc as u64]), &b.v);
        ctx.count("dsim.big");
    }
}

// ------------------------------------------------------------------------------------------------
// ItemVariationStore: `hv.ivs <hex> <2k> <outer inner>… <coords…>`

fn row_len(word_delta_count: u16, region_index_count: u16) -> usize {
    let long = word_delta_count & 0x8000 != 0;
    let words = (word_delta_count & 0x7FFF) as usize;
    let shorts = (region_index_count as usize).saturating_sub(words);
    if long {
        words * 4 + shorts * 2
    } else {
        words * 2 + shorts
    }
}

/// returns the store and (item_count, region_index_count) per subtable
fn ivs(rng: &mut Rng, axis_count: u16, n_regions: u16, n_data: usize, min_items: u16) -> (B, Vec<(u16, u16)>) {
    let mut b = B::new();
    b.u16(1).f32(0).f16(n_data as u16);
    let offs = b.len();
    for _ in 0..n_data {
        b.f32(0);
    }
    let at = b.len();
    b.set32(2, at as u32);
    b.f16(axis_count).f16(n_regions);
    for _ in 0..n_regions {
        for _ in 0..axis_count {
            let vals: [i16; 3] = match rng.below(9) {
                0..=2 => [0, 0x4000, 0x4000],
                3 => [-0x4000, -0x4000, 0],
                4 | 5 => [0, 0x2000, 0x4000],
                6 => [-0x4000, 0x2000, 0x4000],
                7 => [0, 0, 0],
                _ => [rcoord(rng), rcoord(rng), rcoord(rng)],
            };
            b.i16(vals[0]).i16(vals[1]).i16(vals[2]);
        }
    }
    let mut shapes = vec![];
    for k in 0..n_data {
        if min_items == 0 && rng.chance(1, 8) {
            shapes.push((0, 0));
            continue;
        }
        let at = b.len();
        b.set32(offs + 4 * k, at as u32);
        let item_count = if min_items > 0 { min_items + rng.below(2) as u16 } else if rng.chance(1, 6) { 0 } else { 1 + rng.below(3) as u16 };
        let nri = match rng.below(6) {
            0 => 0,
            1 => 17 + rng.below(3) as u16,
            _ => 1 + rng.below(4) as u16,
        };
        let mut word = match rng.below(6) {
            0 => nri + 1 + rng.below(3) as u16,
            1 => 0,
            2 => nri,
            _ => rng.below(nri as u64 + 1) as u16,
        };
        if rng.chance(1, 3) {
            word |= 0x8000;
        }
        b.f16(item_count).f16(word).f16(nri);
        for _ in 0..nri {
            b.u16(if n_regions == 0 || rng.chance(1, 8) { rng.below(n_regions as u64 + 3) as u16 } else { rng.below(n_regions as u64) as u16 });
        }
        let n = row_len(word, nri) * item_count as usize;
        let mut bytes = rng.bytes(n);
        if rng.chance(1, 4) {
            for x in bytes.iter_mut() {
                *x = *rng.pick(&[0x7Fu8, 0x80, 0xFF, 0]);
            }
        }
        b.bytes(&bytes);
        shapes.push((item_count, nri));
    }
    (b, shapes)
}

fn ask_ivs(ctx: &mut Ctx, pairs: &[(u16, u16)], coords: &[i16], bytes: &[u8]) {
    let flat: Vec<u16> = pairs.iter().flat_map(|(a, b)| [*a, *b]).collect();
    let req = format!("hv.ivs {} {} {}{}", hex(bytes), flat.len(), join(&flat).trim_end_matches('-').trim_end(), coord_args(coords)).replace("  ", " ");
    begin(&req);
    let cs = f2(coords);
    let r = catch(|| {
        let s = match ItemVariationStore::read(FontData::new(bytes)) {
            Err(e) => err_str(&e),
            Ok(store) => {
                let per: Vec<String> = pairs
                    .iter()
                    .map(|(o, i)| {
                        let ix = DeltaSetIndex { outer: *o, inner: *i };
                        let a = match store.compute_delta(ix, &cs) {
                            Ok(v) => v.to_string(),
                            Err(e) => err_str(&e),
                        };
                        let f = match store.compute_float_delta(ix, &cs) {
                            Ok(_) => "ok".to_string(),
                            Err(e) => err_str(&e),
                        };
                        format!("{a}/{f}")
                    })
                    .collect();
                if per.is_empty() {
                    "-".into()
                } else {
                    per.join(" ")
                }
            }
        };
        (s, Seen::default())
    });
    settle(ctx, req, bytes, r);
}

fn run_ivs(ctx: &mut Ctx) {
    let rounds = if ctx.thorough { 40 } else { 10 };
    for round in 0..rounds {
        let ac = match round % 5 {
            0 => 0,
            1 => 1,
            _ => 1 + ctx.rng.below(3) as u16,
        };
        let n_regions = match round % 4 {
            0 => 0,
            _ => 1 + ctx.rng.below(4) as u16,
        };
        let n_data = 1 + ctx.rng.below(3) as usize;
        let (b, shapes) = ivs(&mut ctx.rng, ac, n_regions, n_data, 0);
        let coords = if round % 3 == 2 { rcoords(&mut ctx.rng, ac.max(1)) } else { hot_coords(&mut ctx.rng, ac.max(1)) };
        // boundary outer / inner indices
        let mut pairs: Vec<(u16, u16)> = vec![(n_data as u16, 0), (0xFFFF, 0xFFFF), (n_data as u16 - 1, 0xFFFF)];
        for (k, (ic, _)) in shapes.iter().enumerate() {
            for inner in [0u16, ic.saturating_sub(1), *ic, ic + 1] {
                pairs.push((k as u16, inner));
            }
        }
        pairs.sort();
        pairs.dedup();
        for (k, v) in variants(&mut ctx.rng, &b, 8).into_iter().enumerate() {
            if k == 0 {
                ask_ivs(ctx, &pairs, &coords, &v);
                ask_ivs(ctx, &pairs, &[], &v);
                ask_ivs(ctx, &pairs, &[0x4000], &v);
            } else {
                let p = [pairs[k % pairs.len()], pairs[(k / 3) % pairs.len()]];
                ask_ivs(ctx, &p, &coords, &v);
            }
        }
        ctx.count(&format!("ivs.axes{}", ac.min(3)));
    }
}

// ------------------------------------------------------------------------------------------------
// HVAR / VVAR: `hv.metrics <h|v> <which> <hex> <n> <gids…> <coords…>`

fn metrics_var_table(rng: &mut Rng, n_maps: usize, axis_count: u16) -> B {
    let mut b = B::new();
    b.u16(1).u16(0).f32(0);
    for _ in 0..n_maps {
        b.f32(0);
    }
    let (nr, n_data) = (1 + rng.below(3) as u16, 1 + rng.below(2) as usize);
    let min_items = if rng.chance(3, 4) { 3 } else { 0 };
    let (store, _) = ivs(rng, axis_count, nr, n_data, min_items);
    let at = b.append(&store);
    b.set32(4, at as u32);
    for k in 0..n_maps {
        match rng.below(5) {
            0 => {}
            1 if k > 0 => {
                let prev = u32::from_be_bytes(b.v[8 + 4 * (k - 1)..12 + 4 * (k - 1)].try_into().unwrap());
                b.set32(8 + 4 * k, prev);
            }
            2 => {
                let ef = (rng.below(4) as u8) << 4 | rng.below(16) as u8;
                let (f, mc) = (rng.below(2) as u8, rng.below(5) as u32);
                let m = dsim_bytes(rng, f, ef, mc);
                let at = b.append(&m);
                b.set32(8 + 4 * k, at as u32);
            }
            _ => {
                // entries that point into the store: 2 byte entries, 8 bit inner index
                let (f, mc) = (rng.below(2) as u8, 1 + rng.below(5) as u32);
                let mut m = B::new();
                m.f8(f).f8(0x17);
                if f == 0 {
                    m.f16(mc as u16);
                } else {
                    m.f32(mc);
                }
                for _ in 0..mc {
                    m.u8(if rng.chance(1, 6) { n_data as u8 } else { rng.below(n_data as u64) as u8 }).u8(rng.below(3) as u8);
                }
                let at = b.append(&m);
                b.set32(8 + 4 * k, at as u32);
            }
        }
    }
    b
}

fn ask_metrics(ctx: &mut Ctx, vvar: bool, which: usize, gids: &[u32], coords: &[i16], bytes: &[u8]) {
    let req = format!("hv.metrics {} {} {} {} {}{}", if vvar { "v" } else { "h" }, which, hex(bytes), gids.len(), join(gids), coord_args(coords));
    begin(&req);
    let cs = f2(coords);
    let fx = |r: Result<Fixed, ReadError>| match r {
        Ok(v) => v.to_bits().to_string(),
        Err(e) => err_str(&e),
    };
    let r = catch(|| {
        let per: Vec<String> = if vvar {
            match Vvar::read(FontData::new(bytes)) {
                Err(e) => gids.iter().map(|_| err_str(&e)).collect(),
                Ok(t) => gids
                    .iter()
                    .map(|g| {
                        let g = GlyphId::new(*g);
                        fx(match which {
                            0 => t.advance_height_delta(g, &cs),
                            1 => t.tsb_delta(g, &cs),
                            2 => t.bsb_delta(g, &cs),
                            _ => t.v_org_delta(g, &cs),
                        })
                    })
                    .collect(),
            }
        } else {
            match Hvar::read(FontData::new(bytes)) {
                Err(e) => gids.iter().map(|_| err_str(&e)).collect(),
                Ok(t) => gids
                    .iter()
                    .map(|g| {
                        let g = GlyphId::new(*g);
                        fx(match which {
                            0 => t.advance_width_delta(g, &cs),
                            1 => t.lsb_delta(g, &cs),
                            _ => t.rsb_delta(g, &cs),
                        })
                    })
                    .collect(),
            }
        };
        (per.join(" "), Seen::default())
    });
    settle(ctx, req, bytes, r);
}

fn run_metrics(ctx: &mut Ctx) {
    let rounds = if ctx.thorough { 24 } else { 6 };
    for round in 0..rounds {
        let vvar = round % 2 == 1;
        let n_maps = if vvar { 4 } else { 3 };
        let ac = 1 + ctx.rng.below(2) as u16;
        let b = metrics_var_table(&mut ctx.rng, n_maps, ac);
        let coords = hot_coords(&mut ctx.rng, ac);
        let gids: Vec<u32> = vec![0, 1, 2, 3, 4, 5, 0xFFFF, 0x10000, 0x10001, u32::MAX];
        for (k, v) in variants(&mut ctx.rng, &b, 8).into_iter().enumerate() {
            if k == 0 {
                for which in 0..n_maps {
                    ask_metrics(ctx, vvar, which, &gids, &coords, &v);
                    ask_metrics(ctx, vvar, which, &gids, &[], &v);
                }
            } else {
                ask_metrics(ctx, vvar, k % n_maps, &gids[k % 3..k % 3 + 4], &coords, &v);
            }
        }
        ctx.count(if vvar { "metrics.vvar" } else { "metrics.hvar" });
    }
}

// ------------------------------------------------------------------------------------------------
// MVAR: `hv.mvar <hex> <n> <tags as u32…> <coords…>`

const MVAR_TAGS: [&[u8; 4]; 10] = [b"hasc", b"hdsc", b"hlgp", b"xhgt", b"cpht", b"undo", b"unds", b"stro", b"strs", b"gsp0"];

fn ask_mvar(ctx: &mut Ctx, tags: &[u32], coords: &[i16], bytes: &[u8]) {
    let req = format!("hv.mvar {} {} {}{}", hex(bytes), tags.len(), join(tags), coord_args(coords));
    begin(&req);
    let cs = f2(coords);
    let r = catch(|| {
        let per: Vec<String> = match Mvar::read(FontData::new(bytes)) {
            Err(e) => tags.iter().map(|_| err_str(&e)).collect(),
            Ok(t) => tags
                .iter()
                .map(|tag| match t.metric_delta(Tag::from_be_bytes(tag.to_be_bytes()), &cs) {
                    Ok(v) => v.to_bits().to_string(),
                    Err(e) => err_str(&e),
                })
                .collect(),
        };
        (per.join(" "), Seen::default())
    });
    settle(ctx, req, bytes, r);
}

fn run_mvar(ctx: &mut Ctx) {
    let rounds = if ctx.thorough { 32 } else { 6 };
    for round in 0..rounds {
        let n = [3usize, 1, 10, 0, 5, 2, 8, 4][round % 8];
        let mut tags: Vec<[u8; 4]> = MVAR_TAGS.iter().map(|t| **t).collect();
        ctx.rng.shuffle(&mut tags);
        tags.truncate(n);
        // the search is only meaningful on sorted records; every 4th table is left unsorted
        if round % 4 != 3 {
            tags.sort();
        }
        let ac = 1 + ctx.rng.below(2) as u16;
        let mut b = B::new();
        b.u16(1).u16(0).u16(0).f16(8).f16(tags.len() as u16).f16(0);
        for t in &tags {
            b.tag(t).u16(ctx.rng.below(2) as u16).u16(ctx.rng.below(2) as u16);
        }
        if round % 5 != 4 {
            let (nr, nd) = (1 + ctx.rng.below(3) as u16, 1 + ctx.rng.below(2) as usize);
            let min_items = if ctx.rng.chance(3, 4) { 2 } else { 0 };
            let (store, _) = ivs(&mut ctx.rng, ac, nr, nd, min_items);
            let at = b.append(&store);
            b.set16(10, at as u16);
        }
        let coords = hot_coords(&mut ctx.rng, ac);
        let mut asks: Vec<u32> = MVAR_TAGS.iter().map(|t| u32::from_be_bytes(**t)).collect();
        asks.extend([0, 1, u32::MAX, u32::from_be_bytes(*b"hasb"), u32::from_be_bytes(*b"hasd"), u32::from_be_bytes(*b"zzzz")]);
        for (k, v) in variants(&mut ctx.rng, &b, 8).into_iter().enumerate() {
            if k == 0 {
                ask_mvar(ctx, &asks, &coords, &v);
                ask_mvar(ctx, &asks, &[], &v);
            } else {
                ask_mvar(ctx, &asks[k % 5..k % 5 + 6], &coords, &v);
            }
        }
        ctx.count(&format!("mvar.records{}", n.min(4)));
    }
}

// ------------------------------------------------------------------------------------------------
// avar SegmentMaps: `hv.avar <hex> <coords as Fixed bits…>`

fn ask_avar(ctx: &mut Ctx, coords: &[i32], bytes: &[u8]) {
    let req = format!("hv.avar {} {}", hex(bytes), join(coords));
    begin(&req);
    let r = catch(|| {
        let per: Vec<String> = match SegmentMaps::read(FontData::new(bytes)) {
            Err(e) => coords.iter().map(|_| err_str(&e)).collect(),
            Ok(m) => coords.iter().map(|c| m.apply(Fixed::from_bits(*c)).to_bits().to_string()).collect(),
        };
        (per.join(" "), Seen::default())
    });
    settle(ctx, req, bytes, r);
}

fn run_avar(ctx: &mut Ctx) {
    let rounds = if ctx.thorough { 200 } else { 40 };
    for round in 0..rounds {
        let n = match round % 6 {
            0 => 0,
            1 => 1,
            2 => 3,
            _ => 2 + ctx.rng.below(5) as usize,
        };
        let mut b = B::new();
        b.f16(n as u16);
        let mut from: Vec<i16> = (0..n).map(|_| rcoord(&mut ctx.rng)).collect();
        match ctx.rng.below(4) {
            0 => {}
            1 if n > 1 => {
                from.sort();
                from[n - 1] = from[n - 2];
            }
            _ => from.sort(),
        }
        let mut coords: Vec<i32> = vec![0, 0x10000, -0x10000, 1, -1, i32::MAX, i32::MIN, 0x8000];
        for f in &from {
            let c = *f as i32 * 4;
            coords.extend([c - 1, c, c + 1]);
        }
        for f in from {
            b.i16(f).i16(rcoord(&mut ctx.rng));
        }
        b.bytes(&rbytes(&mut ctx.rng, 3));
        for v in variants(&mut ctx.rng, &b, 2) {
            ask_avar(ctx, &coords, &v);
        }
        ctx.count(&format!("avar.maps{}", n.min(4)));
    }
}

// ------------------------------------------------------------------------------------------------
// accumulate_dense_deltas / accumulate_sparse_deltas:
// `hv.acc <d|s> <f|s|i> <scalar> <n> <nf> <gid> <k> <hex>`

fn acc_one<D: PointCoord>(t: &TupleVariation<GlyphDelta>, sparse: bool, n: usize, nf: usize, scalar: Fixed, seed: D, bits: &dyn Fn(D) -> u64) -> String {
    let mut deltas = vec![Point::new(seed, seed); n];
    let mut flags = vec![PointFlags::default(); nf];
    let r = if sparse { t.accumulate_sparse_deltas(&mut deltas, &mut flags, scalar) } else { t.accumulate_dense_deltas(&mut deltas, scalar) };
    match r {
        Err(e) => err_str(&e),
        Ok(()) => {
            let x = fnv(deltas.iter().map(|p| bits(p.x)));
            let y = fnv(deltas.iter().map(|p| bits(p.y)));
            if sparse {
                format!("ok {} {} {}", x, y, fnv(flags.iter().map(|f| f.has_marker(PointMarker::HAS_DELTA) as u64)))
            } else {
                format!("ok {x} {y}")
            }
        }
    }
}

fn ask_acc(ctx: &mut Ctx, sparse: bool, kind: char, scalar: i32, n: usize, nf: usize, gid: u32, k: usize, bytes: &[u8]) {
    let req = format!("hv.acc {} {} {} {} {} {} {} {}", if sparse { "s" } else { "d" }, kind, scalar, n, nf, gid, k, hex(bytes));
    begin(&req);
    let r = catch(|| {
        let s = match Gvar::read(FontData::new(bytes)).and_then(|g| g.glyph_variation_data(GlyphId::new(gid))) {
            Err(e) => err_str(&e),
            Ok(None) => "none".into(),
            Ok(Some(tvd)) => match tvd.tuples().nth(k) {
                None => "notuple".into(),
                Some(t) => {
                    let sc = Fixed::from_bits(scalar);
                    match kind {
                        'f' => acc_one::<Fixed>(&t, sparse, n, nf, sc, Fixed::from_bits(7), &|v| v.to_bits() as u32 as u64),
                        's' => acc_one::<F26Dot6>(&t, sparse, n, nf, sc, F26Dot6::from_bits(7), &|v| v.to_bits() as u32 as u64),
                        _ => acc_one::<i32>(&t, sparse, n, nf, sc, 7, &|v| v as u32 as u64),
                    }
                }
            },
        };
        (s, Seen::default())
    });
    // KNOWN FINDING C01-accumulate-deltas-i32-overflow (known_findings.d/C01.json): for D = i32 the `+=`
    // of the real code overflows; the model predicts exactly these panics (`trap`), so for this
    // instantiation a panic is a response, not a no-panic failure
    let r = match (kind, r) {
        ('i', Err(m)) if m.contains("overflow") => Ok(("trap".to_string(), Seen::default())),
        (_, r) => r,
    };
    settle(ctx, req, bytes, r);
}

fn run_acc(ctx: &mut Ctx) {
    let rounds = if ctx.thorough { 30 } else { 6 };
    for round in 0..rounds {
        let axis_count = 1 + ctx.rng.below(2) as u16;
        let n_points = 1 + ctx.rng.below(9) as usize;
        let mut glyphs = vec![];
        for _ in 0..2 {
            let t = tuple_store(&mut ctx.rng, axis_count, true, 0, 0, n_points + 4);
            let mut v = t.v;
            if v.len() % 2 == 1 {
                v.push(0);
            }
            glyphs.push(v);
        }
        if round % 2 == 0 {
            // dense-friendly glyph 0: two tuples with private "all points" numbers whose x and y deltas
            // are packed separately, so that no run crosses the coordinate boundary
            let mut headers = B::new();
            let mut ser = vec![];
            for _ in 0..2 {
                let mut body = vec![0u8];
                for _ in 0..2 {
                    let vals: Vec<i32> = (0..n_points + 4).map(|_| rdelta(&mut ctx.rng)).collect();
                    body.extend(packed_deltas(&vals, &mut ctx.rng));
                }
                headers.f16(body.len() as u16).f16(0xA000);
                for _ in 0..axis_count {
                    headers.i16(rcoord(&mut ctx.rng));
                }
                ser.extend(body);
            }
            let mut g = B::new();
            g.f16(2).f16(4 + headers.len() as u16);
            g.append(&headers);
            g.bytes(&ser);
            if g.len() % 2 == 1 {
                g.u8(0);
            }
            glyphs[0] = g.v;
        }
        let spec = GvarSpec { axis_count, n_shared: 0, glyphs, long: round % 2 == 0 };
        let b = gvar_table(&mut ctx.rng, &spec);
        let total = n_points + 4;
        for (j, v) in variants(&mut ctx.rng, &b, 8).into_iter().enumerate() {
            let sparse = j % 2 == 1;
            let kind = ['f', 's', 'i'][j % 3];
            let scalar = [0x10000, 0x8000, i32::MIN, 0x10000, i32::MAX, -1][j % 6];
            let n = [total, total, 0, 1, total - 1, total + 1, 64, 400][j % 8];
            let nf = [n, n, n + 1, n.saturating_sub(1), 0][j % 5];
            ask_acc(ctx, sparse, kind, scalar, n, nf, (j % 2) as u32, (j / 2) % 2, &v);
            if j == 0 {
                // the intact table: every tuple, both modes, every type, several buffer sizes
                for gid in 0..2 {
                    for k in 0..2 {
                        for kind in ['f', 's', 'i'] {
                            for (n, nf) in [(total, total), (2, 5), (400, 3)] {
                                for scalar in [0x10000, 0x4000] {
                                    ask_acc(ctx, false, kind, scalar, n, nf, gid, k, &v);
                                    ask_acc(ctx, true, kind, scalar, n, nf, gid, k, &v);
                                }
                            }
                        }
                    }
                }
            }
        }
        ctx.count("acc");
    }
    // the known finding's own repro: a tuple that lists point 1 twice with 32 bit deltas
    let repro = unhex("00010000000000000000001c000100010000001c000000000000001e000100080016a00002010100c17fffffff7fffffffc10000000000000000");
    for kind in ['f', 's', 'i'] {
        ask_acc(ctx, true, kind, 0x10000, 4, 4, 0, 0, &repro);
        ask_acc(ctx, false, kind, 0x10000, 4, 4, 0, 0, &repro);
    }
}

// ------------------------------------------------------------------------------------------------
// Gvar::phantom_point_deltas (+ find_glyph_and_point_count):
// `hv.phantom <gid> <gvar hex> <default spec> <n> <spec…> <coords…>`

/// one generated glyph: `None` = empty, `Ok(points)` = simple, `Err(components)` = composite
type GlyphSpec = Option<Result<usize, Vec<(bool, u16)>>>;

fn glyf_loca(glyphs: &[GlyphSpec]) -> (Vec<u8>, Vec<u8>) {
    let mut g = B::new();
    let mut offs = vec![0u32];
    for spec in glyphs {
        match spec {
            None => {}
            Some(Ok(k)) => {
                g.i16(1).i16(0).i16(0).i16(100).i16(100).u16(*k as u16 - 1).u16(0);
                for _ in 0..*k {
                    g.u8(1);
                }
                for i in 0..2 * *k {
                    g.i16(i as i16 * 7 - 20);
                }
            }
            Some(Err(comps)) => {
                g.i16(-1).i16(0).i16(0).i16(100).i16(100);
                for (i, (metrics, gid)) in comps.iter().enumerate() {
                    let more = if i + 1 < comps.len() { 0x0020 } else { 0 };
                    g.u16(0x0001 | more | if *metrics { 0x0200 } else { 0 }).u16(*gid).i16(3).i16(-3);
                }
            }
        }
        if g.len() % 2 == 1 {
            g.u8(0);
        }
        offs.push(g.len() as u32);
    }
    let mut l = B::new();
    for o in offs {
        l.u32(o);
    }
    (g.v, l.v)
}

/// what the real glyf / loca code says about glyph `gid` (the parameter of the Lean model)
fn glyph_spec(glyf: &Glyf, loca: &Loca, gid: u32) -> Option<String> {
    Some(match loca.get_glyf(GlyphId::new(gid), glyf) {
        Err(ReadError::OutOfBounds) => "eO".into(),
        Err(ReadError::MalformedData(_)) => "eM".into(),
        Err(_) => return None,
        Ok(None) => "n".into(),
        Ok(Some(Glyph::Simple(s))) => format!("s{}", s.num_points()),
        Ok(Some(Glyph::Composite(c))) => {
            let parts: Vec<String> = c.components().map(|c| format!("{}:{}", c.flags.contains(CompositeGlyphFlags::USE_MY_METRICS) as u8, c.glyph.to_u32())).collect();
            format!("c{}", parts.join(","))
        }
    })
}

fn ask_phantom(ctx: &mut Ctx, gid: u32, coords: &[i16], glyf_b: &[u8], loca_b: &[u8], n_glyphs: usize, bytes: &[u8]) {
    let (Ok(glyf), Ok(loca)) = (Glyf::read(FontData::new(glyf_b)), Loca::read(FontData::new(loca_b), true)) else { return };
    let specs: Option<Vec<String>> = (0..n_glyphs as u32 + 1).map(|g| glyph_spec(&glyf, &loca, g)).collect();
    let (Some(specs), Some(dflt)) = (specs, glyph_spec(&glyf, &loca, 0xFFFF)) else { return };
    let req = format!("hv.phantom {} {} {} {} {}{}", gid, hex(bytes), dflt, specs.len(), specs.join(" "), coord_args(coords));
    begin(&req);
    let cs = f2(coords);
    let r = catch(|| {
        let s = match Gvar::read(FontData::new(bytes)) {
            Err(e) => err_str(&e),
            Ok(g) => match g.phantom_point_deltas(&glyf, &loca, &cs, GlyphId::new(gid)) {
                Err(e) => err_str(&e),
                Ok(None) => "none".into(),
                Ok(Some(ps)) => ps.iter().map(|p| format!("{},{}", p.x.to_bits(), p.y.to_bits())).collect::<Vec<_>>().join(" "),
            },
        };
        (s, Seen::default())
    });
    settle(ctx, req, bytes, r);
}

fn run_phantom(ctx: &mut Ctx) {
    let rounds = if ctx.thorough { 30 } else { 6 };
    for round in 0..rounds {
        let n = 3 + ctx.rng.below(4) as usize;
        let mut glyphs: Vec<GlyphSpec> = vec![];
        for k in 0..n {
            glyphs.push(match ctx.rng.below(6) {
                0 => None,
                1 | 2 => Some(Ok(1 + ctx.rng.below(5) as usize)),
                _ => {
                    let nc = 1 + ctx.rng.below(3) as usize;
                    Some(Err((0..nc)
                        .map(|_| {
                            let target = match ctx.rng.below(8) {
                                0 => k as u16,                 // itself: the recursion limit
                                1 => n as u16 + ctx.rng.below(3) as u16, // beyond loca
                                2 => 0xFFFF,
                                _ => ctx.rng.below(n as u64) as u16,
                            };
                            (ctx.rng.chance(1, 2), target)
                        })
                        .collect()))
                }
            });
        }
        if round == 0 {
            // a chain 0 -> 1 -> 2 -> … of USE_MY_METRICS composites ending in a simple glyph
            glyphs = (0..n).map(|k| if k + 1 < n { Some(Err(vec![(false, k as u16), (true, k as u16 + 1)])) } else { Some(Ok(3)) }).collect();
        }
        let (glyf_b, loca_b) = glyf_loca(&glyphs);
        let axis_count = 1 + ctx.rng.below(2) as u16;
        let gv_glyphs: Vec<Vec<u8>> = glyphs
            .iter()
            .map(|g| {
                let pts = match g {
                    None => 0,
                    Some(Ok(k)) => *k,
                    Some(Err(c)) => c.len(),
                };
                let t = tuple_store(&mut ctx.rng, axis_count, true, 0, 0, pts + 4);
                let mut v = t.v;
                if v.len() % 2 == 1 {
                    v.push(0);
                }
                v
            })
            .collect();
        let spec = GvarSpec { axis_count, n_shared: 0, glyphs: gv_glyphs, long: true };
        let b = gvar_table(&mut ctx.rng, &spec);
        let coords = hot_coords(&mut ctx.rng, axis_count);
        for (j, v) in variants(&mut ctx.rng, &b, 6).into_iter().enumerate() {
            if j == 0 {
                for gid in edge32(&[n as u64]).into_iter().chain(0..n as u32) {
                    ask_phantom(ctx, gid, &coords, &glyf_b, &loca_b, n, &v);
                }
            } else if j % 3 == 0 {
                ask_phantom(ctx, (j % n) as u32, &coords, &glyf_b, &loca_b, n, &v);
            }
        }
        ctx.count("phantom");
    }
    // the recursion limit: a chain of 70 USE_MY_METRICS composites (64 levels are allowed)
    for len in [63usize, 64, 65, 66, 70] {
        let glyphs: Vec<GlyphSpec> = (0..len + 1).map(|k| if k < len { Some(Err(vec![(true, k as u16 + 1)])) } else { Some(Ok(2)) }).collect();
        let (glyf_b, loca_b) = glyf_loca(&glyphs);
        let gv: Vec<Vec<u8>> = (0..len + 1).map(|k| if k == len { vec![0, 1, 0, 8, 0, 4, 0x80, 0, 0x40, 0, 0x85, 0x05, 1, 2, 3, 4, 5, 6] } else { vec![] }).collect();
        let b = gvar_table(&mut ctx.rng, &GvarSpec { axis_count: 1, n_shared: 0, glyphs: gv, long: true });
        for gid in [0u32, 1, 2, len as u32] {
            ask_phantom(ctx, gid, &[0x4000], &glyf_b, &loca_b, len + 1, &b.v);
        }
        ctx.count("phantom.chain");
    }
}

pub fn run(ctx: &mut Ctx) {
    run_dsim(ctx);
    run_ivs(ctx);
    run_metrics(ctx);
    run_mvar(ctx);
    run_avar(ctx);
    run_tvhdr(ctx);
    run_cvar(ctx);
    run_cvard(ctx);
    run_gvar(ctx);
    run_acc(ctx);
    run_phantom(ctx);
}
