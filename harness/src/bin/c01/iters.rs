//! C01 part `iters` — hand-written iterators of read-fonts vs Model/ReadIter.lean.
//!
//! Correspondence (`it.*` driver commands): Cmap4Iter, Cmap12Iter (+limits), PackedPointNumbers
//! (count / split_off_front / iterator), PackedDeltas::consume_all + DeltaRunIter,
//! TupleVariation::deltas (cvar scalars, gvar points: x_deltas / y_deltas / skip_fast /
//! TupleDeltaIter), VarSize::{read_len_at,total_len_for_count}, VarLenArray::{iter,get},
//! ComputedArray::{iter,get}.
//! Oracles (model independent, on the real code): no panic, the yield bounds proved in
//! Props/C01Iter.lean evaluated with a hard cap (a runaway iterator is detected, not waited for),
//! strict monotonicity of cmap4 codepoints, `None` is sticky where the theorems say so.
use fv_harness::common::*;
use font_types::GlyphId;
use read_fonts::array::{ComputedArray, VarLenArray};
use read_fonts::tables::avar::SegmentMaps;
use read_fonts::tables::cmap::{Cmap12, Cmap12IterLimits, Cmap4};
use read_fonts::tables::cvar::Cvar;
use read_fonts::tables::gvar::Gvar;
use read_fonts::tables::meta::ScriptLangTag;
use read_fonts::tables::post::PString;
use read_fonts::tables::variations::{PackedDeltas, PackedPointNumbers, Tuple};
use read_fonts::{FontData, FontRead, ReadError, VarSize};

// ---------------------------------------------------------------- canonical forms

const FNV_OFF: u64 = 14695981039346656037;
const FNV_P: u64 = 1099511628211;

struct Summ {
    n: u64,
    h: u64,
    first: Option<String>,
    last: Option<String>,
}

impl Summ {
    fn new() -> Self {
        Summ { n: 0, h: FNV_OFF, first: None, last: None }
    }
    fn push(&mut self, row: &[u64]) {
        for x in row {
            self.h = (self.h ^ x).wrapping_mul(FNV_P);
        }
        let r = row.iter().map(|x| x.to_string()).collect::<Vec<_>>().join(":");
        if self.first.is_none() {
            self.first = Some(r.clone());
        }
        self.last = Some(r);
        self.n += 1;
    }
    fn render(&self) -> String {
        format!(
            "{} {} {} {}",
            self.n,
            self.h,
            self.first.clone().unwrap_or("-".into()),
            self.last.clone().unwrap_or("-".into())
        )
    }
}

fn or_panic(r: Result<String, String>) -> String {
    r.unwrap_or_else(|_| "panic".into())
}

fn rbytes(rng: &mut Rng, below: u64) -> Vec<u8> {
    let n = rng.below(below) as usize;
    rng.bytes(n)
}

fn be16(v: &mut Vec<u8>, x: u16) {
    v.extend_from_slice(&x.to_be_bytes());
}
fn be32(v: &mut Vec<u8>, x: u32) {
    v.extend_from_slice(&x.to_be_bytes());
}

// ---------------------------------------------------------------- cmap format 4

#[derive(Clone, Debug)]
struct C4 {
    end: Vec<u16>,
    start: Vec<u16>,
    delta: Vec<i16>,
    ro: Vec<u16>,
    gids: Vec<u16>,
}

impl C4 {
    fn bytes(&self) -> Vec<u8> {
        let n = self.end.len();
        let mut v = vec![];
        be16(&mut v, 4);
        be16(&mut v, 0); // length (ignored by the reader)
        be16(&mut v, 0); // language
        be16(&mut v, (n * 2) as u16);
        be16(&mut v, 0);
        be16(&mut v, 0);
        be16(&mut v, 0);
        for x in &self.end {
            be16(&mut v, *x);
        }
        be16(&mut v, 0); // reservedPad
        for x in &self.start {
            be16(&mut v, *x);
        }
        for x in &self.delta {
            be16(&mut v, *x as u16);
        }
        for x in &self.ro {
            be16(&mut v, *x);
        }
        for x in &self.gids {
            be16(&mut v, *x);
        }
        v
    }
    fn req(&self, cmd: &str) -> String {
        let mut s = format!("{cmd} {}", self.end.len());
        for x in &self.end {
            s.push_str(&format!(" {x}"));
        }
        for x in &self.start {
            s.push_str(&format!(" {x}"));
        }
        for x in &self.delta {
            s.push_str(&format!(" {x}"));
        }
        for x in &self.ro {
            s.push_str(&format!(" {x}"));
        }
        for x in &self.gids {
            s.push_str(&format!(" {x}"));
        }
        s
    }
}

const CODES16: [u16; 22] = [
    0, 1, 2, 3, 0x7E, 0x7F, 0x80, 0xFF, 0x100, 0x101, 0x3FFF, 0x7FFF, 0x8000, 0x8001, 0xFFF0, 0xFFFC,
    0xFFFD, 0xFFFE, 0xFFFF, 0x20, 0x41, 0x1000,
];

fn code16(rng: &mut Rng) -> u16 {
    match rng.below(4) {
        0 | 1 => *rng.pick(&CODES16),
        2 => (*rng.pick(&CODES16)).wrapping_add(rng.range(-3, 3) as u16),
        _ => rng.next() as u16,
    }
}

fn gen_c4(rng: &mut Rng, shape: u64) -> C4 {
    let n = match rng.below(6) {
        0 => rng.below(3) as usize,
        1..=3 => 1 + rng.below(8) as usize,
        _ => 1 + rng.below(40) as usize,
    };
    let mut start = vec![0u16; n];
    let mut end = vec![0u16; n];
    match shape {
        // well formed: sorted, disjoint, short segments, last = 0xFFFF
        0 => {
            let mut cur: u32 = rng.below(64) as u32;
            for i in 0..n {
                let len = rng.below(40) as u32;
                let s = cur.min(0xFFFF);
                let e = (cur + len).min(0xFFFF);
                start[i] = s as u16;
                end[i] = e as u16;
                cur = e + 1 + rng.below(500) as u32 * rng.below(3) as u32;
            }
            if n > 0 && rng.chance(3, 4) {
                start[n - 1] = 0xFFFF;
                end[n - 1] = 0xFFFF;
            }
        }
        // arbitrary: unordered, overlapping, start > end
        1 => {
            for i in 0..n {
                start[i] = code16(rng);
                end[i] = code16(rng);
            }
        }
        // many huge overlapping segments (issue #1100)
        2 => {
            for i in 0..n {
                start[i] = if rng.chance(3, 4) { rng.below(4) as u16 } else { code16(rng) };
                end[i] = if rng.chance(3, 4) { 0xFFFF - rng.below(3) as u16 } else { code16(rng) };
            }
        }
        // descending segments
        3 => {
            let mut cur: i64 = 0xFFFF;
            for i in 0..n {
                let len = rng.below(300) as i64;
                end[i] = cur.max(0) as u16;
                start[i] = (cur - len).max(0) as u16;
                cur -= len + rng.below(100) as i64;
            }
        }
        // duplicates of one segment, then something else
        _ => {
            let s = code16(rng);
            let e = s.saturating_add(rng.below(2000) as u16);
            for i in 0..n {
                start[i] = s;
                end[i] = e;
            }
            if n > 1 && rng.chance(1, 2) {
                start[n - 1] = code16(rng);
                end[n - 1] = code16(rng);
            }
        }
    }
    let gl = match rng.below(4) {
        0 => 0,
        1 => rng.below(8) as usize,
        _ => rng.below(300) as usize,
    };
    let gids: Vec<u16> = (0..gl)
        .map(|_| if rng.chance(1, 5) { 0 } else if rng.chance(1, 6) { *rng.pick(&[1u16, 0x7FFF, 0x8000, 0xFFFF]) } else { rng.next() as u16 })
        .collect();
    let delta: Vec<i16> = (0..n)
        .map(|_| match rng.below(4) {
            0 => 0,
            1 => *rng.pick(&[1i16, -1, i16::MAX, i16::MIN, 0x100, -0x100]),
            _ => rng.next() as i16,
        })
        .collect();
    let ro: Vec<u16> = (0..n)
        .map(|i| match rng.below(8) {
            0..=3 => 0,
            // the spec form: points at glyphIdArray[k]
            4 | 5 => (2 * (n - i) + 2 * rng.below(gl as u64 + 2) as usize) as u16,
            6 => *rng.pick(&[1u16, 2, 3, 0xFFFE, 0xFFFF, 0x8000]),
            _ => rng.next() as u16 % 700,
        })
        .collect();
    C4 { end, start, delta, ro, gids }
}

fn cmap4_case(s: &mut Session, t: &C4) {
    let bytes = t.bytes();
    let input = || format!("cmap4 {}", hex(&bytes));
    let parsed = catch(|| Cmap4::read(FontData::new(&bytes)).is_ok());
    s.oracle("iters.cmap4.read-ok", parsed == Ok(true), input, || format!("{parsed:?}"));
    if parsed != Ok(true) {
        return;
    }
    const CAP: usize = 65536 + 2;
    let r = catch(|| {
        let c = Cmap4::read(FontData::new(&bytes)).unwrap();
        let mut it = c.iter();
        let mut sm = Summ::new();
        let mut prev: Option<u32> = None;
        let mut mono = true;
        let mut max_cp = 0u32;
        let mut sticky = true;
        while let Some((cp, gid)) = it.next() {
            if let Some(p) = prev {
                mono &= p < cp;
            }
            prev = Some(cp);
            max_cp = max_cp.max(cp);
            sm.push(&[cp as u64, gid.to_u32() as u64]);
            if sm.n as usize >= CAP {
                break;
            }
        }
        if (sm.n as usize) < CAP {
            for _ in 0..3 {
                sticky &= it.next().is_none();
            }
        }
        (sm, mono, max_cp, sticky)
    });
    match &r {
        Ok((sm, mono, max_cp, sticky)) => {
            s.oracle("iters.cmap4.yield<=65536", sm.n <= 65536, input, || format!("yielded {}", sm.n));
            s.oracle("iters.cmap4.codepoints-strictly-increasing", *mono, input, || sm.render());
            s.oracle("iters.cmap4.codepoint<=0xFFFF", *max_cp <= 0xFFFF, input, || format!("{max_cp}"));
            s.oracle("iters.cmap4.none-is-sticky", *sticky, input, String::new);
            let b = match sm.n {
                0 => "0",
                1..=99 => "1..99",
                100..=9999 => "100..9999",
                10000..=65535 => "10000..65535",
                _ => "65536",
            };
            s.count(&format!("cmap4.yield:{b}"));
        }
        Err(_) => {}
    }
    s.oracle("iters.no-panic", r.is_ok(), input, || format!("{:?}", r.as_ref().err()));
    s.count(&format!("cmap4.segs:{}", match t.end.len() { 0 => "0", 1 => "1", 2..=8 => "2..8", _ => "9+" }));
    s.case("cmap4.iter", t.req("it.cmap4"), or_panic(r.map(|x| x.0.render())));
}

fn run_cmap4(cfg: &Config, s: &mut Session, rng: &mut Rng) {
    // fixed cases: the repo's own tests + extremes
    let fixed = vec![
        C4 { end: vec![262, 0xFFFF], start: vec![259, 0xFFFF], delta: vec![0, 1], ro: vec![4, 0], gids: vec![236, 0, 0, 326] },
        C4 { end: vec![], start: vec![], delta: vec![], ro: vec![], gids: vec![] },
        C4 { end: vec![0xFFFF], start: vec![0], delta: vec![0], ro: vec![0], gids: vec![] },
        C4 { end: vec![0xFFFF; 30], start: vec![0; 30], delta: vec![7; 30], ro: vec![0; 30], gids: vec![] },
        C4 { end: vec![0xFFFF, 5, 0xFFFF], start: vec![0xFFFF, 0, 0], delta: vec![0; 3], ro: vec![0; 3], gids: vec![] },
        C4 { end: vec![5, 3, 10], start: vec![100, 0, 4], delta: vec![0; 3], ro: vec![0; 3], gids: vec![] },
        // range offsets with start code 0xFFFF / clamped start (cur_start_code is the clamped start)
        C4 { end: vec![20, 30], start: vec![10, 15], delta: vec![0, 0], ro: vec![4, 2], gids: (1..=40).collect() },
    ];
    for t in &fixed {
        cmap4_case(s, t);
    }
    let n = if cfg.thorough() { 6000 } else { 300 };
    for i in 0..n {
        let t = gen_c4(rng, i % 5);
        cmap4_case(s, &t);
    }
}

// ---------------------------------------------------------------- cmap format 12

const CODES32: [u32; 26] = [
    0, 1, 2, 0xFF, 0x100, 0xFFFE, 0xFFFF, 0x10000, 0x10001, 0xD7FF, 0xD800, 0xDFFF, 0xE000, 0x10FFFE, 0x10FFFF,
    0x110000, 0x110001, 0x7FFFFFFF, 0x80000000, 0xFFFFFFFA, 0xFFFFFFFB, 0xFFFFFFFC, 0xFFFFFFFE, 0xFFFFFFFF, 170,
    328960,
];

fn code32(rng: &mut Rng) -> u32 {
    match rng.below(5) {
        0 | 1 => *rng.pick(&CODES32),
        2 => (*rng.pick(&CODES32)).wrapping_add(rng.range(-3, 3) as u32),
        3 => rng.below(3000) as u32,
        _ => (rng.next() as u32) >> rng.below(32),
    }
}

fn c12_bytes(groups: &[(u32, u32, u32)]) -> Vec<u8> {
    let mut v = vec![];
    be16(&mut v, 12);
    be16(&mut v, 0);
    be32(&mut v, 0);
    be32(&mut v, 0);
    be32(&mut v, groups.len() as u32);
    for g in groups {
        be32(&mut v, g.0);
        be32(&mut v, g.1);
        be32(&mut v, g.2);
    }
    v
}

/// the per-group exclusive end exactly as the property's bound needs it, recomputed here in u128
fn c12_bound(groups: &[(u32, u32, u32)], lim: Option<(u32, u32)>) -> u128 {
    groups
        .iter()
        .map(|g| {
            let mut e = g.1 as u128 + 1;
            if let Some((max_char, glyph_count)) = lim {
                let by_gid = (glyph_count as u128).saturating_sub(g.2 as u128) + g.0 as u128;
                e = by_gid.min(e.min(max_char as u128 + 1));
            }
            e.saturating_sub(g.0 as u128)
        })
        .sum()
}

fn cmap12_case(s: &mut Session, groups: &[(u32, u32, u32)], lim: Option<(u32, u32)>, cap: usize) {
    let bytes = c12_bytes(groups);
    let input = || format!("cmap12 lim={lim:?} {}", hex(&bytes));
    let r = catch(|| {
        let c = Cmap12::read(FontData::new(&bytes)).unwrap();
        let it = match lim {
            None => c.iter(),
            Some((max_char, glyph_count)) => c.iter_with_limits(Cmap12IterLimits { max_char, glyph_count }),
        };
        let mut sm = Summ::new();
        let mut mono = true;
        let mut prev: Option<u32> = None;
        for (cp, gid) in it.take(cap) {
            if let Some(p) = prev {
                mono &= p < cp;
            }
            prev = Some(cp);
            sm.push(&[cp as u64, gid.to_u32() as u64]);
        }
        (sm, mono)
    });
    s.oracle("iters.no-panic", r.is_ok(), input, || format!("{:?}", r.as_ref().err()));
    let bound = c12_bound(groups, lim);
    if let Ok((sm, mono)) = &r {
        // the proved bound: sum of the (limited) group lengths
        s.oracle("iters.cmap12.yield<=sum-of-group-lengths", (sm.n as u128) <= bound, input, || format!("yielded {} bound {bound}", sm.n));
        if let Some((max_char, glyph_count)) = lim {
            let per = (max_char as u128 + 1).min(glyph_count as u128) * groups.len() as u128;
            s.oracle("iters.cmap12.limits.yield<=groups*min(max_char+1,glyph_count)", (sm.n as u128) <= per, input, || format!("yielded {} bound {per}", sm.n));
            // NOT a property of the code (see report): the repo's tests suggest `<= char::MAX + 1`.
            if sm.n as u128 > max_char as u128 + 1 {
                s.count("cmap12.FINDING.limits-yield>max_char+1");
            }
        }
        if !mono {
            s.count("cmap12.FINDING.codepoints-not-increasing");
        }
        s.count(&format!("cmap12.yield:{}", match sm.n { 0 => "0", 1..=99 => "1..99", 100..=9999 => "100..9999", _ => "10000+" }));
        if sm.n as usize == cap {
            s.count("cmap12.hit-cap");
        }
    }
    s.count(&format!("cmap12.lim:{}", match lim { None => "none", Some(_) => "some" }));
    let mut req = format!(
        "it.cmap12 {} {} {} {cap}",
        lim.is_some() as u8,
        lim.map(|l| l.0).unwrap_or(0),
        lim.map(|l| l.1).unwrap_or(0)
    );
    for g in groups {
        req.push_str(&format!(" {} {} {}", g.0, g.1, g.2));
    }
    // model-side statement of the bound must agree with the harness' independent u128 evaluation
    let mut breq = format!("it.cmap12.bound {} {} {}", lim.is_some() as u8, lim.map(|l| l.0).unwrap_or(0), lim.map(|l| l.1).unwrap_or(0));
    for g in groups {
        breq.push_str(&format!(" {} {} {}", g.0, g.1, g.2));
    }
    s.case("cmap12.bound", breq, bound.to_string());
    s.case("cmap12.iter", req, or_panic(r.map(|x| x.0.render())));
}

fn gen_c12(rng: &mut Rng, shape: u64) -> Vec<(u32, u32, u32)> {
    let n = match rng.below(5) {
        0 => rng.below(3) as usize,
        1..=3 => 1 + rng.below(6) as usize,
        _ => 1 + rng.below(30) as usize,
    };
    let gid = |rng: &mut Rng| match rng.below(4) {
        0 => 0,
        1 => *rng.pick(&[1u32, 0xFFFE, 0xFFFF, 0x10000, 0xFFFFFFFF, 0x80000000, 328960]),
        _ => rng.below(70000) as u32,
    };
    let mut v = vec![];
    match shape {
        // well formed
        0 => {
            let mut cur: u64 = rng.below(100);
            for _ in 0..n {
                let len = rng.below(60);
                let s = cur.min(0x10FFFF) as u32;
                let e = (cur + len).min(0x10FFFF) as u32;
                v.push((s, e, rng.below(2000) as u32));
                cur = e as u64 + 1 + rng.below(5000) * rng.below(3);
            }
        }
        // arbitrary
        1 => {
            for _ in 0..n {
                v.push((code32(rng), code32(rng), gid(rng)));
            }
        }
        // short ranges near boundaries, unordered / overlapping
        2 => {
            for _ in 0..n {
                let st = code32(rng);
                let e = st.wrapping_add(rng.below(400) as u32).wrapping_sub(rng.below(3) as u32 * rng.below(50) as u32);
                v.push((st, e, gid(rng)));
            }
        }
        // the end-sliding-backwards pattern: big, tiny, big, tiny ...
        3 => {
            let big = 200 + rng.below(3000) as u32;
            for i in 0..n {
                if i % 2 == 0 {
                    v.push((0, big, 0));
                } else {
                    v.push((0, rng.below(3) as u32, 0));
                }
            }
        }
        // huge groups
        _ => {
            for _ in 0..n {
                v.push((if rng.chance(1, 2) { 0 } else { code32(rng) }, if rng.chance(1, 2) { 0xFFFFFFFF } else { code32(rng) }, gid(rng)));
            }
        }
    }
    v
}

fn run_cmap12(cfg: &Config, s: &mut Session, rng: &mut Rng) {
    let dflt = Some((char::MAX as u32, u16::MAX as u32));
    // the repo's regression inputs
    cmap12_case(s, &[(0xFFFFFFFA, 0xFFFFFFFC, 0), (0xFFFFFFFB, 0xFFFFFFFF, 0)], None, 1000);
    cmap12_case(s, &[(170, 1330926671, 328960)], dflt, 70000);
    cmap12_case(s, &[(199, 16777271, 2), (262, 262, 3), (268, 268, 4)], Some((char::MAX as u32, 8)), 1000);
    cmap12_case(s, &[(0, 16777215, 0), (255, 0xFFFFFFFF, 0)], Some((char::MAX as u32, u32::MAX)), if cfg.thorough() { 1_200_000 } else { 50_000 });
    cmap12_case(s, &[(0, 1, 0)], None, 10);
    cmap12_case(s, &[], None, 10);
    cmap12_case(s, &[], dflt, 10);
    // the end of the clamped range slides backwards: more than max_char + 1 results, repeated codepoints
    cmap12_case(s, &[(0, 9, 0), (0, 0, 0), (0, 9, 0)], Some((10, 100)), 1000);
    {
        // 36 groups (448 bytes) with the default limits yield more than char::MAX + 1 pairs
        let mut g = vec![];
        for i in 0..36 {
            g.push(if i % 2 == 0 { (0u32, 0x10FFFF, 0u32) } else { (0, 0, 0) });
        }
        cmap12_case(s, &g, dflt, 1_300_000);
    }
    let n = if cfg.thorough() { 8000 } else { 400 };
    for i in 0..n {
        let g = gen_c12(rng, i % 5);
        let lim = match rng.below(6) {
            0 | 1 => None,
            2 => dflt,
            3 => Some((char::MAX as u32, *rng.pick(&[0u32, 1, 8, 300, 65535, 65536, u32::MAX]))),
            4 => Some((*rng.pick(&[0u32, 1, 10, 255, 0xFFFF, 0x10000, 0x10FFFF, 0x110000, u32::MAX]), *rng.pick(&[0u32, 1, 8, 300, 65535, u32::MAX]))),
            _ => Some((code32(rng), code32(rng))),
        };
        let cap = *rng.pick(&[0usize, 1, 7, 3000, 20000, 20000, 20000]);
        cmap12_case(s, &g, lim, cap);
    }
}

// ---------------------------------------------------------------- packed points / deltas

fn gen_points(rng: &mut Rng) -> Vec<u8> {
    let mut v = vec![];
    // header
    let declared: u32 = match rng.below(10) {
        0 => {
            v.push(0);
            0
        }
        1 => {
            v.push(0x80);
            if rng.chance(2, 3) {
                v.push(0);
            }
            0
        }
        2..=5 => {
            let c = 1 + rng.below(127) as u8;
            v.push(c);
            c as u32
        }
        6 => {
            let c = *rng.pick(&[1u8, 2, 126, 127]);
            v.push(c);
            c as u32
        }
        7 => {
            let c = *rng.pick(&[1u16, 127, 128, 129, 255, 256, 1000, 0x7FFE, 0x7FFF]);
            be16(&mut v, c | 0x8000);
            c as u32
        }
        8 => {
            let c = 1 + rng.below(600) as u16;
            be16(&mut v, c | 0x8000);
            c as u32
        }
        _ => return rbytes(rng, 12),
    };
    // runs: a few more / fewer points than declared
    let want = (declared as i64 + rng.range(-3, 3)).max(0) as u32;
    let want = want.min(900);
    let mut have = 0u32;
    while have < want {
        let cnt = match rng.below(5) {
            0 => 1,
            1 => 128,
            2 => 127,
            _ => 1 + rng.below(20) as u32,
        };
        let two = rng.chance(1, 3);
        v.push(((cnt - 1) as u8) | if two { 0x80 } else { 0 });
        for _ in 0..cnt {
            if two {
                let x = match rng.below(6) {
                    0 => 0,
                    1 => 0xFFFF,
                    2 => 0x7FFF,
                    3 => rng.next() as u16,
                    _ => rng.below(300) as u16,
                };
                be16(&mut v, x);
            } else {
                v.push(match rng.below(5) {
                    0 => 0,
                    1 => 0xFF,
                    _ => rng.below(40) as u8,
                });
            }
        }
        have += cnt;
    }
    // truncate / extend
    match rng.below(6) {
        0 => {
            let k = rng.below(v.len() as u64 + 1) as usize;
            v.truncate(k);
        }
        1 => {
            let k = v.len().saturating_sub(rng.below(4) as usize);
            v.truncate(k);
        }
        2 => v.extend(rbytes(rng, 8)),
        _ => {}
    }
    v
}

fn gen_deltas(rng: &mut Rng) -> Vec<u8> {
    let mut v = vec![];
    if rng.chance(1, 12) {
        return rbytes(rng, 16);
    }
    let runs = rng.below(8);
    for _ in 0..runs {
        let cnt = match rng.below(5) {
            0 => 1,
            1 => 64,
            2 => 63,
            _ => 1 + rng.below(12) as u8,
        };
        let ty = rng.below(4) as u8; // 0 i8, 1 i16, 2 zero, 3 i32
        let flags = match ty {
            0 => 0,
            1 => 0x40,
            2 => 0x80,
            _ => 0xC0,
        };
        v.push(flags | (cnt - 1));
        let sz = match ty {
            0 => 1,
            1 => 2,
            2 => 0,
            _ => 4,
        };
        for _ in 0..cnt as usize * sz {
            v.push(match rng.below(5) {
                0 => 0,
                1 => 0xFF,
                2 => 0x80,
                3 => 0x7F,
                _ => rng.next() as u8,
            });
        }
    }
    match rng.below(6) {
        0 => {
            let k = rng.below(v.len() as u64 + 1) as usize;
            v.truncate(k);
        }
        1 => {
            let k = v.len().saturating_sub(1 + rng.below(3) as usize);
            v.truncate(k);
        }
        2 => v.extend(rbytes(rng, 5)),
        _ => {}
    }
    v
}

fn points_case(s: &mut Session, d: &[u8]) {
    let input = || format!("packed-points {}", hex(d));
    let h = hex(d);
    // count + split_off_front
    let r = catch(|| {
        let (pp, rest) = PackedPointNumbers::split_off_front(FontData::new(d));
        (pp.count(), rest.len())
    });
    s.oracle("iters.no-panic", r.is_ok(), input, || format!("count/split_off_front {:?}", r.as_ref().err()));
    if let Ok((_, rest)) = &r {
        s.oracle("iters.points.remainder<=len", *rest <= d.len(), input, || format!("{rest}"));
    }
    s.case("points.count", format!("it.pt.count {h}"), or_panic(r.clone().map(|x| x.0.to_string())));
    s.case("points.split", format!("it.pt.split {h}"), or_panic(r.clone().map(|x| x.1.to_string())));
    // iterate
    const CAP: usize = 65535 + 2;
    let it = catch(|| {
        let (pp, _) = PackedPointNumbers::split_off_front(FontData::new(d));
        let mut sm = Summ::new();
        let mut nondecr = true;
        let mut prev = 0u16;
        for p in pp.iter().take(CAP) {
            nondecr &= prev <= p;
            prev = p;
            sm.push(&[p as u64]);
        }
        (sm, nondecr)
    });
    s.oracle("iters.no-panic", it.is_ok(), input, || format!("iter {:?}", it.as_ref().err()));
    if let (Ok((sm, nondecr)), Ok((count, _))) = (&it, &r) {
        s.oracle("iters.points.yield<=65535", sm.n <= 65535, input, || sm.n.to_string());
        if *count != 0 {
            s.oracle("iters.points.yield<=count", sm.n <= *count as u64, input, || format!("{} > {count}", sm.n));
            s.oracle("iters.points.yield<=len", sm.n <= d.len() as u64, input, || format!("{} > {}", sm.n, d.len()));
        } else {
            s.oracle("iters.points.all-points=65535", sm.n == 65535, input, || sm.n.to_string());
        }
        s.oracle("iters.points.non-decreasing", *nondecr, input, || sm.render());
        s.count(&format!("points.count:{}", match count { 0 => "0(all)", 1..=127 => "1..127", _ => "128+" }));
        s.count(&format!("points.iter:{}", if *count == 0 { "all" } else if sm.n == *count as u64 { "complete" } else { "short" }));
    }
    // the all-points stream (count == 0) is independent of the data and 65535 items long: send only a few to the driver
    let all_points = matches!(&r, Ok((0, _)));
    if !all_points || s.dist.get("points.iter:all").copied().unwrap_or(0) <= 4 {
        s.case("points.iter", format!("it.pt.iter {h}"), or_panic(it.map(|x| x.0.render())));
    }
    // the first k calls of next(), also past the first None (the iterator is not fused)
    let k = (r.as_ref().map(|x| x.0 as usize).unwrap_or(0) + 3).min(40);
    let calls = catch(|| {
        let (pp, _) = PackedPointNumbers::split_off_front(FontData::new(d));
        let mut it = pp.iter();
        let v: Vec<String> = (0..k).map(|_| it.next().map(|x| x.to_string()).unwrap_or("n".into())).collect();
        join(&v)
    });
    s.oracle("iters.no-panic", calls.is_ok(), input, || format!("next×{k} {:?}", calls.as_ref().err()));
    s.case("points.calls", format!("it.pt.calls {h} {k}"), or_panic(calls));
}

fn deltas_case(s: &mut Session, d: &[u8]) {
    let input = || format!("packed-deltas {}", hex(d));
    let h = hex(d);
    let cap = 64 * d.len() + 2;
    let r = catch(|| {
        let pd = PackedDeltas::consume_all(FontData::new(d));
        let mut sm = Summ::new();
        for v in pd.iter().take(cap) {
            sm.push(&[v as u32 as u64]);
        }
        sm
    });
    s.oracle("iters.no-panic", r.is_ok(), input, || format!("{:?}", r.as_ref().err()));
    if let Ok(sm) = &r {
        s.oracle("iters.deltas.yield<=64*len", sm.n <= 64 * d.len() as u64, input, || sm.n.to_string());
        s.count(&format!("deltas.yield:{}", match sm.n { 0 => "0", 1..=63 => "1..63", _ => "64+" }));
    }
    s.case("deltas.consume_all.iter", format!("it.dl.all {h}"), or_panic(r.map(|x| x.render())));
    let k = 12.min(cap);
    let calls = catch(|| {
        let pd = PackedDeltas::consume_all(FontData::new(d));
        let mut it = pd.iter();
        let v: Vec<String> = (0..k).map(|_| it.next().map(|x| x.to_string()).unwrap_or("n".into())).collect();
        join(&v)
    });
    s.oracle("iters.no-panic", calls.is_ok(), input, || format!("next×{k} {:?}", calls.as_ref().err()));
    s.case("deltas.calls", format!("it.dl.calls {h} {k}"), or_panic(calls));
}

/// a `cvar` table with one tuple (private point numbers, embedded peak) whose serialized data is `ser`
fn cvar_bytes(ser: &[u8]) -> Vec<u8> {
    let mut v = vec![0, 1, 0, 0];
    be16(&mut v, 1); // tupleVariationCount
    be16(&mut v, 14); // dataOffset
    be16(&mut v, ser.len() as u16); // variationDataSize
    be16(&mut v, 0xA000); // EMBEDDED_PEAK_TUPLE | PRIVATE_POINT_NUMBERS
    be16(&mut v, 0x4000); // peak (axis_count = 1)
    v.extend_from_slice(ser);
    v
}

/// a `gvar` table with one glyph with one tuple as above
fn gvar_bytes(ser: &[u8]) -> Vec<u8> {
    let mut g = vec![];
    be16(&mut g, 1); // tupleVariationCount
    be16(&mut g, 10); // dataOffset
    be16(&mut g, ser.len() as u16);
    be16(&mut g, 0xA000);
    be16(&mut g, 0x4000);
    g.extend_from_slice(ser);
    let mut v = vec![0, 1, 0, 0];
    be16(&mut v, 1); // axisCount
    be16(&mut v, 0); // sharedTupleCount
    be32(&mut v, 28); // sharedTuplesOffset
    be16(&mut v, 1); // glyphCount
    be16(&mut v, 1); // flags: long offsets
    be32(&mut v, 28); // glyphVariationDataArrayOffset
    be32(&mut v, 0);
    be32(&mut v, g.len() as u32);
    v.extend_from_slice(&g);
    v
}

fn tuple_case(s: &mut Session, ser: &[u8], is_point: bool) {
    let input = || format!("tuple-deltas is_point={is_point} {}", hex(ser));
    // every item consumes at least one step of a bounded resource: see `td_steps_le`
    let cap = 2 * (64 * ser.len() + 65) + 2 * 65537;
    let r = catch(|| {
        let mut sm = Summ::new();
        if is_point {
            let table = gvar_bytes(ser);
            let gvar = Gvar::read(FontData::new(&table)).unwrap();
            let gvd = gvar.glyph_variation_data(GlyphId::new(0)).unwrap().unwrap();
            let tuple = gvd.tuples().next().unwrap();
            for d in tuple.deltas().take(cap) {
                sm.push(&[d.position as u64, d.x_delta as u32 as u64, d.y_delta as u32 as u64]);
            }
        } else {
            let table = cvar_bytes(ser);
            let cvar = Cvar::read(FontData::new(&table)).unwrap();
            let vd = cvar.variation_data(1).unwrap();
            let tuple = vd.tuples().next().unwrap();
            for d in tuple.deltas().take(cap) {
                sm.push(&[d.position as u64, d.value as u32 as u64, 0]);
            }
        }
        sm
    });
    s.oracle("iters.no-panic", r.is_ok(), input, || format!("{:?}", r.as_ref().err()));
    if let Ok(sm) = &r {
        s.oracle("iters.tuple-deltas.yield<=64*len", sm.n <= 64 * ser.len() as u64, input, || sm.n.to_string());
        s.count(&format!("tuple.{}:{}", if is_point { "gvar" } else { "cvar" }, match sm.n { 0 => "0", 1..=63 => "1..63", _ => "64+" }));
    }
    s.case(
        if is_point { "tuple.deltas.gvar" } else { "tuple.deltas.cvar" },
        format!("it.td {} {}", is_point as u8, hex(ser)),
        or_panic(r.map(|x| x.render())),
    );
}

fn run_packed(cfg: &Config, s: &mut Session, rng: &mut Rng) {
    let fixed_points: Vec<Vec<u8>> = vec![
        vec![],
        vec![0],
        vec![0x80],
        vec![0x80, 0],
        vec![0x80, 1],
        vec![0xFF, 0xFF],
        vec![1],
        vec![1, 0],
        vec![1, 0, 5],
        vec![0x0d, 0x0c, 1, 4, 4, 2, 1, 2, 3, 3, 2, 1, 1, 3, 4],
        vec![2, 0x80, 0xFF, 0xFF, 0x00, 0x01], // checked_add overflow on the second point
        vec![3, 0x82, 0xFF, 0xFE, 0x00, 0x01, 0x00, 0x01],
        vec![2, 0x00, 5, 0x7F], // second run has count 128, no data
    ];
    for d in &fixed_points {
        points_case(s, d);
    }
    // maximal counts with more run data than any count can consume: the u16 accumulator `n_seen` of
    // `total_len` and the `seen` counter of the iterator stay below the masked count (32767)
    for (hdr, control, run_bytes) in [([0xFFu8, 0xFF], 0x7Fu8, 128usize), ([0xFF, 0xFF], 0xFF, 256), ([0xFF, 0xFE], 0x7F, 128)] {
        let mut d = hdr.to_vec();
        for i in 0..600usize {
            d.push(control);
            d.extend((0..run_bytes).map(|j| ((i + j) % 2) as u8));
        }
        points_case(s, &d);
    }
    let fixed_deltas: Vec<Vec<u8>> = vec![
        vec![],
        vec![0x81],
        vec![0x01],
        vec![0xBF],
        vec![0xBF; 5],
        vec![0xFF],
        vec![0x03, 0x0A, 0x97, 0x00, 0xC6, 0x87, 0x41, 0x10, 0x22, 0xFB, 0x34],
        vec![0xC0, 0x80, 0, 0, 0],
        vec![0xC0, 0x80, 0, 0],
        vec![0x40, 0x80],
    ];
    for d in &fixed_deltas {
        deltas_case(s, d);
    }
    let n = if cfg.thorough() { 40000 } else { 2000 };
    for _ in 0..n {
        let p = gen_points(rng);
        points_case(s, &p);
        let d = gen_deltas(rng);
        deltas_case(s, &d);
        // tuple = points ++ deltas (sometimes cut anywhere)
        let mut ser = if rng.chance(1, 8) { vec![0] } else { gen_points(rng) };
        if ser.len() > 300 {
            ser = vec![*rng.pick(&[0u8, 1, 2, 5])];
            ser.extend(rbytes(rng, 6));
        }
        ser.extend(gen_deltas(rng));
        if rng.chance(1, 10) {
            let k = rng.below(ser.len() as u64 + 1) as usize;
            ser.truncate(k);
        }
        tuple_case(s, &ser, false);
        tuple_case(s, &ser, true);
    }
    for ser in [vec![], vec![0u8], vec![0, 0xBF], vec![0, 0x83, 0x01, 1, 2], vec![1, 0, 3, 0x81], vec![5], vec![5, 0x81]] {
        tuple_case(s, &ser, false);
        tuple_case(s, &ser, true);
    }
}

// ---------------------------------------------------------------- VarLenArray / VarSize / ComputedArray

/// default `VarSize` impl with a u16 length prefix (the crate's own one is test-only)
struct Dummy16(u16);
impl VarSize for Dummy16 {
    type Size = u16;
}
impl<'a> FontRead<'a> for Dummy16 {
    fn read(data: FontData<'a>) -> Result<Self, ReadError> {
        let n: u16 = data.read_at(0)?;
        data.as_bytes().get(2..2 + n as usize).ok_or(ReadError::OutOfBounds)?;
        Ok(Dummy16(n))
    }
}
/// default `VarSize` impl with a u32 length prefix
struct Dummy32(u32);
impl VarSize for Dummy32 {
    type Size = u32;
}
impl<'a> FontRead<'a> for Dummy32 {
    fn read(data: FontData<'a>) -> Result<Self, ReadError> {
        let n: u32 = data.read_at(0)?;
        let end = (n as usize).checked_add(4).ok_or(ReadError::OutOfBounds)?;
        data.as_bytes().get(4..end).ok_or(ReadError::OutOfBounds)?;
        Ok(Dummy32(n))
    }
}

fn item<T>(r: Result<T, ReadError>, size: impl Fn(&T) -> usize) -> String {
    match r {
        Ok(t) => format!("o{}", size(&t)),
        Err(_) => "e".into(),
    }
}

fn varlen_case<'a, T: FontRead<'a> + VarSize>(
    s: &mut Session,
    rng: &mut Rng,
    kind: &str,
    d: &'a [u8],
    size: impl Fn(&T) -> usize + Copy,
    min_item: usize,
) {
    let input = || format!("varlen kind={kind} {}", hex(d));
    let h = hex(d);
    let data = FontData::new(d);
    // iter
    let cap = d.len() + 2;
    let r = catch(|| {
        let arr = VarLenArray::<T>::read(data).unwrap();
        let v: Vec<String> = arr.iter().take(cap).map(|x| item(x, size)).collect();
        v
    });
    s.oracle("iters.no-panic", r.is_ok(), input, || format!("iter {:?}", r.as_ref().err()));
    if let Ok(v) = &r {
        s.oracle("iters.varlen.yield<=len/min-item", v.len() * min_item <= d.len(), input, || format!("{} items", v.len()));
        s.count(&format!("varlen.{kind}.items:{}", match v.len() { 0 => "0", 1 => "1", _ => "2+" }));
    }
    let n_items = r.as_ref().map(|v| v.len()).unwrap_or(0);
    s.case("varlen.iter", format!("it.var.iter {kind} {h}"), or_panic(r.map(|v| join(&v))));
    // get
    for idx in [0usize, 1, 2, n_items.saturating_sub(1), n_items, n_items + 1, rng.below(6) as usize, usize::MAX, 1 << 40] {
        let g = catch(|| {
            let arr = VarLenArray::<T>::read(data).unwrap();
            match arr.get(idx) {
                None => "none".to_string(),
                Some(x) => item(x, size),
            }
        });
        s.oracle("iters.no-panic", g.is_ok(), input, || format!("get({idx}) {:?}", g.as_ref().err()));
        if let Ok(x) = &g {
            s.count(&format!("varlen.get:{}", &x[..1]));
        }
        s.case("varlen.get", format!("it.var.get {kind} {idx} {h}"), or_panic(g));
    }
    // read_len_at at every position around the data, total_len_for_count
    for pos in [0usize, 1, d.len().saturating_sub(1), d.len(), d.len() + 1, rng.below(d.len() as u64 + 1) as usize] {
        let l = catch(|| T::read_len_at(data, pos).map(|x| x.to_string()).unwrap_or("none".into()));
        s.oracle("iters.no-panic", l.is_ok(), input, || format!("read_len_at({pos})"));
        s.case("varlen.read_len_at", format!("it.var.len {kind} {pos} {h}"), or_panic(l));
    }
    for count in [0usize, 1, 2, n_items, n_items + 1, 0xFFFF] {
        let t = catch(|| T::total_len_for_count(data, count).map(|x| x.to_string()).unwrap_or("err".into()));
        s.oracle("iters.no-panic", t.is_ok(), input, || format!("total_len_for_count({count})"));
        s.case("varlen.total_len_for_count", format!("it.var.total {kind} {count} {h}"), or_panic(t));
    }
}

/// items whose length prefixes point exactly at / one before / one past the end
fn gen_varlen(rng: &mut Rng, prefix: usize, scale: usize, ascii: bool) -> Vec<u8> {
    let mut v: Vec<u8> = vec![];
    let items = rng.below(5);
    for _ in 0..items {
        let n = rng.below(7) as usize;
        let mut p = vec![0u8; prefix];
        let mut x = n;
        for b in p.iter_mut().rev() {
            *b = x as u8;
            x >>= 8;
        }
        v.extend(p);
        for _ in 0..n * scale {
            v.push(if ascii || rng.chance(9, 10) { 0x20 + rng.below(0x5f) as u8 } else { rng.next() as u8 });
        }
    }
    match rng.below(7) {
        0 => {
            let k = v.len().saturating_sub(1);
            v.truncate(k);
        }
        1 => v.push(rng.below(4) as u8),
        2 => {
            // a final prefix that points beyond the end
            let mut p = vec![0xFFu8; prefix];
            if prefix > 1 && rng.chance(1, 2) {
                p[0] = 0;
            }
            v.extend(p);
            v.extend(rbytes(rng, 3));
        }
        3 => {
            let k = rng.below(v.len() as u64 + 1) as usize;
            v.truncate(k);
        }
        _ => {}
    }
    v
}

fn gen_slt(rng: &mut Rng) -> Vec<u8> {
    let n = rng.below(24) as usize;
    (0..n)
        .map(|_| match rng.below(6) {
            0 => b',',
            1 => b' ',
            _ => b'a' + rng.below(26) as u8,
        })
        .collect()
}

fn computed_case(s: &mut Session, rng: &mut Rng, data_len: usize, axis_count: u16) {
    // data[2j..2j+2] = j, so an item's first value reveals the offset it was read at
    let mut d = vec![0u8; data_len];
    for j in 0..data_len / 2 {
        d[2 * j] = (j >> 8) as u8;
        d[2 * j + 1] = j as u8;
    }
    let item_len = axis_count as usize * 2;
    let input = || format!("computed-array data_len={data_len} axis_count={axis_count}");
    let r = catch(|| {
        let arr = ComputedArray::<Tuple>::new(FontData::new(&d), axis_count).unwrap();
        let mut sm = Summ::new();
        for t in arr.iter().take(data_len + 2) {
            let off = t.ok().and_then(|t| t.get(0)).map(|v| v.to_bits() as u16 as u64 * 2).unwrap_or(u64::MAX);
            sm.push(&[off]);
        }
        (sm, arr.len())
    });
    s.oracle("iters.no-panic", r.is_ok(), input, || format!("{:?}", r.as_ref().err()));
    if let Ok((sm, len)) = &r {
        s.oracle("iters.computed.yield=len<=data_len", sm.n == *len as u64 && *len <= data_len, input, || format!("{} {len}", sm.n));
    }
    s.case("computed.iter", format!("it.comp.iter {data_len} {item_len}"), or_panic(r.map(|x| x.0.render())));
    let n_items = if item_len == 0 { 0 } else { data_len / item_len };
    for idx in [0usize, 1, n_items.saturating_sub(1), n_items, n_items + 1, rng.below(n_items as u64 + 2) as usize, usize::MAX, usize::MAX / 2] {
        let g = catch(|| {
            let arr = ComputedArray::<Tuple>::new(FontData::new(&d), axis_count).unwrap();
            match arr.get(idx) {
                // an item that starts inside the data but is cut short is an Err from Tuple::read, not from `get`'s own range logic
                Ok(t) => t.get(0).map(|v| (v.to_bits() as u16 as u64 * 2).to_string()).unwrap_or("empty".into()),
                Err(_) => "err".into(),
            }
        });
        s.oracle("iters.no-panic", g.is_ok(), input, || format!("get({idx})"));
        // the model returns the start offset whenever `split_off` succeeds; the real `get` then fails in
        // Tuple::read if fewer than item_len bytes remain: normalise both to "err" in that case
        let req = format!("it.comp.get {data_len} {item_len} {idx}");
        let short = item_len == 0 || (idx as u128 * item_len as u128 + item_len as u128) > data_len as u128;
        if !short {
            s.case("computed.get", req, or_panic(g));
        } else {
            s.oracle("iters.computed.get-short=err-or-empty", matches!(g.as_deref(), Ok("err") | Ok("empty")), input, || format!("get({idx}) = {g:?}"));
        }
    }
}

fn run_varlen(cfg: &Config, s: &mut Session, rng: &mut Rng) {
    let n = if cfg.thorough() { 6000 } else { 300 };
    for _ in 0..n {
        let d = gen_varlen(rng, 1, 1, false);
        varlen_case::<PString>(s, rng, "1", &d, |p: &PString| p.as_str().len(), 1);
        let d = gen_varlen(rng, 2, 1, false);
        varlen_case::<Dummy16>(s, rng, "2", &d, |p: &Dummy16| p.0 as usize, 2);
        let d = gen_varlen(rng, 4, 1, false);
        varlen_case::<Dummy32>(s, rng, "4", &d, |p: &Dummy32| p.0 as usize, 4);
        let d = gen_varlen(rng, 2, 4, false);
        varlen_case::<SegmentMaps>(s, rng, "sm", &d, |p: &SegmentMaps| p.axis_value_maps().len(), 2);
        let d = gen_slt(rng);
        varlen_case::<ScriptLangTag>(s, rng, "slt", &d, |p: &ScriptLangTag| p.as_ref().len(), 1);
        let data_len = *rng.pick(&[0usize, 1, 2, 3, 4, 7, 8, 9, 64, 65, 1000, 1001]);
        let axis_count = *rng.pick(&[0u16, 1, 2, 3, 4, 32, 500, 501, 0xFFFF]);
        computed_case(s, rng, data_len, axis_count);
    }
    for d in [vec![], vec![0u8], vec![1], vec![0xFF], vec![0, 0], vec![3, b'a', b'b', b'c'], vec![3, b'a', b'b'], vec![1, 0x80], vec![2, b'a', 0xC3]] {
        varlen_case::<PString>(s, rng, "1", &d, |p: &PString| p.as_str().len(), 1);
    }
    for d in [vec![], vec![0xFFu8, 0xFF, 0xFF, 0xFF], vec![0xFF, 0xFF, 0xFF, 0xFF, 1], vec![0, 0, 0, 0], vec![0, 0, 0]] {
        varlen_case::<Dummy32>(s, rng, "4", &d, |p: &Dummy32| p.0 as usize, 4);
        varlen_case::<Dummy16>(s, rng, "2", &d, |p: &Dummy16| p.0 as usize, 2);
        varlen_case::<SegmentMaps>(s, rng, "sm", &d, |p: &SegmentMaps| p.axis_value_maps().len(), 2);
    }
}

pub fn run(cfg: &Config, s: &mut Session) {
    let mut rng = Rng::new(cfg.seed ^ 0x17e5);
    run_cmap4(cfg, s, &mut rng);
    run_cmap12(cfg, s, &mut rng);
    run_packed(cfg, s, &mut rng);
    run_varlen(cfg, s, &mut rng);
}
