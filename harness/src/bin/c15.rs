//! C15 — scalar and fixed-point types.
//! Correspondence: font-types operators vs Model/Fixed.lean on a boundary grid² + random operands,
//! exhaustive 16-bit conversions.  Oracles (model-independent): exact i128 rounding, float and
//! big-endian round trips, ordering.
use fv_harness::common::*;
use font_types::{F26Dot6, F2Dot14, Fixed, Int24, Scalar, Uint24};

#[path = "c15/float.rs"]
mod float;
#[path = "c15/ord.rs"]
mod ord;
#[path = "c15/scalars.rs"]
mod scalars;

fn rha_q(p: i128, q: i128) -> i128 {
    // exact p/q rounded half away from zero, q != 0
    let (p, q) = if q < 0 { (-p, -q) } else { (p, q) };
    if p >= 0 { (2 * p + q) / (2 * q) } else { -((2 * (-p) + q) / (2 * q)) }
}

fn fits_i32(v: i128) -> bool {
    v >= i32::MIN as i128 && v <= i32::MAX as i128
}

fn binary(s: &mut Session, a: i32, b: i32) {
    let fa = Fixed::from_bits(a);
    let fb = Fixed::from_bits(b);
    let m = catch(|| (fa * fb).to_bits());
    s.case("mul", format!("fx.mul {a} {b}"), trap_or(m.clone()));
    let exact = rha_q(a as i128 * b as i128, 65536);
    if fits_i32(exact) {
        s.oracle("mul=exact-rounded-half-away", m == Ok(exact as i32),
            || format!("Fixed({a}) * Fixed({b})"), || format!("got {m:?} want {exact}"));
    }
    let d = catch(|| (fa / fb).to_bits());
    s.case("div", format!("fx.div {a} {b}"), trap_or(d.clone()));
    if b != 0 {
        let exact = rha_q(a as i128 * 65536, b as i128);
        if fits_i32(exact) {
            s.oracle("div=exact-rounded-half-away", d == Ok(exact as i32),
                || format!("Fixed({a}) / Fixed({b})"), || format!("got {d:?} want {exact}"));
        } else {
            s.oracle("div-no-trap", d.is_ok(), || format!("Fixed({a}) / Fixed({b})"), || format!("{d:?}"));
        }
    } else {
        let want = if a < 0 { -0x7FFFFFFF } else { 0x7FFFFFFF };
        s.oracle("div-by-zero-saturates", d == Ok(want), || format!("Fixed({a}) / 0"), || format!("got {d:?} want {want}"));
    }
    // F26Dot6 shares the macro: same bit-level function
    let m26 = catch(|| (F26Dot6::from_bits(a) * F26Dot6::from_bits(b)).to_bits());
    s.oracle("f26dot6-mul-same-macro", m26 == m, || format!("F26Dot6({a}) * F26Dot6({b})"), || format!("{m26:?} vs {m:?}"));
}

fn ternary(s: &mut Session, x: i32, a: i32, b: i32) {
    let r = catch(|| Fixed::from_bits(x).mul_div(Fixed::from_bits(a), Fixed::from_bits(b)).to_bits());
    s.case("mul_div", format!("fx.muldiv {x} {a} {b}"), trap_or(r.clone()));
    if b != 0 {
        let exact = rha_q(x as i128 * a as i128, b as i128);
        if fits_i32(exact) {
            s.oracle("mul_div=exact-rounded-half-away", r == Ok(exact as i32),
                || format!("Fixed({x}).mul_div({a}, {b})"), || format!("got {r:?} want {exact}"));
        } else {
            s.oracle("mul_div-no-trap", r.is_ok(), || format!("Fixed({x}).mul_div({a}, {b})"), || format!("{r:?}"));
        }
    }
}

fn unary(s: &mut Session, a: i32) {
    let f = Fixed::from_bits(a);
    s.case("round", format!("fx.round 16 {a}"), trap_or(catch(|| f.round().to_bits())));
    s.case("floor", format!("fx.floor 16 {a}"), trap_or(catch(|| f.floor().to_bits())));
    s.case("fract", format!("fx.fract 16 {a}"), trap_or(catch(|| f.fract().to_bits())));
    s.case("to_i32", format!("fx.toi32 {a}"), trap_or(catch(|| f.to_i32())));
    s.case("to_f26dot6", format!("fx.tof26 {a}"), trap_or(catch(|| f.to_f26dot6().to_bits())));
    s.case("to_f2dot14", format!("fx.tof2 {a}"), trap_or(catch(|| f.to_f2dot14().to_bits())));
    s.case("from_i32", format!("fx.fromi32 {a}"), trap_or(catch(|| Fixed::from_i32(a).to_bits())));
    s.case("neg", format!("fx.neg {a}"), trap_or(catch(|| (-f).to_bits())));
    s.case("abs", format!("fx.abs {a}"), trap_or(catch(|| f.abs().to_bits())));
    // model-independent oracles for the unary conversions (i64 arithmetic; ties toward +infinity as the
    // OpenType rounding rule 'add half, arithmetic shift' prescribes; the i32 add wraps)
    {
        let wrap = |v: i64| v as i32 as i64;
        let fl = |v: i64, d: i64| v.div_euclid(d);
        let inp = || format!("Fixed({a})");
        let a64 = a as i64;
        let chk = |s: &mut Session, name: &str, got: Result<i64, String>, want: i64| {
            s.oracle(name, got == Ok(want), inp, || format!("got {got:?} want {want}"));
        };
        chk(s, "to_f26dot6=floor((x+0x200)/1024)", catch(|| f.to_f26dot6().to_bits() as i64), fl(wrap(a64 + 0x200), 1024));
        chk(s, "to_f2dot14=floor((x+2)/4)-as-i16", catch(|| f.to_f2dot14().to_bits() as i64), (fl(wrap(a64 + 2), 4)) as i16 as i64);
        chk(s, "to_i32=floor((x+0x8000)/65536)", catch(|| f.to_i32() as i64), fl(wrap(a64 + 0x8000), 65536));
        chk(s, "round=floor((x+0x8000)/65536)*65536", catch(|| f.round().to_bits() as i64), fl(wrap(a64 + 0x8000), 65536) * 65536);
        chk(s, "floor=floor(x/65536)*65536", catch(|| f.floor().to_bits() as i64), fl(a64, 65536) * 65536);
        chk(s, "fract=x-mod-65536", catch(|| f.fract().to_bits() as i64), a64.rem_euclid(65536));
        chk(s, "from_i32=wrapping-shift", catch(|| Fixed::from_i32(a).to_bits() as i64), wrap(a64 << 16));
        let g = F26Dot6::from_bits(a);
        chk(s, "f26.to_i32=floor((x+32)/64)", catch(|| g.to_i32() as i64), fl(wrap(a64 + 32), 64));
        chk(s, "f26.round=floor((x+32)/64)*64", catch(|| g.round().to_bits() as i64), fl(wrap(a64 + 32), 64) * 64);
        chk(s, "f26.floor=floor(x/64)*64", catch(|| g.floor().to_bits() as i64), fl(a64, 64) * 64);
        chk(s, "f26.fract=x-mod-64", catch(|| g.fract().to_bits() as i64), a64.rem_euclid(64));
    }
    let g = F26Dot6::from_bits(a);
    s.case("f26.round", format!("fx.round 6 {a}"), trap_or(catch(|| g.round().to_bits())));
    s.case("f26.floor", format!("fx.floor 6 {a}"), trap_or(catch(|| g.floor().to_bits())));
    s.case("f26.fract", format!("fx.fract 6 {a}"), trap_or(catch(|| g.fract().to_bits())));
    s.case("f26.to_i32", format!("f26.toi32 {a}"), trap_or(catch(|| g.to_i32())));
    s.case("f26.from_i32", format!("f26.fromi32 {a}"), trap_or(catch(|| F26Dot6::from_i32(a).to_bits())));
    // float view: exact dyadic value and loss-free round trip
    let parts = {
        let x = f.to_f64();
        let int = x.floor();
        let fract = (x - int) * 65536.0;
        format!("{} {}", int as i64, fract as i64)
    };
    s.case("to_f64", format!("fx.parts 16 {a}"), parts);
    s.oracle("fixed-f64-roundtrip", Fixed::from_f64(f.to_f64()) == f, || format!("Fixed({a})"), || format!("{:?}", Fixed::from_f64(f.to_f64()).to_bits()));
    s.oracle("fixed-to_f64-exact", f.to_f64() == a as f64 / 65536.0, || format!("Fixed({a})"), || format!("{}", f.to_f64()));
    s.oracle("f26dot6-f64-roundtrip", F26Dot6::from_f64(g.to_f64()) == g, || format!("F26Dot6({a})"), || String::new());
    // from_f64 rounds to nearest: a value a quarter-ulp off rounds back to the same bits
    let q = a as f64 / 65536.0;
    for off in [0.25f64, -0.25] {
        let x = q + off / 65536.0;
        if (x * 65536.0 - (a as f64 + off)).abs() == 0.0 && a > i32::MIN + 1 && a < i32::MAX - 1 {
            s.oracle("from_f64-rounds-to-nearest", Fixed::from_f64(x).to_bits() == a, || format!("Fixed::from_f64({a}+{off} ulps)"), || format!("{}", Fixed::from_f64(x).to_bits()));
        }
    }
    // big-endian
    let raw = Fixed::to_raw(f);
    s.case("be.i32", format!("be.s 4 {a}"), join(&raw));
    s.oracle("fixed-be-roundtrip", Fixed::from_raw(raw) == f, || format!("Fixed({a})"), || String::new());
    let u = a as u32;
    s.case("be.u32", format!("be.u 4 {u}"), join(&u.to_raw()));
    s.oracle("u32-be-roundtrip", u32::from_raw(u.to_raw()) == u && u.to_raw() == u.to_be_bytes(), || format!("{u}"), || String::new());
    // 24-bit constructors saturate
    s.case("Int24::new", format!("i24.new {a}"), Int24::new(a).to_i32().to_string());
    s.case("Uint24::new", format!("u24.new {u}"), Uint24::new(u).to_u32().to_string());
    // model-independent: construction saturates (clamp), and agrees with checked_new
    s.oracle("int24-new-saturates", Int24::new(a).to_i32() == a.clamp(-0x80_0000, 0x7F_FFFF)
        && Int24::checked_new(a).map(|v| v.to_i32()) == if (-0x80_0000..=0x7F_FFFF).contains(&a) { Some(a) } else { None },
        || format!("Int24::new({a})"), || format!("{}", Int24::new(a).to_i32()));
    s.oracle("uint24-new-saturates", Uint24::new(u).to_u32() == u.min(0xFF_FFFF)
        && Uint24::checked_new(u).map(|v| v.to_u32()) == if u <= 0xFF_FFFF { Some(u) } else { None },
        || format!("Uint24::new({u})"), || format!("{}", Uint24::new(u).to_u32()));
}

fn exhaustive16(s: &mut Session) {
    for v in i16::MIN..=i16::MAX {
        let f = F2Dot14::from_bits(v);
        s.oracle("f2dot14-f32-roundtrip", F2Dot14::from_f32(f.to_f32()) == f, || format!("F2Dot14({v})"), || String::new());
        s.oracle("f2dot14-to_f32-exact", f.to_f32() == v as f32 / 16384.0, || format!("F2Dot14({v})"), || String::new());
        s.oracle("f2dot14-fixed-roundtrip", f.to_fixed().to_f2dot14() == f, || format!("F2Dot14({v})"), || String::new());
        s.oracle("i16-be-roundtrip", i16::from_raw(v.to_raw()) == v && F2Dot14::from_raw(f.to_raw()) == f && f.to_raw() == v.to_be_bytes(), || format!("{v}"), || String::new());
        let ord_ok = v == i16::MAX || (F2Dot14::from_bits(v) < F2Dot14::from_bits(v + 1) && f.to_f32() < F2Dot14::from_bits(v + 1).to_f32());
        s.oracle("f2dot14-order-is-bits-order", ord_ok, || format!("F2Dot14({v})"), || String::new());
        if v % 7 == 0 || v > i16::MAX - 300 || v < i16::MIN + 300 || (v > -300 && v < 300) {
            s.case("F2Dot14::to_fixed", format!("fx.f2tofixed {v}"), f.to_fixed().to_bits().to_string());
            s.case("be.i16", format!("be.s 2 {v}"), join(&v.to_raw()));
            s.case("be.u16", format!("be.u 2 {}", v as u16), join(&(v as u16).to_raw()));
            let bytes = v.to_be_bytes();
            s.case("be.fromu16", format!("be.fromu {} {}", bytes[0], bytes[1]), u16::from_raw(bytes).to_string());
            s.case("be.froms16", format!("be.froms 2 {} {}", bytes[0], bytes[1]), i16::from_raw(bytes).to_string());
            let parts = {
                let x = f.to_f32() as f64;
                let int = x.floor();
                format!("{} {}", int as i64, ((x - int) * 16384.0) as i64)
            };
            s.case("F2Dot14::to_f32", format!("fx.parts 14 {v}"), parts);
        }
    }
}

fn exhaustive24(s: &mut Session, thorough: bool) {
    let step = if thorough { 1usize } else { 251 };
    let mut v: u32 = 0;
    while v <= 0xFF_FFFF {
        let b = [(v >> 16) as u8, (v >> 8) as u8, v as u8];
        let u = Uint24::from_be_bytes(b);
        let i = Int24::from_be_bytes(b);
        s.oracle("uint24-bytes-roundtrip", u.to_be_bytes() == b && u.to_u32() == v && Uint24::from_raw(b) == u, || format!("{b:?}"), || String::new());
        let want_i = if v >= 0x80_0000 { v as i32 - 0x100_0000 } else { v as i32 };
        s.oracle("int24-bytes-roundtrip", i.to_be_bytes() == b && i.to_i32() == want_i && Int24::from_raw(b) == i, || format!("{b:?}"), || format!("{}", i.to_i32()));
        if v % 4099 == 0 || v < 300 || v > 0xFF_FFFF - 300 || (v > 0x7F_FF00 && v < 0x80_0100) {
            s.case("Int24::from_be", format!("i24.frombe {} {} {}", b[0], b[1], b[2]), i.to_i32().to_string());
            s.case("Int24::to_be", format!("i24.tobe {}", i.to_i32()), join(&i.to_be_bytes()));
            s.case("Uint24::from_be", format!("u24.frombe {} {} {}", b[0], b[1], b[2]), u.to_u32().to_string());
            s.case("Uint24::to_be", format!("u24.tobe {}", u.to_u32()), join(&u.to_be_bytes()));
        }
        v += step as u32;
    }
}

fn main() {
    fv_harness::main_with("C15", run);
}

fn run(cfg: &Config, s: &mut Session) {
    let mut rng = Rng::new(cfg.seed);
    let grid = boundary_i32();
    s.notes.push(format!("boundary grid: {} operands per side", grid.len()));
    for &a in &grid {
        unary(s, a);
        for &b in &grid {
            binary(s, a, b);
        }
    }
    let n_rand = if cfg.thorough() { 400_000 } else { 40_000 };
    for _ in 0..n_rand {
        // mixed magnitudes: uniform bits shifted by a random amount
        let a = (rng.next() as i32) >> rng.below(32);
        let b = (rng.next() as i32) >> rng.below(32);
        binary(s, a, b);
        unary(s, a);
    }
    // mul_div: grid³ is too large; boundary × boundary × small divisor set + random
    let small: Vec<i32> = grid.iter().copied().filter(|x| (x.unsigned_abs() as u64) < 4 || (x.unsigned_abs() as u64) > 0x7FFF_FFF0 || [0x8000u32, 0x10000, 64, 0x4000].contains(&x.unsigned_abs())).collect();
    for &x in &grid {
        for &a in &small {
            for &b in &small {
                ternary(s, x, a, b);
                ternary(s, a, x, b);
                ternary(s, a, b, x);
            }
        }
    }
    for _ in 0..n_rand {
        let x = (rng.next() as i32) >> rng.below(32);
        let a = (rng.next() as i32) >> rng.below(32);
        let b = (rng.next() as i32) >> rng.below(32);
        ternary(s, x, a, b);
    }
    exhaustive16(s);
    exhaustive24(s, cfg.thorough());
    // float conversions + OtRound, ordering / equality / hashing, remaining scalar types
    // (each part draws from its own generator so that adding cases to one does not shift the others)
    float::run(cfg, s, &mut Rng::new(cfg.seed ^ 0xF10A7));
    ord::run(cfg, s, &mut Rng::new(cfg.seed ^ 0x0DD));
    scalars::run(cfg, s, &mut Rng::new(cfg.seed ^ 0x5CA1A));
}
